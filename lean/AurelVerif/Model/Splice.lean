/-
Model/Splice.lean — hand-written, executable, Mathlib-free model of the
splicing code of `finitedifference.py`:

  fd_map, d3_onesided, d3_periodic, d3_symmetric   (lines 139-141, 304-356)
  d3x / d3y / d3z by transposition                 (358-376)
  map1 / map2 / map3 and the d3_* tensor variants  (143-164, 378-468)
  cutoffmask / cutoffmask2                         (516-538)

The model is polymorphic in the element type `α` of the sample list: the
Python code only moves samples around and forms linear combinations of them
with the stencil coefficients, so its result on `α = Nat` (sample positions)
*is* the exact symbolic linear form of every output sample.  Python index
semantics (negative indices wrap once, anything else raises IndexError) and
slice semantics (clamping) are modelled literally; an IndexError is `none`.
-/
namespace AurelVerif.Splice

/-- Python `l[i]` for an integer index: wraps once for negative `i`,
raises (`none`) outside `[-n, n)`. -/
def pyIdx (n : Nat) (i : Int) : Option Nat :=
  if 0 ≤ i then (if i < n then some i.toNat else none)
  else (if -(n : Int) ≤ i then some (i + n).toNat else none)

def pyGet (l : List α) (i : Int) : Option α :=
  match pyIdx l.length i with
  | some j => l[j]?
  | none => none

/-- Python slice bound normalisation: negative bounds get `+ n`, then clamp
to `[0, n]`. -/
def clampBound (n : Nat) (i : Int) : Nat :=
  let j := if i < 0 then i + n else i
  if j < 0 then 0 else if (n : Int) < j then n else j.toNat

/-- Python `l[a:b]` (step 1) with integer bounds. -/
def pySlice (l : List α) (a b : Int) : List α :=
  let lo := clampBound l.length a
  let hi := clampBound l.length b
  (l.drop lo).take (hi - lo)

/-- Python `l[a:]`. -/
def pySliceFrom (l : List α) (a : Int) : List α :=
  l.drop (clampBound l.length a)

/-- Python `l[:b]`. -/
def pySliceTo (l : List α) (b : Int) : List α :=
  l.take (clampBound l.length b)

/-- A stencil: list of (offset, coefficient). -/
abbrev Stencil := List (Int × Rat)

/-- A formal linear combination of samples. -/
abbrev Lin (α : Type) := List (Rat × α)

/-- `func(f, i, idx)` without the trailing `* idx`: Σ c_k · f[i+k], each
look-up with Python semantics. -/
def applySt (st : Stencil) (f : List α) (i : Int) : Option (Lin α) :=
  st.mapM (fun kc => (pyGet f (i + kc.1)).map (fun a => (kc.2, a)))

/-- `np.arange(imin, imax)` for integers. -/
def arange (imin imax : Int) : List Int :=
  (List.range (imax - imin).toNat).map (fun (j : Nat) => imin + (j : Int))

/-- `fd_map(func, farray, idx, imin, imax)`. -/
def fdMap (st : Stencil) (f : List α) (imin imax : Int) : Option (List (Lin α)) :=
  (arange imin imax).mapM (applySt st f)

structure Scheme where
  fwd : Stencil
  cen : Stencil
  bwd : Stencil
  maskLen : Nat

/-- `d3_onesided(f, idx, N)`; `N` is the *parameter* `param['Nx']`, which the
code uses instead of `len(f)`. -/
def d3Onesided (s : Scheme) (f : List α) (N : Nat) : Option (List (Lin α)) := do
  let m : Int := s.maskLen
  let lhs ← fdMap s.fwd f 0 m
  let mid ← fdMap s.cen f m ((N : Int) - m)
  let rhs ← fdMap s.bwd f ((N : Int) - m) N
  pure (lhs ++ mid ++ rhs)

/-- `d3_periodic`: `flong = f[-m:] ++ f ++ f[:m]`.  NB Python `f[-0:]` is all
of `f`; `maskLen ≥ 1` always in the code. -/
def d3Periodic (s : Scheme) (f : List α) (N : Nat) : Option (List (Lin α)) :=
  let m : Int := s.maskLen
  let flong := pySliceFrom f (-m) ++ f ++ pySliceTo f m
  fdMap s.cen flong m ((N : Int) + m)

/-- `d3_symmetric`: `flong = f[1:1+m][::-1] ++ f ++ f[iend-m:iend][::-1]`,
`iend = N-1`. -/
def d3Symmetric (s : Scheme) (f : List α) (N : Nat) : Option (List (Lin α)) :=
  let m : Int := s.maskLen
  let iend : Int := (N : Int) - 1
  let flong := (pySlice f 1 (1 + m)).reverse ++ f ++ (pySlice f (iend - m) iend).reverse
  fdMap s.cen flong m ((N : Int) + m)

inductive Boundary | none | periodic | symmetric
deriving DecidableEq, Repr

def d3 (b : Boundary) (s : Scheme) (f : List α) (N : Nat) : Option (List (Lin α)) :=
  match b with
  | .periodic => d3Periodic s f N
  | .symmetric => d3Symmetric s f N
  | .none => d3Onesided s f N

/-! ### 3-D arrays and axis exchange -/

/-- A 3-D array `A[i][j][k]`, outer index first (numpy C order). -/
abbrev Arr3 (α : Type) := List (List (List α))

/-- `np.transpose(f, (1,0,2))`. -/
def transpose12 (f : List (List β)) : List (List β) :=
  match f with
  | [] => []
  | r :: _ => (List.range r.length).map (fun j => f.filterMap (fun row => row[j]?))

/-- `np.transpose(f, (2,1,0))`: out[k][j][i] = f[i][j][k]. -/
def transpose13 (f : Arr3 α) : Arr3 α :=
  match f with
  | [] => []
  | p :: _ =>
    match p with
    | [] => []
    | q :: _ =>
      (List.range q.length).map fun k =>
        (List.range p.length).map fun j =>
          f.filterMap fun plane => (plane[j]?).bind (fun row => row[k]?)

/-- The code applies `d3` to a 3-D array along axis 0: every stencil reads
whole planes `f[i+k]` and combines them pointwise.  On the model level a
plane of samples is an element `α := List (List γ)`, and the linear
combination distributes over the plane.  `distribute` turns a formal
combination of planes into a plane of formal combinations. -/
def distribute (ny nz : Nat) (row : Lin (List (List γ))) : List (List (Lin γ)) :=
  (List.range ny).map fun j => (List.range nz).map fun k =>
    row.filterMap fun ca => ((ca.2[j]?).bind (fun r => r[k]?)).map (fun g => (ca.1, g))

def shape3 (f : Arr3 α) : Nat × Nat × Nat :=
  (f.length, (f.head?.map List.length).getD 0,
   ((f.head?.bind List.head?).map List.length).getD 0)

/-- `d3x(f)`: `d3(f, 1/dx, param['Nx'])` on planes. -/
def d3x (b : Boundary) (s : Scheme) (f : Arr3 α) (Nx : Nat) : Option (Arr3 (Lin α)) :=
  let (_, ny, nz) := shape3 f
  (d3 b s f Nx).map (fun rows => rows.map (distribute ny nz))

/-- `d3y(f)`: transpose (1,0,2), `d3(…, param['Ny'])`, transpose back. -/
def d3y (b : Boundary) (s : Scheme) (f : Arr3 α) (Ny : Nat) : Option (Arr3 (Lin α)) :=
  (d3x b s (transpose12 f) Ny).map transpose12

/-- `d3z(f)`: transpose (2,1,0), `d3(…, param['Nz'])`, transpose back. -/
def d3z (b : Boundary) (s : Scheme) (f : Arr3 α) (Nz : Nat) : Option (Arr3 (Lin α)) :=
  (d3x b s (transpose13 f) Nz).map transpose13

/-! ### the grid spacing: `func(f, i, inverse_dx)` multiplies the stencil sum by `1/d` of ITS axis -/

/-- multiply a formal combination by the inverse spacing. -/
def scaleLin (c : Rat) (row : Lin α) : Lin α := row.map fun ca => (ca.1 * c, ca.2)

def scale3 (c : Rat) (a : Arr3 (Lin α)) : Arr3 (Lin α) := a.map fun p => p.map fun r => r.map (scaleLin c)

/-- `d3x`: `self.d3(f, self.inverse_dx, param['Nx'])`, likewise y and z with their own spacing. -/
def d3xS (b : Boundary) (s : Scheme) (f : Arr3 α) (Nx : Nat) (dx : Rat) : Option (Arr3 (Lin α)) :=
  (d3x b s f Nx).map (scale3 (1 / dx))
def d3yS (b : Boundary) (s : Scheme) (f : Arr3 α) (Ny : Nat) (dy : Rat) : Option (Arr3 (Lin α)) :=
  (d3y b s f Ny).map (scale3 (1 / dy))
def d3zS (b : Boundary) (s : Scheme) (f : Arr3 α) (Nz : Nat) (dz : Rat) : Option (Arr3 (Lin α)) :=
  (d3z b s f Nz).map (scale3 (1 / dz))

/-! ### tensor variants -/

def map1 (g : β → Option γ) (f : List β) : Option (List γ) := f.mapM g
def map2 (g : β → Option γ) (f : List (List β)) : Option (List (List γ)) := f.mapM (map1 g)
def map3 (g : β → Option γ) (f : List (List (List β))) : Option (List (List (List γ))) :=
  f.mapM (map2 g)

/-! ### cutoffmask -/

/-- `f[m:-m]` on one axis. -/
def cut1 (m : Nat) (f : List α) : List α := pySlice f m (-(m : Int))

def cutoff1 (m : Nat) (f : List α) : List α := cut1 m f
def cutoff2 (m : Nat) (f : List (List α)) : List (List α) := (cut1 m f).map (cut1 m)
def cutoff3 (m : Nat) (f : Arr3 α) : Arr3 α := (cut1 m f).map (fun p => (cut1 m p).map (cut1 m))

end AurelVerif.Splice
