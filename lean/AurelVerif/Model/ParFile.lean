/-
Model/ParFile.lean — hand-written, executable, Mathlib-free model of the
`.par` parser inside `parameters()` of `reading.py` (lines 686-746: from
`with open(parampath)` to `parameters['list_of_thorns'] = list_of_thorns`).

Written literally after the code: comment stripping with `split('#')[0]`,
the test `'::' in line and '=' in line`, `re.split('::', line)` /
`re.split('=', linerest)` (literal patterns: the same lists as `str.split`),
re-joining of the surplus pieces, `strip()`, the number test
`value.replace('.', '', 1).replace('-', '', 1).replace('+', '', 1).replace('e', '', 1).isdigit()`,
`int(value)` / `float(value)`, `value.split('"')[1]`, the five variable names
that keep their thorn prefix, the `ActiveThorns` line (the name `line` is
REBOUND to the list of pieces inside the first branch, so that the second
test `'ActiveThorns' in line` is then a list-membership test and
`re.split('"', line)` raises TypeError when it succeeds).

A float is represented exactly as `mant * 10^exp` (decimal value of the
text); Python's `float()` rounds that value correctly to a double (trusted).

Not modelled: the search of the parameter file through SIMLOC / glob, the grid
quantities computed afterwards from xmin/xmax/dx (floating point), non-ASCII
digits (`str.isdigit` accepts more than `int`), the 4300-digit limit of `int`.
-/
import AurelVerif.Model.Catalog

namespace AurelVerif.ParFile
open AurelVerif.Catalog

inductive PVal
  | int (i : Int)
  /-- the decimal `mant * 10^exp` -/
  | float (mant : Int) (exp : Int)
  | str (s : Str)
deriving DecidableEq, Repr

/-- `s.replace(c, '', 1)` for a one-character `c` -/
def removeFirst (c : Char) : Str → Str
  | [] => []
  | x :: xs => if x == c then xs else x :: removeFirst c xs

/-- `s.isdigit()` (ASCII digits) -/
def isDigitStr (s : Str) : Bool := !s.isEmpty && s.all isDig

/-- `float(s)` for texts made of ASCII digits and at most one each of
`. - + e` (the only texts that reach `float` here):
`[sign] (digits [. digits*] | . digits) [e [sign] digits]`.
Result `(mant, exp)` = the decimal `mant * 10^exp`; `none` = ValueError. -/
def pyFloat (s : Str) : Option (Int × Int) :=
  let (neg, r) := match strip s with
    | '-' :: r => (true, r)
    | '+' :: r => (false, r)
    | r => (false, r)
  let ip := r.takeWhile isDig
  let r := r.dropWhile isDig
  let (fp, r) := match r with
    | '.' :: r' => (r'.takeWhile isDig, r'.dropWhile isDig)
    | _ => ([], r)
  if ip.isEmpty && fp.isEmpty then none else
  let ex : Option Int := match r with
    | [] => some 0
    | 'e' :: r' =>
      let (eneg, d) := match r' with
        | '-' :: d => (true, d)
        | '+' :: d => (false, d)
        | d => (false, d)
      if !d.isEmpty && d.all isDig then
        (digitsVal d).map fun n => if eneg then -(n : Int) else (n : Int)
      else none
    | _ => none
  match ex, digitsVal (ip ++ fp) with
  | some e, some m => some ((if neg then -(m : Int) else (m : Int)), e - (fp.length : Int))
  | _, _ => none

/-- "format value, number or string" -/
def formatValue (value : Str) : Except Err PVal :=
  let dv := removeFirst 'e' (removeFirst '+' (removeFirst '-' (removeFirst '.' value)))
  if isDigitStr dv then
    if value.contains '.' || value.contains 'e' then
      match pyFloat value with
      | some (m, e) => .ok (.float m e)
      | none => .error .valueError
    else
      match pyInt value with
      | some i => .ok (.int i)
      | none => .error .valueError
  else if value.contains '"' then (idx (split ['"'] value) 1).map PVal.str
  else .ok (.str value)

def sColon2 : Str := [':', ':']
def sActive : Str := ['A', 'c', 't', 'i', 'v', 'e', 'T', 'h', 'o', 'r', 'n', 's']

/-- variable names that several thorns use: stored as `thorn::variable` -/
def clashing : List Str :=
  [['v','e','r','b','o','s','e'], ['t','i','m','e','l','e','v','e','l','s'],
   ['e','v','o','l','u','t','i','o','n','_','m','e','t','h','o','d'], ['o','u','t','_','e','v','e','r','y'],
   ['o','n','e','_','f','i','l','e','_','p','e','r','_','g','r','o','u','p']]

def parKey (thorn vname : Str) : Str :=
  if clashing.contains vname then thorn ++ sColon2 ++ vname else vname

structure PState where
  dict : List (Str × PVal)
  thorns : List Str
deriving DecidableEq, Repr

/-- one pass of `for line in lines` -/
def parLine (st : PState) (line : Str) : Except Err PState := do
  if isInfix sColon2 line && line.contains '=' then
    let parts := split sColon2 line
    let thorn ← idx parts 0
    let _ ← idx parts 1
    -- linerest = line[1]; for li in line[2:]: linerest += '::' + li
    let linerest := joinSep sColon2 (parts.drop 1)
    let pieces := split ['='] linerest
    let vname ← idx pieces 0
    let _ ← idx pieces 1
    -- value = linerest[1]; for li in linerest[2:]: value += '=' + li
    let value := joinSep ['='] (pieces.drop 1)
    let thorn := strip thorn
    let vname := strip vname
    let value ← formatValue (strip value)
    let st := { dict := dset st.dict (parKey thorn vname) value, thorns := st.thorns ++ [thorn] }
    -- `line` is now the list `parts`
    if parts.contains sActive then .error .typeError else pure st
  else if isInfix sActive line then do
    let thorns ← idx (split ['"'] line) 1
    pure { st with thorns := st.thorns ++ split [' '] thorns }
  else pure st

/-- the lines handed to the loop: comments and empty lines removed -/
def parLines (text : Str) : Except Err (List Str) := do
  let ls ← (split ['\n'] (universalNl text)).mapM fun li => idx (split ['#'] li) 0
  pure (ls.filter fun li => !li.isEmpty)

/-- the parsing part of `parameters()`: `init` is the dictionary before the
file is read (`simname`, `simulation`, `simpath`, `datapath`); the result is
the dictionary before the grid quantities are added, and `list_of_thorns`
before `list(set(...))`. -/
def parseParText (init : List (Str × PVal)) (text : Str) : Except Err PState := do
  let ls ← parLines text
  foldlE parLine { dict := init, thorns := [] } ls

def sET : Str := ['E', 'T']

/-- the dictionary `parameters()` holds when it starts reading the file -/
def initDict (simloc simname : Str) : List (Str × PVal) :=
  [(['s','i','m','n','a','m','e'], .str simname), (['s','i','m','u','l','a','t','i','o','n'], .str sET),
   (['s','i','m','p','a','t','h'], .str simloc),
   (['d','a','t','a','p','a','t','h'], .str (simloc ++ simname ++ ['/','o','u','t','p','u','t','-','0','0','0','0','/'] ++ simname ++ ['/']))]

end AurelVerif.ParFile
