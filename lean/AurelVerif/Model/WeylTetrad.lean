/-
Model/WeylTetrad.lean — HAND model (property C10, extension) of the two remaining pieces of
`tetrad_base` / `norm3` / `norm4` that Model/WeylNP.lean leaves abstract:

* `norm3(v) = np.sqrt(abs(vector_inner_product3(v, v)))`, `norm4` likewise: `normOf sq g u = sq |<u,u>|`
  (`sq` stands for `np.sqrt`);
* the assembly of the quasi-Kinnersley tetrad from the orthonormalised triad:
  ```
  e0up4 = nup4 = (1, 0, 0, 0)          # "not self["nup4"] because wave zone"
  e1up4 = (0, v2[0], v2[1], v2[2]);  e2up4 = (0, v3[0], v3[1], v3[2]);  e3up4 = (0, v1[0], v1[1], v1[2])
  ```
Same tie to the source as Model/WeylNP.lean: the AST pin of `tetrad_base`, `norm3`, `norm4` in
tools/props/C10.py plus the numerical oracle.
-/
import AurelVerif.Model.WeylNP
import Mathlib.Algebra.Order.Ring.Defs
import Mathlib.Algebra.Order.Ring.Abs

namespace AurelVerif.Model.WeylNP
open AurelVerif.Tensor AurelVerif.Spec.Weyl

section
variable {K : Type} [Field K]

/-- `(0, w[0], w[1], w[2])`. -/
def embed3 (w : Fin 3 → K) : Fin 4 → K := vec4 0 (w 0) (w 1) (w 2)

/-- the quasi-Kinnersley tetrad `(e0, e1, e2, e3)` as returned by `tetrad_base`. -/
def tetradQK (γ : Fin 3 → Fin 3 → K) (nrm : (Fin 3 → K) → K) (v1 v2 v3 : Fin 3 → K) : Fin 4 → Fin 4 → K :=
  vec4 (vec4 1 0 0 0) (embed3 (gs3_w2 γ nrm v1 v2)) (embed3 (gs3_w3 γ nrm v1 v2 v3)) (embed3 (gs3_w1 nrm v1))
end

section
variable {K : Type} [Field K] [LinearOrder K]

/-- `norm3` / `norm4`: `sqrt(abs(<u,u>))`. -/
def normOf (sq : K → K) {n : Nat} (g : Fin n → Fin n → K) (u : Fin n → K) : K := sq |ip g u u|
end

end AurelVerif.Model.WeylNP
