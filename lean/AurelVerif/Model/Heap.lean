/-
Model/Heap.lean — alias IR, concrete heap semantics and the may-alias check
for property C02 ("requests never modify user inputs or values already handed
out").  Hand-written, executable, core Lean only (no Mathlib).

Concrete side
-------------
* every array / list / dict that Python allocates owns one *root* (a natural
  number, allocated from `Heap.next`); a numpy view shares the root of its
  base.  Each root carries two version counters:
    `aver`  bumped by every in-place operation that may change array contents
            (`+=`, `x[...] = …`, `x[...] += …`, `.sort()`, `.fill()` …, and any
            subscript assignment on an object whose type is not known);
    `cver`  bumped by those AND by container-structure operations
            (`append`, `remove`, `del d[k]`, `d[k] = v`, list `+=`).
* a Python value is a `Val`: an object `id`, the roots the object itself may
  be (`own`; a list because a subscript of an unknown object may be a view of
  it or any of its elements), and every root reachable through it (`reach`).
* `Heap.cache` models `AurelCore.data` (and, under separate keys, attributes
  of `self` / `self.fd` and module globals).
* `exec` runs alias-IR statements on a concrete heap.  Branch conditions and
  loop trip counts are abstracted: they are read from an oracle `ch : List
  Bool`; the soundness theorem quantifies over every oracle and every fuel.

Abstract side
-------------
* a taint is a list of *atoms*: `0` = "anything that may have existed before
  the call" (cache entries, globals …), `2i+1` = "the object passed as
  parameter `i` itself", `2i+2` = "anything reachable from parameter `i`".
  The empty taint = allocated during this call.
* `analyse` is a flow-sensitive abstract interpreter (strong updates on
  assignment, join at `ite`, checked post-fixpoint at `loop`) that uses one
  `Summ` per function: which atoms the function may mutate (array-wise /
  container-wise), what its return value may alias, what it may store into
  pre-existing containers.
* `solve` iterates the summaries (Gauss–Seidel rounds, fuel = number of
  functions) and `aliasCheck` *re-checks* that the result is a consistent
  post-fixpoint and that every public function mutates nothing it did not
  allocate itself.  Soundness (Lemmas/Heap.lean) only uses the re-check.
-/
namespace AurelVerif.Heap

abbrev Var := Nat
abbrev Key := Nat
abbrev FnId := Nat

/-! ## positional environments with a default -/

def getE {α : Type} (d : α) : List α → Nat → α
  | [], _ => d
  | a :: _, 0 => a
  | _ :: e, n + 1 => getE d e n

def setE {α : Type} (d : α) : List α → Nat → α → List α
  | [], 0, v => [v]
  | [], n + 1, v => d :: setE d [] n v
  | _ :: e, 0, v => v :: e
  | a :: e, n + 1, v => a :: setE d e n v

/-! ## concrete values, heap, statements -/

structure Val where
  id : Nat
  own : List Nat
  reach : List Nat
deriving Repr, DecidableEq

/-- Python `None`, numbers, strings: nothing to alias. -/
def Val.none : Val := ⟨0, [], []⟩

inductive Stmt where
  | skip
  | seq (a b : Stmt)
  /-- `if … : a else: b` (condition abstracted) -/
  | ite (a b : Stmt)
  /-- `for` / `while` (trip count abstracted) -/
  | loop (body : Stmt)
  /-- `x := fresh` object that references the values `ys` (`np.array(..)`,
  arithmetic, `einsum` with contraction, `.copy()`, list / dict / tuple
  displays, `list(..)`, `dict(..)`; `ys = []` for arrays) -/
  | join (x : Var) (ys : List Var)
  /-- `x := y` and numpy views that are certainly views of the array `y`
  itself (`.T`, `np.transpose`, `reshape`, `np.real/imag`, pure-permutation
  `einsum`, `np.asarray`) -/
  | alias (x y : Var)
  /-- `x := view ys`: a subscript / slice / iteration element / attribute of,
  or the result of an unknown call on, `ys` — may be any of them, a view of
  any of them, or anything inside them -/
  | view (x : Var) (ys : List Var)
  /-- `x := param i` -/
  | param (x : Var) (i : Nat)
  /-- `x := self["k"]`: the cache entry, computed (and stored) by the key's
  method when absent -/
  | cached (x : Var) (k : Key)
  /-- `x := ` attribute of `self`/`self.fd` or module global `k`: pre-existing
  object, never computed -/
  | glob (x : Var) (k : Key)
  /-- `x := call f args` -/
  | call (x : Var) (f : FnId) (args : List Var)
  /-- in-place operation that may change array contents -/
  | mutate (x : Var)
  /-- container-structure operation (`append`, `remove`, `d[k] = v` on a dict …) -/
  | cmutate (x : Var)
  /-- the value `y` has been stored *by reference* into the container `x`
  (`x.append(y)`, `x[k] = y`): from now on every live container of this
  activation may reach it; the caller is told (`St.esc`) when `x` may be an
  object the caller can see, or when such an object has been given a reference
  to something of this activation before (`St.leaked`) -/
  | absorb (x y : Var)
  /-- `self.data[k] = x` / `self.attr = x` -/
  | store (k : Key) (x : Var)
  /-- `return x` -/
  | ret (x : Var)
deriving Repr

structure Fn where
  body : Stmt
  /-- entry point a user may call with arrays of his own: may not change the
  array contents of any argument object -/
  pub : Bool
  /-- save/read entry point: may not change an argument list / dict itself
  (container-structure mutations count too) -/
  cpub : Bool
  /-- container-structure mutations of anything that existed before the call
  are excluded as well (proved for the save/read functions where the analysis
  is precise enough; see the translator's table) -/
  strict : Bool
deriving Repr

structure Program where
  fns : List Fn
  /-- description key ↦ the method that computes it -/
  keys : List (Key × FnId)
deriving Repr

def Program.keyFn (p : Program) (k : Key) : Option FnId := p.keys.lookup k

structure Heap where
  aver : Nat → Nat
  cver : Nat → Nat
  next : Nat
  cache : List (Key × Val)

/-- version counter of kind `c` (`false` = array contents, `true` = container
structure or contents). -/
def Heap.ver (h : Heap) (c : Bool) : Nat → Nat := if c then h.cver else h.aver

def bump (rs : List Nat) (f : Nat → Nat) : Nat → Nat :=
  fun r => if r ∈ rs then f r + 1 else f r

/-- one activation record + the global heap + the oracle -/
structure St where
  env : List Val
  params : List Val
  ret : Option Val
  /-- roots stored by reference into containers the caller may see -/
  esc : List Nat
  /-- a container that existed before this activation has been given a reference -/
  leaked : Bool
  /-- `Heap.next` when the activation started: roots below it existed before -/
  base : Nat
  h : Heap
  ch : List Bool

def St.init (params : List Val) (h : Heap) (ch : List Bool) : St :=
  { env := [], params := params, ret := none, esc := [], leaked := false, base := h.next, h := h, ch := ch }

def getV (e : List Val) (x : Var) : Val := getE Val.none e x
def setV (e : List Val) (x : Var) (v : Val) : List Val := setE Val.none e x v

def absorbAll (e : List Val) (rs : List Nat) : List Val :=
  e.map fun v => { v with reach := v.reach ++ rs }

def reachOf (e : List Val) (ys : List Var) : List Nat :=
  ys.flatMap fun y => (getV e y).reach

/-- result of a finished activation as seen by the caller -/
def finishCall (st : St) (x : Var) (st' : St) : St :=
  { st with env := setV (absorbAll st.env st'.esc) x (st'.ret.getD Val.none),
            esc := st.esc ++ st'.esc, h := st'.h, ch := st'.ch }

def exec (p : Program) : Nat → Stmt → St → Option St
  | 0, _, _ => none
  | fuel + 1, s, st =>
    if st.ret.isSome then some st else
    match s with
    | .skip => some st
    | .seq a b =>
      match exec p fuel a st with
      | none => none
      | some st1 => exec p fuel b st1
    | .ite a b =>
      match st.ch with
      | [] => exec p fuel b st
      | c :: cs => if c then exec p fuel a { st with ch := cs } else exec p fuel b { st with ch := cs }
    | .loop b =>
      match st.ch with
      | [] => some st
      | c :: cs =>
        if c then
          match exec p fuel b { st with ch := cs } with
          | none => none
          | some st1 => exec p fuel (.loop b) st1
        else some { st with ch := cs }
    | .join x ys =>
      let r := st.h.next
      some { st with env := setV st.env x ⟨r, [r], r :: reachOf st.env ys⟩,
                     h := { st.h with next := r + 1 } }
    | .alias x y => some { st with env := setV st.env x (getV st.env y) }
    | .view x ys =>
      let t := reachOf st.env ys
      some { st with env := setV st.env x ⟨st.h.next, t, t⟩,
                     h := { st.h with next := st.h.next + 1 } }
    | .param x i => some { st with env := setV st.env x (getV st.params i) }
    | .glob x k =>
      match st.h.cache.lookup k with
      | some v => some { st with env := setV st.env x v }
      | none => none
    | .cached x k =>
      match st.h.cache.lookup k with
      | some v => some { st with env := setV st.env x v }
      | none =>
        match p.keyFn k with
        | none => none
        | some f =>
          match p.fns[f]? with
          | none => none
          | some fn =>
            match exec p fuel fn.body (St.init [] st.h st.ch) with
            | none => none
            | some st' =>
              let st2 := finishCall st x st'
              some { st2 with h := { st2.h with cache := (k, st'.ret.getD Val.none) :: st2.h.cache } }
    | .call x f args =>
      match p.fns[f]? with
      | none => none
      | some fn =>
        match exec p fuel fn.body (St.init (args.map (getV st.env)) st.h st.ch) with
        | none => none
        | some st' => some (finishCall st x st')
    | .mutate x =>
      let rs := (getV st.env x).own
      some { st with h := { st.h with aver := bump rs st.h.aver, cver := bump rs st.h.cver } }
    | .cmutate x =>
      let rs := (getV st.env x).own
      some { st with h := { st.h with cver := bump rs st.h.cver } }
    | .absorb x y =>
      let rs := (getV st.env y).reach
      let vis := st.leaked || (getV st.env x).own.any (fun r => decide (r < st.base))
      some { st with env := absorbAll st.env rs, esc := if vis then st.esc ++ rs else st.esc, leaked := vis }
    | .store k x => some { st with h := { st.h with cache := (k, getV st.env x) :: st.h.cache } }
    | .ret x => some { st with ret := some (getV st.env x) }

/-- Run function `f` as a request on heap `h` with the given arguments.
Returns the value handed out and the heap afterwards. -/
def request (p : Program) (fuel : Nat) (f : FnId) (args : List Val) (h : Heap) (ch : List Bool) :
    Option (Val × Heap) :=
  match p.fns[f]? with
  | none => none
  | some fn =>
    match exec p fuel fn.body (St.init args h ch) with
    | none => none
    | some st' => some (st'.ret.getD Val.none, st'.h)

/-! ## abstract domain -/

abbrev Taint := List Nat

def Taint.join (t u : Taint) : Taint := t ++ u.filter fun a => !(t.contains a)

def dedup : List Nat → List Nat
  | [] => []
  | a :: l => let d := dedup l; if d.contains a then d else a :: d

def Taint.leB (t u : Taint) : Bool := t.all fun a => u.contains a

structure AVal where
  own : Taint
  reach : Taint
deriving Repr, DecidableEq

def AVal.bot : AVal := ⟨[], []⟩
def AVal.join (a b : AVal) : AVal := ⟨a.own.join b.own, a.reach.join b.reach⟩
def AVal.leB (a b : AVal) : Bool := a.own.leB b.own && a.reach.leB b.reach

/-- Per-function summary (also the accumulator while a body is analysed). -/
structure Summ where
  /-- `false` once a loop invariant could not be established -/
  ok : Bool
  /-- atoms whose roots may have their array contents changed in place -/
  mutA : Taint
  /-- atoms whose roots may be changed in place at all -/
  mutC : Taint
  retOwn : Taint
  retReach : Taint
  /-- taint of what may have been stored by reference into containers -/
  esc : Taint
deriving Repr, DecidableEq

def Summ.bot : Summ := ⟨true, [], [], [], [], []⟩

def Summ.join (a b : Summ) : Summ :=
  ⟨a.ok && b.ok, a.mutA.join b.mutA, a.mutC.join b.mutC, a.retOwn.join b.retOwn,
   a.retReach.join b.retReach, a.esc.join b.esc⟩

def Summ.leB (a b : Summ) : Bool :=
  (!b.ok || a.ok) && a.mutA.leB b.mutA && a.mutC.leB b.mutC && a.retOwn.leB b.retOwn
    && a.retReach.leB b.retReach && a.esc.leB b.esc

def Summ.mut (s : Summ) (c : Bool) : Taint := if c then s.mutC else s.mutA

structure AS where
  env : List AVal
  /-- a pre-existing container may have been given a reference in this activation -/
  leaked : Bool
  s : Summ
deriving Repr

def getA (e : List AVal) (x : Var) : AVal := getE AVal.bot e x
def setA (e : List AVal) (x : Var) (v : AVal) : List AVal := setE AVal.bot e x v

def envJoin : List AVal → List AVal → List AVal
  | [], e2 => e2
  | e1, [] => e1
  | a :: e1, b :: e2 => a.join b :: envJoin e1 e2

/-- pointwise `⊑`, and the left environment binds no more variables than the right one -/
def envLeB : List AVal → List AVal → Bool
  | [], _ => true
  | _ :: _, [] => false
  | a :: e1, b :: e2 => a.leB b && envLeB e1 e2

def AS.join (a b : AS) : AS := ⟨envJoin a.env b.env, a.leaked || b.leaked, a.s.join b.s⟩
def AS.leB (a b : AS) : Bool := envLeB a.env b.env && (!a.leaked || b.leaked) && a.s.leB b.s
def AS.fail (a : AS) : AS := { a with s := { a.s with ok := false } }

def absorbA (e : List AVal) (t : Taint) : List AVal :=
  e.map fun v => { v with reach := v.reach.join t }

def reachA (e : List AVal) (ys : List Var) : Taint :=
  dedup (ys.flatMap fun y => (getA e y).reach)

/-- a callee atom seen from the call site: `0` stays `0`; "parameter `i`
itself" (`2i+1`) becomes whatever the `i`-th argument may itself be, "reachable
from parameter `i`" (`2i+2`) whatever the `i`-th argument may reach. -/
def instAtom (as : List AVal) : Nat → Taint
  | 0 => [0]
  | n + 1 => if n % 2 = 0 then (getA as (n / 2)).own else (getA as (n / 2)).reach

def inst (as : List AVal) (t : Taint) : Taint := dedup (t.flatMap (instAtom as))

/-- effect of calling a function with summary `sm` on arguments `as`, result in `x`;
`force` adds to the result (used by `cached`: the value may also come from the cache). -/
def applyCall (sm : Summ) (as : List AVal) (x : Var) (force : AVal) (σ : AS) : AS :=
  let e := inst as sm.esc
  { env := setA (absorbA σ.env e) x
      ⟨force.own.join (inst as sm.retOwn), force.reach.join (inst as sm.retReach)⟩,
    leaked := σ.leaked,
    s := { σ.s with ok := σ.s.ok && sm.ok,
                    mutA := σ.s.mutA.join (inst as sm.mutA),
                    mutC := σ.s.mutC.join (inst as sm.mutC),
                    esc := σ.s.esc.join e } }

/-- `loopFix f n σ`: smallest of `σ, σ ⊔ f σ, …` (at most `n` steps) that is
stable under `f`; marked failed if none is. -/
def loopFix (f : AS → AS) : Nat → AS → AS
  | 0, σ => σ.fail
  | n + 1, σ => let τ := f σ; if τ.leB σ then σ else loopFix f n (σ.join τ)

def loopRounds : Nat := 8

def analyse (S : List Summ) (kf : Key → Option FnId) : Stmt → AS → AS
  | .skip, σ => σ
  | .seq a b, σ => analyse S kf b (analyse S kf a σ)
  | .ite a b, σ => (analyse S kf a σ).join (analyse S kf b σ)
  | .loop b, σ => loopFix (fun τ => analyse S kf b τ) loopRounds σ
  | .join x ys, σ => { σ with env := setA σ.env x ⟨[], reachA σ.env ys⟩ }
  | .alias x y, σ => { σ with env := setA σ.env x (getA σ.env y) }
  | .view x ys, σ => let t := reachA σ.env ys; { σ with env := setA σ.env x ⟨t, t⟩ }
  | .param x i, σ => { σ with env := setA σ.env x ⟨[2 * i + 1], [2 * i + 1, 2 * i + 2]⟩ }
  | .glob x _, σ => { σ with env := setA σ.env x ⟨[0], [0]⟩ }
  | .cached x k, σ =>
    match kf k with
    | none => { σ with env := setA σ.env x ⟨[0], [0]⟩ }
    | some f => applyCall (getE Summ.bot S f) [] x ⟨[0], [0]⟩ σ
  | .call x f args, σ => applyCall (getE Summ.bot S f) (args.map (getA σ.env)) x AVal.bot σ
  | .mutate x, σ =>
    let t := (getA σ.env x).own
    { σ with s := { σ.s with mutA := σ.s.mutA.join t, mutC := σ.s.mutC.join t } }
  | .cmutate x, σ => { σ with s := { σ.s with mutC := σ.s.mutC.join (getA σ.env x).own } }
  | .absorb x y, σ =>
    let t := (getA σ.env y).reach
    let vis := σ.leaked || !(getA σ.env x).own.isEmpty
    { env := absorbA σ.env t, leaked := vis,
      s := if vis then { σ.s with esc := σ.s.esc.join t } else σ.s }
  | .store _ _, σ => σ
  | .ret x, σ =>
    let v := getA σ.env x
    { σ with s := { σ.s with retOwn := σ.s.retOwn.join v.own, retReach := σ.s.retReach.join v.reach } }

/-- summary computed from a body under the summaries `S` -/
def bodySumm (S : List Summ) (kf : Key → Option FnId) (fn : Fn) : Summ :=
  (analyse S kf fn.body ⟨[], false, Summ.bot⟩).s

/-! ## fixed point and the check -/

def roundFn (p : Program) (S : List Summ) (f : Nat) : List Summ :=
  match p.fns[f]? with
  | none => S
  | some fn => setE Summ.bot S f ((getE Summ.bot S f).join (bodySumm S p.keyFn fn))

def round (p : Program) (S : List Summ) : List Summ :=
  (List.range p.fns.length).foldl (roundFn p) S

def summLeAll : List Summ → List Summ → Bool
  | [], _ => true
  | a :: l, [] => a.leB Summ.bot && summLeAll l []
  | a :: l, b :: m => a.leB b && summLeAll l m

def solve (p : Program) : Nat → List Summ → List Summ
  | 0, S => S
  | k + 1, S => let S' := round p S; if summLeAll S' S then S else solve p k S'

def Program.summaries (p : Program) : List Summ :=
  solve p (p.fns.length + 1) (List.replicate p.fns.length Summ.bot)

/-- what is demanded of function `f` with summary `sm` -/
def fnOK (fn : Fn) (sm : Summ) : Bool :=
  sm.ok
  -- nobody may change array contents of anything that existed before the call
  && !(sm.mutA.contains 0)
  -- a public function may not change array contents of its own arguments either
  && (!fn.pub || sm.mutA.isEmpty)
  -- save/read functions, `strict`: no in-place change at all of anything that existed
  -- before the call, except the argument objects themselves (atoms `2i+1`) ...
  && (!fn.strict || sm.mutC.all (fun a => a % 2 == 1))
  -- ... `cpub`: and not of the argument objects themselves either
  && (!fn.cpub || sm.mutC.all (fun a => a % 2 == 0))

/-- function `f` under the summary table `S`: its body, analysed under `S`, stays below its
own entry (so `S` is a post-fixpoint at `f`), and the entry meets the demands on `f` -/
def checkFn (p : Program) (S : List Summ) (f : Nat) : Bool :=
  match p.fns[f]? with
  | none => true
  | some fn => (bodySumm S p.keyFn fn).leB (getE Summ.bot S f) && fnOK fn (getE Summ.bot S f)

/-- the check, given a summary table (any table: soundness does not depend on how it was found) -/
def checkWith (p : Program) (S : List Summ) : Bool :=
  (List.range p.fns.length).all (checkFn p S)

def aliasCheck (p : Program) : Bool := checkWith p p.summaries

/-- indices of the functions that fail `fnOK` (diagnostics for the driver) -/
def failing (p : Program) : List Nat :=
  let S := p.summaries
  (List.range p.fns.length).filter fun f =>
    match p.fns[f]? with
    | none => false
    | some fn => !(fnOK fn (getE Summ.bot S f))

/-! ## a user session: the heap between requests -/

/-- what a user does with an `AurelCore` / the module functions between and by requests -/
inductive Step where
  /-- creates an array / list / dict of his own -/
  | alloc
  /-- hands an object to the library: `rel.data[k] = v`, `AurelCore(fd, …)`, `fd = FiniteDifference(…)` -/
  | put (k : Key) (v : Val)
  /-- calls the public function `f` (a description key via `rel["k"]`, a helper, `over_time`, `save_data` …) -/
  | req (f : FnId) (args : List Val) (fuel : Nat) (ch : List Bool)

def runStep (p : Program) (h : Heap) : Step → Option Heap
  | .alloc => some { h with next := h.next + 1 }
  | .put k v => some { h with cache := (k, v) :: h.cache }
  | .req f args fuel ch =>
    match request p fuel f args h ch with
    | none => none
    | some (_, h') => some h'

def run (p : Program) : Heap → List Step → Option Heap
  | h, [] => some h
  | h, s :: l =>
    match runStep p h s with
    | none => none
    | some h1 => run p h1 l

/-- every request of the history addresses a public function -/
def publicOnly (p : Program) : List Step → Prop
  | [] => True
  | .req f _ _ _ :: l => (∃ fn, p.fns[f]? = some fn ∧ fn.pub = true) ∧ publicOnly p l
  | _ :: l => publicOnly p l

end AurelVerif.Heap
