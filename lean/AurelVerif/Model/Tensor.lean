import AurelVerif.Model.Attr
import AurelVerif.Model.TensorDefs
/-
Model/Tensor.lean — literal tensors for generated formulas (Mathlib-free).
`vec3 a b c` is the function `Fin 3 → α` with those three values; nesting gives
higher ranks.  The `rfl` lemmas at literal indices are the only thing proofs
need to unfold a generated table.
-/
namespace AurelVerif.Tensor

@[simp, core_unfold] theorem vec3_0 {α : Type} (a b c : α) : vec3 a b c 0 = a := rfl
@[simp, core_unfold] theorem vec3_1 {α : Type} (a b c : α) : vec3 a b c 1 = b := rfl
@[simp, core_unfold] theorem vec3_2 {α : Type} (a b c : α) : vec3 a b c 2 = c := rfl
@[simp, core_unfold] theorem vec4_0 {α : Type} (a b c d : α) : vec4 a b c d 0 = a := rfl
@[simp, core_unfold] theorem vec4_1 {α : Type} (a b c d : α) : vec4 a b c d 1 = b := rfl
@[simp, core_unfold] theorem vec4_2 {α : Type} (a b c d : α) : vec4 a b c d 2 = c := rfl
@[simp, core_unfold] theorem vec4_3 {α : Type} (a b c d : α) : vec4 a b c d 3 = d := rfl

@[simp, core_unfold] theorem succ3_0 : Fin.succ (0 : Fin 3) = (1 : Fin 4) := rfl
@[simp, core_unfold] theorem succ3_1 : Fin.succ (1 : Fin 3) = (2 : Fin 4) := rfl
@[simp, core_unfold] theorem succ3_2 : Fin.succ (2 : Fin 3) = (3 : Fin 4) := rfl

theorem fin3_cases {P : Fin 3 → Prop} (h0 : P 0) (h1 : P 1) (h2 : P 2) : ∀ i, P i := by
  intro i
  match i with
  | ⟨0, _⟩ => exact h0
  | ⟨1, _⟩ => exact h1
  | ⟨2, _⟩ => exact h2

theorem fin4_cases {P : Fin 4 → Prop} (h0 : P 0) (h1 : P 1) (h2 : P 2) (h3 : P 3) : ∀ i, P i := by
  intro i
  match i with
  | ⟨0, _⟩ => exact h0
  | ⟨1, _⟩ => exact h1
  | ⟨2, _⟩ => exact h2
  | ⟨3, _⟩ => exact h3

end AurelVerif.Tensor
