/-
Model/CacheGet.lean — hand-written, executable, Mathlib-free model of the
*values* produced by `AurelCore.__getitem__` (core.py:185-207) over an
abstract definition table, for property C01 (the lazy cache is transparent).

A method body is a `Shape`: the decision tree of its `if` tests with, in
Python evaluation order, the requests `self["k"]` (`read`), the direct
accesses `self.data["k"]` (`peek`), loops of requests (`rep`) and the return
sites (`ret i`, whose formula is the abstract function `leaf k i` of the list
of all values read on the way).  Helper methods are inlined.  Tests are
evaluated on the cache *at the moment they are reached*, exactly as in the
code, so an eviction between two look-ups of one body is visible to the model.
Gen/DepGraph.lean (generated from core.py) contains the shape of every
description key.

The eviction policy is a parameter: any state type `σ`, any function called
on a hit, after a store (`cleanup_cache`) and between requests.  Values are
immutable in this model (in-place mutation of cached arrays is property C02).
-/
import AurelVerif.Model.Cache

namespace AurelVerif.CacheGet
open AurelVerif.Cache AurelVerif.Cache.Dict

/-- presence / option formula of an `if` test -/
inductive Guard (κ : Type)
  | pres (k : κ)              -- 'k' in self.data
  | flag (name : String)      -- self.vacuum, self.tetrad == "...", opaque value tests
  | not (g : Guard κ)
  | and (g h : Guard κ)
  | or (g h : Guard κ)

/-- loop count: a literal, or a physical option such as `len(self.extract_radii)` -/
inductive Count
  | lit (n : Nat)
  | opt (name : String)

inductive Shape (κ : Type)
  | ret (leaf : Nat)
  | read (k : κ) (next : Shape κ)
  | peek (k : κ) (next : Shape κ)
  | rep (n : Count) (ks : List κ) (next : Shape κ)
  | test (g : Guard κ) (t e : Shape κ)
  | fail

variable {κ ν σ : Type}

def Guard.eval (P : κ → Bool) (F : String → Bool) : Guard κ → Bool
  | .pres k => P k
  | .flag f => F f
  | .not g => !(g.eval P F)
  | .and g h => g.eval P F && h.eval P F
  | .or g h => g.eval P F || h.eval P F

/-- keys that are certainly cached when `g` evaluates to `b` -/
def Guard.implied : Guard κ → Bool → List κ
  | .pres k, true => [k]
  | .pres _, false => []
  | .flag _, _ => []
  | .not g, b => g.implied (!b)
  | .and g h, true => g.implied true ++ h.implied true
  | .and _ _, false => []
  | .or _ _, true => []
  | .or g h, false => g.implied false ++ h.implied false

/-- The definition table: shapes, return-site formulas, physical options. -/
structure Table (κ ν : Type) where
  /-- `none`: the name has no method (`getattr` raises AttributeError) -/
  shape : κ → Option (Shape κ)
  /-- `leaf k i vs`: value returned at return site `i` of `k`'s method from the values read -/
  leaf : κ → Nat → List ν → ν
  flag : String → Bool
  count : String → Nat

def Table.countOf (T : Table κ ν) : Count → Nat
  | .lit n => n
  | .opt s => T.count s

/-- An eviction policy with its own state. -/
structure Policy (σ κ ν : Type) where
  /-- bookkeeping on a hit (`last_accessed[key] = count`) -/
  onHit : σ → κ → σ
  /-- after `data[key] = value`: count, stamp, `cleanup_cache()` -/
  onStore : σ → Dict κ ν → κ → σ × Dict κ ν
  /-- between two requests (a direct `cleanup_cache()`, changed settings, ...) -/
  onSweep : σ → Dict κ ν → σ × Dict κ ν

inductive GErr
  | recursion    -- fuel exhausted = RecursionError
  | keyError     -- `self.data[k]` on a missing key
  | attrError    -- no method of that name
  | raised       -- `raise` in the body
  deriving DecidableEq, Repr

abbrev Cfg (σ κ ν : Type) := σ × Dict κ ν

variable [DecidableEq κ]

/-- a list of requests in sequence; the values are appended to `vs` -/
def readList (getRec : Cfg σ κ ν → κ → Except GErr (Cfg σ κ ν × ν)) :
    Cfg σ κ ν → List κ → List ν → Except GErr (Cfg σ κ ν × List ν)
  | c, [], vs => .ok (c, vs)
  | c, k :: ks, vs =>
    match getRec c k with
    | .error e => .error e
    | .ok (c1, v) => readList getRec c1 ks (vs ++ [v])

def repReads (getRec : Cfg σ κ ν → κ → Except GErr (Cfg σ κ ν × ν)) :
    Nat → Cfg σ κ ν → List κ → List ν → Except GErr (Cfg σ κ ν × List ν)
  | 0, c, _, vs => .ok (c, vs)
  | n + 1, c, ks, vs =>
    match readList getRec c ks vs with
    | .error e => .error e
    | .ok (c1, vs1) => repReads getRec n c1 ks vs1

/-- Runs the body of `k0`'s method; `getRec` is `__getitem__` for nested requests. -/
def runShape (T : Table κ ν) (k0 : κ) (getRec : Cfg σ κ ν → κ → Except GErr (Cfg σ κ ν × ν)) :
    Cfg σ κ ν → Shape κ → List ν → Except GErr (Cfg σ κ ν × ν)
  | c, .ret i, vs => .ok (c, T.leaf k0 i vs)
  | c, .read k n, vs =>
    match getRec c k with
    | .error e => .error e
    | .ok (c1, v) => runShape T k0 getRec c1 n (vs ++ [v])
  | c, .peek k n, vs =>
    match get? c.2 k with
    | none => .error .keyError
    | some v => runShape T k0 getRec c n (vs ++ [v])
  | c, .rep cnt ks n, vs =>
    match repReads getRec (T.countOf cnt) c ks vs with
    | .error e => .error e
    | .ok (c1, vs1) => runShape T k0 getRec c1 n vs1
  | c, .test g t e, vs =>
    if g.eval (fun k => contains c.2 k) T.flag then runShape T k0 getRec c t vs
    else runShape T k0 getRec c e vs
  | _, .fail, _ => .error .raised

/-- `__getitem__` (core.py:185-207).  `fuel` bounds the nesting depth of
misses (Python's recursion limit); a hit needs no fuel. -/
def getF (T : Table κ ν) (pol : Policy σ κ ν) : Nat → Cfg σ κ ν → κ → Except GErr (Cfg σ κ ν × ν)
  | fuel, c, k =>
    match get? c.2 k with
    | some v => .ok ((pol.onHit c.1 k, c.2), v)                  -- cached: refresh, return
    | none =>
      match T.shape k with
      | none => .error .attrError                                 -- getattr(self, key)
      | some sh =>
        match fuel with
        | 0 => .error .recursion
        | f + 1 =>
          match runShape T k (getF T pol f) c sh [] with           -- func()
          | .error e => .error e
          | .ok (c1, v) =>
            let r := pol.onStore c1.1 (set c1.2 k v) k             -- data[key] = v; ...; cleanup_cache()
            match get? r.2 k with                                  -- return self.data[key]
            | none => .error .keyError
            | some w => .ok (r, w)

/-- history items: a request, or something the user does between requests
that may evict (a direct clean-up, new settings) -/
inductive HOp (κ : Type)
  | req (k : κ)
  | sweep

/-- Runs a history; returns the final configuration and the values returned
by the requests, in order. -/
def runHist (T : Table κ ν) (pol : Policy σ κ ν) (fuel : Nat) :
    Cfg σ κ ν → List (HOp κ) → Except GErr (Cfg σ κ ν × List ν)
  | c, [] => .ok (c, [])
  | c, .req k :: h =>
    match getF T pol fuel c k with
    | .error e => .error e
    | .ok (c1, v) =>
      match runHist T pol fuel c1 h with
      | .error e => .error e
      | .ok (c2, vs) => .ok (c2, v :: vs)
  | c, .sweep :: h => runHist T pol fuel (pol.onSweep c.1 c.2) h

/-! ### the rank condition (H1), executable so that it can be decided on the
generated table -/

/-- `shapeOK rank r G sh`: every `read` that is not guaranteed to hit (`G` =
keys known to be cached: tested present by an enclosing guard, or just
requested, with no possible eviction since) has rank `< r`; every `peek` is
guaranteed. -/
def shapeOK (rank : κ → Nat) (r : Nat) : List κ → Shape κ → Bool
  | _, .ret _ => true
  | _, .fail => true
  | G, .read k n => if G.contains k then shapeOK rank r G n else decide (rank k < r) && shapeOK rank r [k] n
  | G, .peek k n => G.contains k && shapeOK rank r G n
  | G, .rep _ ks n =>
    if ks.all G.contains then shapeOK rank r G n
    else ks.all (fun k => decide (rank k < r)) && shapeOK rank r [] n
  | G, .test g t e => shapeOK rank r (G ++ g.implied true) t && shapeOK rank r (G ++ g.implied false) e

end AurelVerif.CacheGet
