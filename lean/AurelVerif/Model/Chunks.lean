/-
Model/Chunks.lean — hand-written, executable, Mathlib-free model of the chunk
handling of `reading.py` (as the code is NOW: `join_chunks` has the one-chunk
shortcut and the general path for every other count):

  read_ET_group_or_var   ghost trimming `var_array[gz:-gz, gy:-gy, gx:-gx]`,
                         `var_chunks[it].setdefault(v, {})[iorigin] = block`
  join_chunks            group by k[1:] / sort k[0] / np.append axis 2,
                         group by k[1]  / sort k[0] / np.append axis 1,
                         sort keys / np.append axis 0
  fixij                  np.transpose(f, (2, 1, 0))
  read_ET_data           choice of the restart an iteration is read from

Arrays are `Arr3 α = List (List (List α))` in *file order* `[z][y][x]`.  A
numpy array always has a shape; a nested list only has one when it is
rectangular with non-zero extents, which is what every theorem assumes.
`np.append(a, b, axis)` raises when the other two extents differ -> `none`.
Python dicts are association lists in insertion order (`Dict`); re-assigning
an existing key keeps its position.  `np.sort` on integer keys is an
insertion sort (structurally recursive, so that the kernel can evaluate the
model in `decide +kernel` examples).
-/
namespace AurelVerif.Chunks

abbrev Arr3 (α : Type) := List (List (List α))

/-! ### shapes and `np.append` -/

/-- extent along axis 1 (taken from the first plane; 0 for an empty array) -/
def dim1 (a : Arr3 α) : Nat :=
  match a with
  | [] => 0
  | p :: _ => p.length

/-- extent along axis 2 (taken from the first row of the first plane) -/
def dim2 (a : Arr3 α) : Nat :=
  match a with
  | [] => 0
  | [] :: _ => 0
  | (r :: _) :: _ => r.length

/-- `np.append(a, b, axis=0)` -/
def cat0 (a b : Arr3 α) : Option (Arr3 α) :=
  if dim1 a = dim1 b ∧ dim2 a = dim2 b then some (a ++ b) else none

/-- `np.append(a, b, axis=1)` -/
def cat1 (a b : Arr3 α) : Option (Arr3 α) :=
  if a.length = b.length ∧ dim2 a = dim2 b then some (List.zipWith (· ++ ·) a b) else none

/-- `np.append(a, b, axis=2)` -/
def cat2 (a b : Arr3 α) : Option (Arr3 α) :=
  if a.length = b.length ∧ dim1 a = dim1 b then
    some (List.zipWith (List.zipWith (· ++ ·)) a b)
  else none

/-! ### Python dicts and `np.sort` -/

abbrev Dict (κ β : Type) := List (κ × β)

/-- `d[k]` (`none` = KeyError) -/
def Dict.get? [DecidableEq κ] (d : Dict κ β) (k : κ) : Option β :=
  match d with
  | [] => none
  | (k', v) :: rest => if k' = k then some v else Dict.get? rest k

/-- `d[k] = v`: overwrite in place or append at the end -/
def Dict.set [DecidableEq κ] (d : Dict κ β) (k : κ) (v : β) : Dict κ β :=
  match d with
  | [] => [(k, v)]
  | (k', v') :: rest => if k' = k then (k', v) :: rest else (k', v') :: Dict.set rest k v

def insertNat (x : Nat) : List Nat → List Nat
  | [] => [x]
  | y :: ys => if x ≤ y then x :: y :: ys else y :: insertNat x ys

/-- `np.sort` of a list of integers -/
def sortNat : List Nat → List Nat
  | [] => []
  | x :: xs => insertNat x (sortNat xs)

/-! ### one grouping pass of `join_chunks` -/

/-- ```
if k[1:] in groups: groups[k[1:]][k[0]] = v
else:               groups[k[1:]] = {k[0]: v}
``` -/
def groupStep [DecidableEq κ] (groups : Dict κ (Dict Nat β)) (o : Nat) (k : κ) (v : β) :
    Dict κ (Dict Nat β) :=
  match groups with
  | [] => [(k, [(o, v)])]
  | (k', g) :: rest =>
    if k' = k then (k', Dict.set g o v) :: rest else (k', g) :: groupStep rest o k v

/-- the loop `for k in all_keys: ...` building `ndata_groups` -/
def groupAll [DecidableEq κ] (items : Dict (Nat × κ) β) : Dict κ (Dict Nat β) :=
  items.foldl (fun gs it => groupStep gs it.1.1 it.1.2 it.2) []

/-- ```
all_k0 = np.sort(list(group.keys()))
acc = group[all_k0[0]]
for k0 in all_k0[1:]: acc = np.append(acc, group[k0], axis)
``` -/
def joinSorted (cat : β → β → Option β) (g : Dict Nat β) : Option β :=
  match sortNat (g.map Prod.fst) with
  | [] => none        -- all_k0[0] raises IndexError
  | k0 :: ks =>
    match g.get? k0 with
    | none => none
    | some first =>
      ks.foldlM (fun acc k => match g.get? k with
                              | none => none
                              | some b => cat acc b) first

/-- `for k in groups.keys(): out[k] = <joined group>`; the first failure aborts -/
def mapOpt (f : γ → Option δ) : List γ → Option (List δ)
  | [] => some []
  | x :: xs =>
    match f x with
    | none => none
    | some y =>
      match mapOpt f xs with
      | none => none
      | some ys => some (y :: ys)

def pass [DecidableEq κ] (cat : β → β → Option β) (items : Dict (Nat × κ) β) :
    Option (Dict κ β) :=
  mapOpt (fun kg => (joinSorted cat kg.2).map (fun w => (kg.1, w))) (groupAll items)

/-- the general path of `join_chunks`; keys are `iorigin = (ix, iy, iz)` -/
def joinGeneral (cut : Dict (Nat × Nat × Nat) (Arr3 α)) : Option (Arr3 α) :=
  match pass cat2 cut with
  | none => none
  | some ndata =>
    match pass cat1 ndata with
    | none => none
    | some nndata => joinSorted cat0 nndata

/-- `join_chunks(cut_data)` -/
def joinChunks (cut : Dict (Nat × Nat × Nat) (Arr3 α)) : Option (Arr3 α) :=
  match cut with
  | [(_, b)] => some b          -- cmax == 0
  | _ => joinGeneral cut

/-- the dict `var_chunks[it][v]` filled by `...[iorigin] = var_array` in
enumeration order (a repeated origin overwrites) -/
def toDict [DecidableEq κ] (l : List (κ × β)) : Dict κ β :=
  l.foldl (fun d kv => Dict.set d kv.1 kv.2) []

/-! ### ghost trimming and axis order -/

/-- Python `l[g:-g]`.  For `g = 0` the upper bound `-0 = 0` makes it empty. -/
def pyTrim (g : Nat) (l : List γ) : List γ :=
  let hi := if g = 0 then 0 else l.length - g
  (l.take hi).drop g

/-- `var_array[gz:-gz, gy:-gy, gx:-gx]` -/
def trimGhost (gx gy gz : Nat) (b : Arr3 α) : Arr3 α :=
  (pyTrim gz b).map fun p => (pyTrim gy p).map (pyTrim gx)

/-- `np.transpose(f, (2, 1, 0))`: `out[x][y][z] = f[z][y][x]` -/
def fixij (f : Arr3 α) : Arr3 α :=
  (List.range (dim2 f)).map fun x => (List.range (dim1 f)).map fun y =>
    f.filterMap fun plane => (plane[y]?).bind (fun row => row[x]?)

/-! ### hierarchical decompositions -/

/-- cuts of one strip along x: the lengths of the pieces -/
abbrev XSplit := List Nat
/-- cuts of one slab along y: (length, x-cuts of that strip) -/
abbrev YSplit := List (Nat × XSplit)
/-- cuts along z: (length, y-cuts of that slab) -/
abbrev ZSplit := List (Nat × YSplit)

/-- consecutive pieces `(origin, length, payload)` starting at origin `o` -/
def cutsP (o : Nat) : List (Nat × τ) → List (Nat × Nat × τ)
  | [] => []
  | (l, t) :: rest => (o, l, t) :: cutsP (o + l) rest

def cuts (o : Nat) : List Nat → List (Nat × Nat)
  | [] => []
  | l :: rest => (o, l) :: cuts (o + l) rest

/-- `l[o : o+n]` -/
def slice (o n : Nat) (l : List γ) : List γ := (l.drop o).take n

def slice0 (o n : Nat) (a : Arr3 α) : Arr3 α := slice o n a
def slice1 (o n : Nat) (a : Arr3 α) : Arr3 α := a.map (slice o n)
def slice2 (o n : Nat) (a : Arr3 α) : Arr3 α := a.map fun p => p.map (slice o n)

/-- The chunks a hierarchical decomposition `D` cuts out of `A`, in the
canonical enumeration order, keyed by `base + offset` (Carpet's `iorigin`,
x first). -/
def chunks (base : Nat × Nat × Nat) (A : Arr3 α) (D : ZSplit) : Dict (Nat × Nat × Nat) (Arr3 α) :=
  (cutsP 0 D).flatMap fun zc =>
    (cutsP 0 zc.2.2).flatMap fun yc =>
      (cuts 0 yc.2.2).map fun xc =>
        ((base.1 + xc.1, base.2.1 + yc.1, base.2.2 + zc.1),
         slice2 xc.1 xc.2 (slice1 yc.1 yc.2.1 (slice0 zc.1 zc.2.1 A)))

/-- `A` is a numpy array of shape `(nz, ny, nx)` -/
def Rect (A : Arr3 α) (nz ny nx : Nat) : Prop :=
  A.length = nz ∧ ∀ p ∈ A, p.length = ny ∧ ∀ r ∈ p, r.length = nx

/-- positive lengths that add up to the extent -/
def XSplit.Valid (xs : XSplit) (nx : Nat) : Prop := (∀ l ∈ xs, 0 < l) ∧ xs.sum = nx
def YSplit.Valid (ys : YSplit) (ny nx : Nat) : Prop :=
  (∀ s ∈ ys, 0 < s.1 ∧ XSplit.Valid s.2 nx) ∧ (ys.map Prod.fst).sum = ny
/-- `D` is a hierarchical decomposition of an `(nz, ny, nx)` grid -/
def ZSplit.Valid (D : ZSplit) (nz ny nx : Nat) : Prop :=
  (∀ s ∈ D, 0 < s.1 ∧ YSplit.Valid s.2 ny nx) ∧ (D.map Prod.fst).sum = nz

/-! ### vocabulary of the ghost-zone and axis theorems -/

/-- element-wise relation between two lists of the same length -/
def Rel₂ (R : β → γ → Prop) : List β → List γ → Prop
  | [], [] => True
  | b :: bs, c :: cs => R b c ∧ Rel₂ R bs cs
  | _, _ => False

/-- `b` is `i` with `g` arbitrary entries in front and `g` behind -/
def PadX (gx : Nat) (b i : List α) : Prop :=
  ∃ pre post, b = pre ++ i ++ post ∧ pre.length = gx ∧ post.length = gx
def PadY (gx gy : Nat) (B I : List (List α)) : Prop :=
  ∃ pre post mid, B = pre ++ mid ++ post ∧ pre.length = gy ∧ post.length = gy ∧ Rel₂ (PadX gx) mid I
/-- `B` is the block `I` surrounded by ghost layers of widths `(gx, gy, gz)`
holding arbitrary values (whole ghost planes, ghost rows and ghost cells are
unconstrained, not even rectangular) -/
def PadZ (gx gy gz : Nat) (B I : Arr3 α) : Prop :=
  ∃ pre post mid, B = pre ++ mid ++ post ∧ pre.length = gz ∧ post.length = gz ∧ Rel₂ (PadY gx gy) mid I

/-- `a[i][j][k]` -/
def get3 (a : Arr3 α) (i j k : Nat) : Option α := (a[i]?.bind (·[j]?)).bind (·[k]?)

/-! ### restart selection of `read_ET_data` (`restart = -1`, no checkpoints) -/

/-- `its available` of one restart: `(restart number, itmin, itmax)` -/
abbrev Avail := Nat × Nat × Nat

/-- ```
for restart in list(its_available.keys())[::-1]:
    if itmin <= iit <= itmax: ...; break
``` -/
def pickRestart (avail : List Avail) (iit : Nat) : Option Nat :=
  (avail.reverse.find? fun r => decide (r.2.1 ≤ iit ∧ iit ≤ r.2.2)).map (·.1)

/-- `its_available[restart]['it to do']` after the selection loop and the
`np.sort`, for every restart in dictionary order -/
def itToDo (avail : List Avail) (its : List Nat) : List (Nat × List Nat) :=
  avail.map fun r =>
    (r.1, sortNat ((its.reverse).filter fun iit => pickRestart avail iit == some r.1))

/-- the final flattening: for every requested iteration (sorted), every
restart that read it contributes one entry `(iteration, restart)` -/
def flatten (todo : List (Nat × List Nat)) (its : List Nat) : List (Nat × Nat) :=
  its.flatMap fun iit => todo.filterMap fun rt => if iit ∈ rt.2 then some (iit, rt.1) else none

/-- `it to do` for an explicit `restart >= 0`: the requested iterations inside its range -/
def readOrderExplicit (r : Avail) (its : List Nat) : List (Nat × Nat) :=
  ((sortNat its.eraseDups).filter fun iit => decide (r.2.1 ≤ iit ∧ iit ≤ r.2.2)).map fun iit => (iit, r.1)

/-- `sorted(set(it))` -/
def sortedSet (its : List Nat) : List Nat := sortNat its.eraseDups

/-- which (iteration, restart) pairs `read_ET_data(it=its, restart=-1)` returns, in order -/
def readOrder (avail : List Avail) (its : List Nat) : List (Nat × Nat) :=
  let its := sortedSet its
  flatten (itToDo avail its) its

end AurelVerif.Chunks
