/-
Model/MultiThorn.lean — hand-written, executable, Mathlib-free, LITERAL model of
the branch of `read_ET_checkpoints` and of `read_ET_group_or_var` (reading.py)
that Model/Checkpoint.lean left out: a requested name answered by SEVERAL
datasets of the same (iteration, level, component) — the same variable name in
two thorns of one file (`ML_BSSN::H` and `ML_ADMCONSTRAINTS::H`):

    if len(key) != 1:
        other = [k.split(' it=')[1] for k in key]
        is_rest_same = (sum([other[i] == other[i+1] for i in range(len(other)-1)]) == (len(other)-1))
        if is_rest_same:
            mult_vars = [k.split(' it=')[0] for k in key]
            var[vi] = mult_vars[0]          # the list being iterated over is rewritten ...
            var += mult_vars[1:]            # ... and grows: `enumerate(var)` visits the new entries
            v = mult_vars[0]
            key = [k for k in varkeys if v in k]        # SUBSTRING test; checkpoints: `varkeys` (all components),
            if len(key) != 1: raise ValueError          #   group_or_var: `relevant_keys_with_c`
            key = key[0]
        else: raise ValueError

The variable list is program state: it survives from chunk to chunk, file to
file and iteration to iteration, and the final loop `for v in var:
data.setdefault(transform_vars_ET_to_aurel(v), []) += [fixij(join_chunks(var_chunks[v]))]`
runs over the REWRITTEN list.

Modelling decisions
 * `len(key) == 0`: `sum([]) == -1` is False, the code raises -> `none`.
 * `other[i] == other[i+1]`: the text after ` it=` holds it, tl, [m=0], rl, c; a file
   either carries ` m=0` in every name or in none, so equality of (it, tl, rl, c).
 * `v in k` with `v = "THORN::var"`: thorn and variable names contain no blank and the
   text from ` it=` on contains no `::`, so `v` is a substring of the dataset name iff it
   is a substring of its `THORN::var` part (`isInfix`).
 * `enumerate(var)` over a growing list: index loop with fuel
   `(len(var)+len(relevant)+1)*(len(relevant)+1)`; exhausted fuel = `none`.  PROVEN
   (Lemmas/C11MultiThornFuel.lean, Props/C11e `fuel_never_exhausted_*`, `none_means_raise`): the
   fuel is never exhausted on files whose dataset names are distinct and whose variable names
   are no `THORN::var` names (`NamesOK`: every Cactus file), so `none` always means "raises".
   Without that hypothesis the real loop need not end (`loop_without_end_witness`: a variable
   called `T1::V1` in thorn `A` next to `T1::V1`; the code appends for ever, the model gives `none`).
 * The older models are the SPECIALISATION of this one to the ordinary case (no name answered by
   two datasets of one iteration/level/component): `readCheckpointsM = readCheckpoints`
   (Model/Checkpoint.lean) and `readGroupOrVar` = the chunk read `fixij (joinChunks (toDict ..))`
   of Model/Chunks.lean there — Props/C11e `literal_model_specialises`, `old_model_read_transfers`,
   `group_or_var_is_chunk_read`, `group_or_var_exact`.
 * `none` = the code raises (ValueError, IndexError, KeyError, TypeError,
   NameError / UnboundLocalError, numpy shape mismatch); the exception type is not modelled.
-/
import AurelVerif.Model.Checkpoint
namespace AurelVerif.MultiThorn
open AurelVerif.Chunks AurelVerif.Restarts AurelVerif.Checkpoint

/-- Python `p in s` on character lists -/
def isInfix (p : List Char) : List Char → Bool
  | [] => p.isEmpty
  | c :: cs => p.isPrefixOf (c :: cs) || isInfix p cs

/-- `k.split(' it=')[0]` -/
def combined {α : Type} (d : DSet α) : String := d.thorn ++ "::" ++ d.var

/-- `v in k` -/
def nameIn {α : Type} (v : String) (d : DSet α) : Bool := isInfix v.toList (combined d).toList

/-- `is_rest_same` for a NON-EMPTY key list (`k.split(' it=')[1]` all equal) -/
def restSame {α : Type} : List (DSet α) → Bool
  | [] => false
  | d :: ds => ds.all fun e => e.it == d.it && e.tl == d.tl && e.rl == d.rl && e.c == d.c

/-- `l[i] = x` -/
def setAt (l : List String) (i : Nat) (x : String) : List String := l.set i x

/-- the mutable state of the loops: the variable list, `var_chunks` of the current
iteration, the `key` that was read last -/
structure St (α : Type) where
  var : List String
  vc : VarChunks α
  last : Option (DSet α)

/-- `var_array = ...; var_chunks.setdefault(v, {})[iorigin] = var_array` -/
def St.read {α : Type} (st : St α) (v : String) (d : DSet α) : St α :=
  { st with vc := vcSet st.vc v d.iorigin (trimmed d), last := some d }

/-- the body below `# should be only one key`: `key` = the candidate list, `pool` = the list the
second look-up runs over.  Returns the (possibly renamed) `v` and the state. -/
def pickKey {α : Type} (key pool : List (DSet α)) (vi : Nat) (v : String) (st : St α) : Option (String × St α) :=
  match key with
  | [d] => some (v, st.read v d)
  | [] => none
  | d0 :: rest =>
    if restSame (d0 :: rest) then
      let v' := combined d0
      let st' : St α := { st with var := setAt st.var vi v' ++ rest.map combined }
      match pool.filter (nameIn v') with
      | [d] => some (v', st'.read v' d)
      | _ => none
    else none

/-! ### `read_ET_checkpoints` -/

/-- `for c in crange:` of one variable (`varkeys` is computed once, before the loop, from the OLD name) -/
def ckChunks {α : Type} (varkeys : List (DSet α)) (nochunks : Bool) (vi : Nat) :
    List (Option Nat) → String → St α → Option (String × St α)
  | [], v, st => some (v, st)
  | c :: cs, v, st =>
    let key := if nochunks then varkeys else varkeys.filter fun d => d.c == c
    match pickKey key varkeys vi v st with
    | none => none
    | some (v', st') => ckChunks varkeys nochunks vi cs v' st'

/-- `for vi, v in enumerate(var):` from index `vi` on -/
def ckVars {α : Type} (rel : List (DSet α)) (nochunks : Bool) (crange : List (Option Nat)) :
    Nat → Nat → St α → Option (St α)
  | 0, _, _ => none
  | fuel + 1, vi, st =>
    match st.var[vi]? with
    | none => some st
    | some v =>
      match ckChunks (rel.filter fun d => matchesVar d v) nochunks vi crange v st with
      | none => none
      | some (_, st') => ckVars rel nochunks crange fuel (vi + 1) st'

def fuelFor {α : Type} (st : St α) (rel : List (DSet α)) : Nat := (st.var.length + rel.length + 1) * (rel.length + 1)

/-- one checkpoint file -/
def ckFile {α : Type} (cmax : CMax) (iit rl : Nat) (st : St α) (f : CFile α) : Option (St α) :=
  let rel := relevant f iit rl
  match chunkRange cmax f rel with
  | none => none
  | some (nochunks, crange) => ckVars rel nochunks crange (fuelFor st rel) 0 st

/-- the files of one iteration, the first one gives the time -/
def ckFiles {α : Type} (cmax : CMax) (iit rl : Nat) : List (CFile α) → St α → Option (St α)
  | [], st => some st
  | f :: fs, st =>
    match ckFile cmax iit rl st f with
    | none => none
    | some st' => ckFiles cmax iit rl fs st'

/-- one iteration (cmax from its own files, /repo bd9646b): `some (var, none)` no file;
`some (var, some (t, arrays))` -/
def readItM {α : Type} (files : List (CFile α)) (iit rl : Nat) (var : List String) :
    Option (List String × Option (Nat × List (Arr3 α))) :=
  match files.filter (fun f => f.itName == iit) with
  | [] => some (var, none)
  | f0 :: fs =>
    match cmaxOf (f0 :: fs) with
    | none => none
    | some cmax =>
    match ckFile cmax iit rl ⟨var, [], none⟩ f0 with
    | none => none
    | some st0 =>
      match st0.last with
      | none => none                                        -- `key` unbound
      | some last =>
        match ckFiles cmax iit rl fs st0 with
        | none => none
        | some st =>
          match mapOpt (fun v => (st.vc.get? v).bind fun d => (joinChunks d).map fixij) st.var with
          | none => none
          | some arrs => some (st.var, some (last.time, arrs))

/-- the body of `for iit in it:`; the state is (var, data) -/
def itStepM {α : Type} (toAurel : String → String) (files : List (CFile α)) (rl : Nat)
    (acc : List String × Dict String (List (Cell α))) (iit : Nat) : Option (List String × Dict String (List (Cell α))) :=
  match readItM files iit rl acc.1 with
  | none => none
  | some (var, none) => some (var, acc.2)
  | some (var, some ta) => some (var, addIt toAurel var acc.2 ta.1 ta.2)

/-- `read_ET_checkpoints(param, var, it=its, rl=rl, restart=r)` with the multi-thorn branch -/
def readCheckpointsM {α : Type} (toAurel : String → String) (files : List (CFile α)) (var : List String)
    (its : List Nat) (rl : Nat) : Option (Table (Cell α)) :=
  let it := sortedSet its
  (it.foldlM (itStepM toAurel files rl) (var.eraseDups, [("t", [])])).map fun vd => ⟨it, vd.2⟩

/-! ### `read_ET_group_or_var`

`files`: the files handed over (3D output: `fileNo` = the `.file_<n>` number, `itName` unused).
State across files AND iterations: the variable list, `var_chunks[iit]` for every iteration,
`relevant_keys_with_c` (only re-assigned when `actual_cmax != 0` or no ` c=`: otherwise the
value of the previous pass is used, unbound on the first pass). -/

/-- `for vi, v in enumerate(variables):` from index `vi` on (`pool` = `relevant_keys_with_c`) -/
def gvVars {α : Type} (pool : List (DSet α)) : Nat → Nat → St α → Option (St α)
  | 0, _, _ => none
  | fuel + 1, vi, st =>
    match st.var[vi]? with
    | none => some st
    | some v =>
      match pickKey (pool.filter fun d => matchesVar d v) pool vi v st with
      | none => none
      | some (_, st') => gvVars pool fuel (vi + 1) st'

/-- state of `read_ET_group_or_var` -/
structure GSt (α : Type) where
  var : List String
  chunksOf : Dict Nat (VarChunks α)            -- var_chunks[iit]
  withC : Option (List (DSet α))               -- relevant_keys_with_c (none = unbound)
  last : Option (DSet α)                       -- key
  time : List Nat

/-- `for c in crange:` -/
def gvChunks {α : Type} (rel : List (DSet α)) (recompute : Bool) (iit : Nat) :
    List (Option Nat) → GSt α → Option (GSt α)
  | [], g => some g
  | c :: cs, g =>
    let withC := if recompute then some (rel.filter fun d => d.c == c) else g.withC
    match withC with
    | none => none                                          -- UnboundLocalError
    | some pool =>
      let st : St α := ⟨g.var, (g.chunksOf.get? iit).getD [], g.last⟩
      match gvVars pool (fuelFor st pool) 0 st with
      | none => none
      | some st' =>
        gvChunks rel recompute iit cs
          { g with var := st'.var, chunksOf := Dict.set g.chunksOf iit st'.vc, withC := some pool, last := st'.last }

/-- the body of `for iit in it:` inside one file -/
def gvIt {α : Type} (cmax : CMax) (rl : Nat) (collect : Bool) (f : CFile α) (g : GSt α) (iit : Nat) : Option (GSt α) :=
  let rel := f.dsets.filter fun d => d.it == iit && d.rl == some rl
  match rel with
  | [] => none                                              -- "Could not find ..."
  | d0 :: _ =>
    let plan : Option (GSt α × Bool × List (Option Nat)) :=
      match cmax with
      | .inFile =>
        if d0.c.isSome then
          (mapOpt (fun d : DSet α => d.c) rel).map fun cs =>
            let amax := cs.foldl max 0
            (g, amax != 0, (List.range (amax + 1)).map some)
        else some ({ g with withC := some rel }, false, [some 0])
      | .num n => some (g, n != 0, [f.fileNo])
    match plan with
    | none => none
    | some (g1, recompute, crange) =>
      match gvChunks rel recompute iit crange g1 with
      | none => none
      | some g2 =>
        if collect then
          match g2.last with
          | none => none
          | some k => some { g2 with time := g2.time ++ [k.time] }
        else some g2

def gvFiles {α : Type} (cmax : CMax) (rl : Nat) (its : List Nat) : List (CFile α) → Bool → GSt α → Option (GSt α)
  | [], _, g => some g
  | f :: fs, collect, g =>
    match its.foldlM (gvIt cmax rl collect f) g with
    | none => none
    | some g' => gvFiles cmax rl its fs false g'

/-- `var.setdefault(aurel_v, []) += [x]` -/
def colPush {β : Type} (data : Dict String (List β)) (k : String) (x : β) : Dict String (List β) :=
  match data.get? k with
  | none => Dict.set data k [x]
  | some l => Dict.set data k (l ++ [x])

/-- `read_ET_group_or_var(variables, files, cmax, it=its, rl=rl)`: the time list and the columns
(insertion order; every column a list of arrays, one per (iteration, variable answering to that name)) -/
def readGroupOrVar {α : Type} (toAurel : String → String) (cmax : CMax) (files : List (CFile α))
    (variables : List String) (its : List Nat) (rl : Nat) : Option (List Nat × Dict String (List (Arr3 α))) :=
  let it := sortedSet its
  match gvFiles cmax rl it files true ⟨variables, it.map fun i => (i, []), none, none, []⟩ with
  | none => none
  | some g =>
    (it.foldlM (fun (cols : Dict String (List (Arr3 α))) iit =>
        g.var.foldlM (fun cols v =>
          match ((g.chunksOf.get? iit).bind fun vc => vc.get? v).bind fun d => (joinChunks d).map fixij with
          | none => none
          | some a => some (colPush cols (toAurel v) a)) cols) []).map fun cols => (g.time, cols)

end AurelVerif.MultiThorn
