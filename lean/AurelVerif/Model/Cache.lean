/-
Model/Cache.lean — hand-written, executable, Mathlib-free model of the cache
bookkeeping of `AurelCore` (src/aurel/core.py):

  __getitem__          (hit / miss-store)                    core.py:185-207
  cleanup_cache        (trigger, first pass, while loop)     core.py:209-303
  load_data, freeze_data                                     core.py:305-323
  process_single_timestep's `rel.data[k] = v`,
      `rel.var_importance[k] = 0`                            time.py:366-382
  get_size(dict) = Σ get_size(key) + get_size(value)         utils/memory.py:13-54

Written literally after the code.  A Python `dict` is an association list in
insertion order (`d[k] = v` on an existing key keeps its position, `del` +
re-insert moves the key to the end).  Python exceptions are `Except Err`.
The byte sizes the code measures are *inputs* of the model: `sz1 v` is
`get_size(v)` (nbytes for arrays, recursive for lists/tuples/dicts),
`sz2 v` is `sys.getsizeof(v)`, `ksz k` is `get_size(k) = sys.getsizeof(k)`
of the key string (it enters `get_size(self.data)`), `scalar` is
`Nx*Ny*Nz*8`.  The correspondence harness feeds the values the real code
measured.

Importance values are rationals (the harness passes the exact binary value
of the Python float).  The code computes `age * size * importance` as
(exact int product) * float, i.e. with ONE binary64 rounding; the model
applies the rounding function `rnd` of the environment to the exact product.
The driver instantiates `rnd := rnd64` (round-to-nearest-even to 53 bits,
defined below; overflow and subnormals are not modelled); the theorems hold for
every `rnd` with `rnd 0 = 0` and `x ≤ 0 → rnd x ≤ 0` (`RndOK`), in particular
for exact arithmetic.  Nothing in the model assumes importance ≥ 0.
-/
namespace AurelVerif.Cache

/-! ### Python dict -/

abbrev Dict (κ α : Type) := List (κ × α)

namespace Dict
variable {κ α : Type} [DecidableEq κ]

/-- `d.get(k)` / `d[k]` (`none` = KeyError for `d[k]`). -/
def get? : Dict κ α → κ → Option α
  | [], _ => none
  | (k', v) :: d, k => if k' = k then some v else get? d k

/-- `k in d`. -/
def contains (d : Dict κ α) (k : κ) : Bool := (get? d k).isSome

/-- `list(d.keys())`, in iteration order. -/
def keys (d : Dict κ α) : List κ := d.map (·.1)

/-- `d[k] = v`: an existing key keeps its position, a new key is appended. -/
def set : Dict κ α → κ → α → Dict κ α
  | [], k, v => [(k, v)]
  | (k', v') :: d, k, v => if k' = k then (k', v) :: d else (k', v') :: set d k v

/-- the dictionary without the entry of `k` (what `del d[k]` leaves when it
does not raise). -/
def erase (d : Dict κ α) (k : κ) : Dict κ α := d.filter (fun kv => kv.1 ≠ k)

def eraseAll (d : Dict κ α) (ks : List κ) : Dict κ α := ks.foldl erase d

end Dict

open Dict

/-! ### State, sizes, errors -/

inductive Err
  | keyError        -- `self.data[key]` / `del d[key]` on a missing key
  | zeroDivision    -- `count % 0`
  | typeError       -- `del self.data[<list>]` (stale `key_to_remove`); unreachable
  | attrError       -- `getattr(self, key)` for a name that is no method
  | fuel            -- model artefact: while-loop fuel exhausted; unreachable
  deriving DecidableEq, Repr

structure State (κ ν : Type) where
  /-- `self.data` -/
  data : Dict κ ν
  /-- `self.last_accessed` -/
  last : Dict κ Nat
  /-- `self.calculation_count` -/
  count : Nat
  /-- `self.var_importance`; `.get(key, 1.0)` when absent -/
  imp : Dict κ Rat
  /-- `self.clear_cache_every_nbr_calc` -/
  period : Nat
  /-- `self.memory_threshold_inGB * 1024 * 1024 * 1024` (bytes) -/
  thr : Rat

/-- The measured sizes (inputs of the model). -/
structure Sizes (κ ν : Type) where
  scalar : Nat
  ksz : κ → Nat
  sz1 : ν → Nat
  sz2 : ν → Nat
  /-- rounding applied to `age * size * importance` (binary64 in CPython) -/
  rnd : Rat → Rat

/-- what the theorems need of the rounding function -/
def Sizes.RndOK {κ ν : Type} (z : Sizes κ ν) : Prop := z.rnd 0 = 0 ∧ ∀ x : Rat, x ≤ 0 → z.rnd x ≤ 0

/-! ### binary64 rounding of a rational (round-to-nearest, ties to even) -/

/-- `n / d` rounded half-to-even to a natural number (`d > 0`). -/
def roundHalfEven (n d : Nat) : Nat :=
  let q := n / d
  let r := n % d
  if 2 * r < d then q else if d < 2 * r then q + 1 else if q % 2 = 0 then q else q + 1

/-- `n * 2^s / d` as a pair, for an integer shift `s`. -/
def scaled (n d : Nat) (s : Int) : Nat × Nat :=
  if 0 ≤ s then (n * 2 ^ s.toNat, d) else (n, d * 2 ^ (-s).toNat)

/-- significand `m` and shift `s` of the nearest binary64 of a positive
rational `q`: the result is `m * 2^(-s)` with `2^52 ≤ m ≤ 2^53`. -/
def rndParts (q : Rat) : Nat × Int :=
  let n := q.num.toNat
  let d := q.den
  let e : Int := (Nat.log2 n : Int) - (Nat.log2 d : Int)   -- 2^(e-1) < q < 2^(e+1)
  let s0 : Int := 52 - e                                     -- 2^51 < q * 2^s0 < 2^53
  let p0 := scaled n d s0
  let s : Int := if p0.1 < p0.2 * 2 ^ 52 then s0 + 1 else s0 -- 2^52 ≤ q * 2^s < 2^53
  let p := scaled n d s
  (roundHalfEven p.1 p.2, s)

/-- nearest binary64 (53-bit significand) of a positive rational. -/
def rndPos (q : Rat) : Rat :=
  (((rndParts q).1 : Nat) : Rat) * (2 : Rat) ^ (-(rndParts q).2)

/-- IEEE-754 binary64 round-to-nearest-even of a rational (normal range). -/
def rnd64 (q : Rat) : Rat :=
  if q = 0 then 0 else if q < 0 then - rndPos (-q) else rndPos q

variable {κ ν : Type} [DecidableEq κ]

/-- `self.data[key]`. -/
def lookup (d : Dict κ α) (k : κ) : Except Err α :=
  match get? d k with
  | some v => .ok v
  | none => .error .keyError

/-- `self.var_importance.get(key, 1.0)`. -/
def impOf (s : State κ ν) (k : κ) : Rat := (get? s.imp k).getD 1

/-- `get_size(self.data)`: `sum(get_size(k) + get_size(v) for k, v in items)`. -/
def total1 (z : Sizes κ ν) (d : Dict κ ν) : Nat := (d.map fun kv => z.ksz kv.1 + z.sz1 kv.2).sum

/-- `sum(sys.getsizeof(value) for value in self.data.values())`. -/
def total2 (z : Sizes κ ν) (d : Dict κ ν) : Nat := (d.map fun kv => z.sz2 kv.2).sum

/-- `time_since_last_access = self.calculation_count - last_time`. -/
def age (s : State κ ν) (t : Nat) : Int := (s.count : Int) - (t : Int)

/-- `time_since_last_access * data_size * importance` (one rounding) -/
def strainOf (z : Sizes κ ν) (s : State κ ν) (k : κ) (t : Nat) (v : ν) : Rat :=
  z.rnd (((age s t : Int) : Rat) * ((z.sz1 v : Nat) : Rat) * impOf s k)

/-! ### cleanup_cache -/

/-- Strain of one `last_accessed` item in the first pass (core.py:230-241).
`data_size = get_size(self.data[key])` is evaluated for every item, before
the age test, so a key of `last_accessed` missing from `data` raises. -/
def strain1 (z : Sizes κ ν) (s : State κ ν) (k : κ) (t : Nat) : Except Err Rat :=
  match lookup s.data k with
  | .error e => .error e
  | .ok v => if age s t > 1 then .ok (strainOf z s k t v) else .ok 0

/-- First pass (core.py:229-250): the keys whose strain exceeds the tolerance,
in `last_accessed` order. -/
def pass1 (z : Sizes κ ν) (s : State κ ν) (tol : Nat) : List (κ × Nat) → Except Err (List κ)
  | [] => .ok []
  | (k, t) :: rest =>
    match strain1 z s k t with
    | .error e => .error e
    | .ok st =>
      match pass1 z s tol rest with
      | .error e => .error e
      | .ok ks => .ok (if st > (tol : Rat) then k :: ks else ks)

/-- `del self.data[key], self.last_accessed[key]` (paired deletion). -/
def delPair (s : State κ ν) (k : κ) : Except Err (State κ ν) :=
  if contains s.data k = false then .error .keyError
  else if contains s.last k = false then .error .keyError
  else .ok { s with data := erase s.data k, last := erase s.last k }

/-- `for key in key_to_remove: del self.data[key], self.last_accessed[key]` -/
def delAll (s : State κ ν) : List κ → Except Err (State κ ν)
  | [] => .ok s
  | k :: ks =>
    match delPair s k with
    | .error e => .error e
    | .ok s' => delAll s' ks

/-- One execution of the `for` loop inside the `while` (core.py:259-269):
`acc = (maxstrain, key_to_remove)`; `get_size(self.data[key])` is only
evaluated when the age exceeds 1; strictly-greater update, so the *first* key
of maximal strain wins. -/
def scan (z : Sizes κ ν) (s : State κ ν) : List (κ × Nat) → Rat × Option κ → Except Err (Rat × Option κ)
  | [], acc => .ok acc
  | (k, t) :: rest, (m, b) =>
    if age s t > 1 then
      match lookup s.data k with
      | .error e => .error e
      | .ok v =>
        let st := strainOf z s k t v
        if st > m then scan z s rest (st, some k) else scan z s rest (m, b)
    else scan z s rest (m, b)

/-- The `while total_cache_size >= memory_threshold` loop (core.py:258-297).
`fuel` bounds the number of deletions; `cleanup` starts it with
`|last_accessed|`, and `Props/C03.cleanup_terminates` shows that the
`.fuel` branch is never taken. `ev` accumulates the evicted keys. -/
def loop (z : Sizes κ ν) : Nat → State κ ν → Nat → List κ → Except Err (State κ ν × List κ)
  | fuel, s, total, ev =>
    if (total : Rat) < s.thr then .ok (s, ev)          -- loop condition false
    else
      match scan z s s.last (0, none) with
      | .error e => .error e
      | .ok (m, b) =>
        if m = 0 then .ok (s, ev)                      -- `if maxstrain == 0: break`
        else
          match b with
          | none => .error .typeError
          | some k =>
            match fuel with
            | 0 => .error .fuel
            | f + 1 =>
              -- `del self.data[key_to_remove]`, `del self.last_accessed[key_to_remove]`
              match delPair s k with
              | .error e => .error e
              | .ok s' => loop z f s' (total2 z s'.data) (ev ++ [k])

/-- `cleanup_cache()`; returns the new state and the evicted keys in order. -/
def cleanup (z : Sizes κ ν) (s : State κ ν) : Except Err (State κ ν × List κ) :=
  if s.period = 0 then .error .zeroDivision
  else
    let regular := s.count % s.period = 0
    let total := total1 z s.data
    let exceeded := ¬ ((total : Rat) < s.thr)           -- total >= threshold
    if regular ∨ exceeded then
      let tol := s.period * z.scalar
      match pass1 z s tol s.last with
      | .error e => .error e
      | .ok ks =>
        match delAll s ks with
        | .error e => .error e
        | .ok s1 =>
          match loop z s1.last.length s1 (total1 z s1.data) [] with
          | .error e => .error e
          | .ok (s2, ev2) => .ok (s2, ks ++ ev2)
    else .ok (s, [])

/-! ### __getitem__, freeze_data, load_data, direct assignments -/

/-- hit branch of `__getitem__`: `self.last_accessed[key] = self.calculation_count`. -/
def hit (s : State κ ν) (k : κ) : State κ ν := { s with last := set s.last k s.count }

/-- tail of the miss branch once `func()` has returned `v` (core.py:198-204):
`data[key] = v; count += 1; last_accessed[key] = count; cleanup_cache();
return self.data[key]`.  Result: state, evicted keys, returned value. -/
def store (z : Sizes κ ν) (s : State κ ν) (k : κ) (v : ν) :
    Except Err (State κ ν × List κ × ν) :=
  let s1 : State κ ν := { s with data := set s.data k v, count := s.count + 1 }
  let s2 : State κ ν := { s1 with last := set s1.last k s1.count }
  match cleanup z s2 with
  | .error e => .error e
  | .ok (s3, ev) =>
    match lookup s3.data k with
    | .error e => .error e
    | .ok r => .ok (s3, ev, r)

/-- `freeze_data()`: `for k in self.data.keys(): self.var_importance[k] = 0`. -/
def freeze (s : State κ ν) : State κ ν :=
  { s with imp := (keys s.data).foldl (fun m k => set m k 0) s.imp }

/-- `rel.data[key] = value` (time.py:368, load_data's loop body). -/
def assign (s : State κ ν) (k : κ) (v : ν) : State κ ν := { s with data := set s.data k v }

/-- `load_data(sim_data, it)`: assign every item, then `freeze_data()`. -/
def loadData (s : State κ ν) (kvs : List (κ × ν)) : State κ ν :=
  freeze (kvs.foldl (fun s kv => assign s kv.1 kv.2) s)

/-- time.py:381-382: `rel.data[name] = function(rel); rel.var_importance[name] = 0`. -/
def assignFrozen (s : State κ ν) (k : κ) (v : ν) : State κ ν :=
  { s with data := set s.data k v, imp := set s.imp k 0 }

/-- `rel.var_importance[k] = q` by the user. -/
def setImp (s : State κ ν) (k : κ) (q : Rat) : State κ ν := { s with imp := set s.imp k q }

/-- A fresh `AurelCore` (core.py:162-171): empty data, count 0, the two
default importance overrides are passed in `imp0`. -/
def fresh (imp0 : Dict κ Rat) (period : Nat) (thr : Rat) : State κ ν :=
  { data := [], last := [], count := 0, imp := imp0, period := period, thr := thr }

/-! ### Histories

A history is a tree: `get k body v rest` is the request `rel[k]`; if `k` is
cached it is a hit (and `body`, `v` are not used); otherwise the method runs,
making the nested requests `body`, returns `v`, and the miss tail `store`
runs.  `body` and `v` are arbitrary: every behaviour of every method is
covered.  `op` is a user-level operation between requests. -/

inductive UserOp (κ ν : Type)
  | freeze                           -- rel.freeze_data()
  | load (kvs : List (κ × ν))        -- rel.load_data(sim_data, it)
  | assign (k : κ) (v : ν)           -- rel.data[k] = v
  | assignFrozen (k : κ) (v : ν)     -- rel.data[k] = v; rel.var_importance[k] = 0
  | setImp (k : κ) (q : Rat)         -- rel.var_importance[k] = q
  | setPeriod (n : Nat)              -- rel.clear_cache_every_nbr_calc = n
  | setThr (q : Rat)                 -- rel.memory_threshold_inGB = q / 2^30
  | cleanup                          -- rel.cleanup_cache()

def applyOp (z : Sizes κ ν) (s : State κ ν) : UserOp κ ν → Except Err (State κ ν)
  | .freeze => .ok (freeze s)
  | .load kvs => .ok (loadData s kvs)
  | .assign k v => .ok (assign s k v)
  | .assignFrozen k v => .ok (assignFrozen s k v)
  | .setImp k q => .ok (setImp s k q)
  | .setPeriod n => .ok { s with period := n }
  | .setThr q => .ok { s with thr := q }
  | .cleanup =>
    match cleanup z s with
    | .error e => .error e
    | .ok (s1, _) => .ok s1

inductive Prog (κ ν : Type)
  | done
  | get (k : κ) (body : Prog κ ν) (v : ν) (rest : Prog κ ν)
  | op (o : UserOp κ ν) (rest : Prog κ ν)

/-- the state reached at the end of a trace (or the start state) -/
def lastOr (s : State κ ν) (tr : List (State κ ν)) : State κ ν := tr.getLast?.getD s

/-- Runs a history; returns the list of states after *every* primitive step
(hit, store, user operation), nested ones included, in execution order. -/
def run (z : Sizes κ ν) : State κ ν → Prog κ ν → Except Err (List (State κ ν))
  | _, .done => .ok []
  | s, .get k body v rest =>
    match get? s.data k with
    | some _ =>
      match run z (hit s k) rest with
      | .error e => .error e
      | .ok tr => .ok (hit s k :: tr)
    | none =>
      match run z s body with
      | .error e => .error e
      | .ok tb =>
        match store z (lastOr s tb) k v with
        | .error e => .error e
        | .ok (s1, _, _) =>
          match run z s1 rest with
          | .error e => .error e
          | .ok tr => .ok (tb ++ s1 :: tr)
  | s, .op o rest =>
    match applyOp z s o with
    | .error e => .error e
    | .ok s1 =>
      match run z s1 rest with
      | .error e => .error e
      | .ok tr => .ok (s1 :: tr)

end AurelVerif.Cache
