/-
Model/SymCache.lean — the `__getitem__` cache of `AurelCoreSymbolic` as an
instance of the generic definition-table model of property C01
(Model/CacheGet.lean: `Table`, `Shape`, `getF`, `runHist`).

The method table `Gen/SymLoops.methods` (regenerated from coresymbolic.py: for
every key its branches, each with the guard `"X" in self.data` that selects it
and the keys it looks up through `self[...]`, in order of first occurrence)
is turned into one `Shape` per key:

    branch guards, tested on entry in textual order  ↦  `.test (.pres X) … …`
    the look-ups of the selected branch, in order    ↦  `.read k₁ (.read k₂ …`
    the value the branch returns                     ↦  `.ret <branch number>`

Keys are numbered by their position in the method table (so that everything
about the table is decided by evaluation); `keyIdx` of an unknown name is the
table length, which has no shape (`getattr` raises).

Executable instance (used by the driver, tied to the real class by the
history correspondence of tools/props/C15.py): values are PROVENANCE TERMS —
`branch(arg₁,…)` — so the value returned for a request says which branch
computed it from which values.  The instance over the tensors themselves is
in Lemmas/C15History.lean; both share `symShape`.

`AurelCoreSymbolic` never evicts: the policy is `noEvict`.
-/
import AurelVerif.Model.SymFill
import AurelVerif.Model.CacheGet

namespace AurelVerif.SymCache
open AurelVerif.SymFill AurelVerif.Cache AurelVerif.CacheGet

/-- position of a key name in the method table (`tbl.length` if absent) -/
def keyIdx (tbl : List Method) (k : String) : Nat := tbl.findIdx (fun m => m.key == k)

/-- the look-ups of one branch, then its return site -/
def branchShape (tbl : List Method) (b : Branch) (leafNo : Nat) : Shape Nat :=
  b.deps.foldr (fun d sh => .read (keyIdx tbl d) sh) (.ret leafNo)

/-- `selectBranch`: the first branch whose guard holds; no branch ⇒ the method
falls through (`.fail`; unreachable for the real table, whose guards are
complementary) -/
def branchesShape (tbl : List Method) : List Branch → Nat → Shape Nat
  | [], _ => .fail
  | b :: rest, i =>
    match b.guard with
    | none => branchShape tbl b i
    | some (true, k) => .test (.pres (keyIdx tbl k)) (branchShape tbl b i) (branchesShape tbl rest (i + 1))
    | some (false, k) => .test (.pres (keyIdx tbl k)) (branchesShape tbl rest (i + 1)) (branchShape tbl b i)

def symShape (tbl : List Method) (k : Nat) : Option (Shape Nat) :=
  match tbl[k]? with
  | none => none
  | some m => some (branchesShape tbl m.branches 0)

/-- name of the branch behind return site `i` of key `k` -/
def branchName (tbl : List Method) (k i : Nat) : String :=
  match tbl[k]? with
  | none => "?"
  | some m => match m.branches[i]? with
    | none => "?"
    | some b => b.name

/-- provenance values: `branch(arg₁,arg₂,…)` -/
def provTable (tbl : List Method) : Table Nat String where
  shape := symShape tbl
  leaf := fun k i vs => branchName tbl k i ++ "(" ++ ",".intercalate vs ++ ")"
  flag := fun _ => false
  count := fun _ => 0

/-- `AurelCoreSymbolic` has no cache management -/
def noEvict {κ ν : Type} : Policy Unit κ ν where
  onHit := fun s _ => s
  onStore := fun s d _ => (s, d)
  onSweep := fun s d => (s, d)

/-- run a request history on an instance whose `data` already holds the keys
`init` (as opaque inputs `<name>`); returns the provenance of every value
returned, or the error -/
def provHistory (tbl : List Method) (init reqs : List String) : Except GErr (List String) :=
  let inp : Dict Nat String := init.map (fun k => (keyIdx tbl k, "<" ++ k ++ ">"))
  match runHist (provTable tbl) noEvict 16 ((), inp) (reqs.map (fun k => HOp.req (keyIdx tbl k))) with
  | .error e => .error e
  | .ok (_, vs) => .ok vs

end AurelVerif.SymCache
