/-
Model/WeylNP.lean — HAND model (property C10) of the four methods of core.py that
the symbolic-execution translator does not emit: `null_vector_base`, `Weyl_Psi`,
`Weyl_invariants` (complex numbers) and the Gram–Schmidt part of `tetrad_base`
(its expression trees explode).  Written literally after the Python code: same
operand order of every einsum, same order of the Gram–Schmidt steps, same signs;
`maths.safe_division(x, N)` is field division (`x / 0 = 0`).

`K` is any field with a distinguished element `I` (the code's `1j`); `s` stands for
the code's `inverse_sqrt_2 = 1/np.sqrt(2)`; `nrm` for `norm3`/`norm4`
(`np.sqrt(abs(inner product))`).  The tie to the source is (i) a pin of the AST of
the four methods (tools/props/C10.py: a changed method body breaks the obligation)
and (ii) the numerical oracle on the real methods; it is NOT a generated file.
-/
import AurelVerif.Gen.CoreHelpers
import AurelVerif.Spec.Weyl
import Mathlib.Algebra.BigOperators.Fin

namespace AurelVerif.Model.WeylNP
open AurelVerif.Gen.Core AurelVerif.Tensor AurelVerif.Spec.Weyl

variable {K : Type} [Field K]

/-- `null_vector_base`:
```
kup4 = (e0up4 + e1up4) * inverse_sqrt_2 ;  lup4  = (e0up4 - e1up4) * inverse_sqrt_2
mup4 = (e2up4 + 1j*e3up4) * inverse_sqrt_2 ; mbup4 = (e2up4 - 1j*e3up4) * inverse_sqrt_2
return lup4, kup4, mup4, mbup4
``` -/
def nullVectorBase (s I : K) (E : Fin 4 → Fin 4 → K) : NullTetrad K where
  k := fun a => (E 0 a + E 1 a) * s
  l := fun a => (E 0 a - E 1 a) * s
  m := fun a => (E 2 a + I * E 3 a) * s
  mb := fun a => (E 2 a - I * E 3 a) * s

/-- `np.einsum('abcd..., a..., b..., c..., d... -> ...', C, p, q, r, s)`. -/
def einsum4 (C : Fin 4 → Fin 4 → Fin 4 → Fin 4 → K) (p q r s : Fin 4 → K) : K :=
  ∑ a, ∑ b, ∑ c, ∑ d, C a b c d * p a * q b * r c * s d

/-- `Weyl_Psi` (branch without `Weyl_Psi4r`): the five einsums with the operands in the code's order
`psi0: k m k m`, `psi1: l k m k`, `psi2: k m mb l`, `psi3: k l mb l`, `psi4: l mb l mb`. -/
def weylPsi (C : Fin 4 → Fin 4 → Fin 4 → Fin 4 → K) (t : NullTetrad K) : Scalars K where
  p0 := einsum4 C t.k t.m t.k t.m
  p1 := einsum4 C t.l t.k t.m t.k
  p2 := einsum4 C t.k t.m t.mb t.l
  p3 := einsum4 C t.k t.l t.mb t.l
  p4 := einsum4 C t.l t.mb t.l t.mb

/-- `I_inv = Psis[0]*Psis[4] - 4*Psis[1]*Psis[3] + 3*Psis[2]*Psis[2]`. -/
def weylInvI (Ψ : Scalars K) : K := Ψ.p0 * Ψ.p4 - 4 * Ψ.p1 * Ψ.p3 + 3 * Ψ.p2 * Ψ.p2

/-- `J_inv = maths.determinant3([[Ψ4,Ψ3,Ψ2],[Ψ3,Ψ2,Ψ1],[Ψ2,Ψ1,Ψ0]])` — the GENERATED `maths_determinant3`. -/
def weylInvJ (e : Env K) (Ψ : Scalars K) : K :=
  maths_determinant3 e (vec3 (vec3 Ψ.p4 Ψ.p3 Ψ.p2) (vec3 Ψ.p3 Ψ.p2 Ψ.p1) (vec3 Ψ.p2 Ψ.p1 Ψ.p0))

/-! ### Gram–Schmidt parts of `tetrad_base` -/

/-- quasi-Kinnersley branch, for the spatial metric `γ` (`vector_inner_product3`, `norm3`):
```
v1 = v1 / norm3(v1)
v2 = v2 - <v1,v2> v1 ;  v2 = v2 / norm3(v2)
v3 = v3 - <v1,v3> v1 - <v2,v3> v2 ;  v3 = v3 / norm3(v3)
```
(the start vectors are `v1 = (−y, x, 0)`, `v2 = (x, y, z)`, `v3 = √γ γ^{ad} ε_{dbc} v1^b v2^c`; the
returned tetrad is `e0 = (1,0,0,0)`, `e1 = (0,v2)`, `e2 = (0,v3)`, `e3 = (0,v1)`).
`gs3_w*` are the normalised vectors, `gs3_u*` the un-normalised ones. -/
def gs3_w1 (nrm : (Fin 3 → K) → K) (v1 : Fin 3 → K) : Fin 3 → K := fun a => v1 a / nrm v1
def gs3_u2 (γ : Fin 3 → Fin 3 → K) (nrm : (Fin 3 → K) → K) (v1 v2 : Fin 3 → K) : Fin 3 → K :=
  fun a => v2 a - ip γ (gs3_w1 nrm v1) v2 * gs3_w1 nrm v1 a
def gs3_w2 (γ : Fin 3 → Fin 3 → K) (nrm : (Fin 3 → K) → K) (v1 v2 : Fin 3 → K) : Fin 3 → K :=
  fun a => gs3_u2 γ nrm v1 v2 a / nrm (gs3_u2 γ nrm v1 v2)
def gs3_u3 (γ : Fin 3 → Fin 3 → K) (nrm : (Fin 3 → K) → K) (v1 v2 v3 : Fin 3 → K) : Fin 3 → K :=
  fun a => v3 a - ip γ (gs3_w1 nrm v1) v3 * gs3_w1 nrm v1 a - ip γ (gs3_w2 γ nrm v1 v2) v3 * gs3_w2 γ nrm v1 v2 a
def gs3_w3 (γ : Fin 3 → Fin 3 → K) (nrm : (Fin 3 → K) → K) (v1 v2 v3 : Fin 3 → K) : Fin 3 → K :=
  fun a => gs3_u3 γ nrm v1 v2 v3 a / nrm (gs3_u3 γ nrm v1 v2 v3)

/-- the orthonormalised triad `(v1, v2, v3)` of the quasi-Kinnersley branch. -/
def gramSchmidt3 (γ : Fin 3 → Fin 3 → K) (nrm : (Fin 3 → K) → K) (v1 v2 v3 : Fin 3 → K) :
    Fin 3 → (Fin 3 → K) :=
  vec3 (gs3_w1 nrm v1) (gs3_w2 γ nrm v1 v2) (gs3_w3 γ nrm v1 v2 v3)

/-- fluid-adapted branch, for the spacetime metric `g` (`vector_inner_product4`, `norm4`):
```
e0 = u
u1 = v1 + <e0,v1> e0 ;                               e1 = u1 / norm4(u1)
u2 = v2 + <e0,v2> e0 - <e1,v2> e1 ;                  e2 = u2 / norm4(u2)
u3 = v3 + <e0,v3> e0 - <e1,v3> e1 - <e2,v3> e2 ;     e3 = u3 / norm4(u3)
```
(`v_i = δ_i / √g_ii`). -/
def gs4_u1 (g : Fin 4 → Fin 4 → K) (e0 v1 : Fin 4 → K) : Fin 4 → K := fun a => v1 a + ip g e0 v1 * e0 a
def gs4_e1 (g : Fin 4 → Fin 4 → K) (nrm : (Fin 4 → K) → K) (e0 v1 : Fin 4 → K) : Fin 4 → K :=
  fun a => gs4_u1 g e0 v1 a / nrm (gs4_u1 g e0 v1)
def gs4_u2 (g : Fin 4 → Fin 4 → K) (nrm : (Fin 4 → K) → K) (e0 v1 v2 : Fin 4 → K) : Fin 4 → K :=
  fun a => v2 a + ip g e0 v2 * e0 a - ip g (gs4_e1 g nrm e0 v1) v2 * gs4_e1 g nrm e0 v1 a
def gs4_e2 (g : Fin 4 → Fin 4 → K) (nrm : (Fin 4 → K) → K) (e0 v1 v2 : Fin 4 → K) : Fin 4 → K :=
  fun a => gs4_u2 g nrm e0 v1 v2 a / nrm (gs4_u2 g nrm e0 v1 v2)
def gs4_u3 (g : Fin 4 → Fin 4 → K) (nrm : (Fin 4 → K) → K) (e0 v1 v2 v3 : Fin 4 → K) : Fin 4 → K :=
  fun a => v3 a + ip g e0 v3 * e0 a - ip g (gs4_e1 g nrm e0 v1) v3 * gs4_e1 g nrm e0 v1 a
    - ip g (gs4_e2 g nrm e0 v1 v2) v3 * gs4_e2 g nrm e0 v1 v2 a
def gs4_e3 (g : Fin 4 → Fin 4 → K) (nrm : (Fin 4 → K) → K) (e0 v1 v2 v3 : Fin 4 → K) : Fin 4 → K :=
  fun a => gs4_u3 g nrm e0 v1 v2 v3 a / nrm (gs4_u3 g nrm e0 v1 v2 v3)

/-- the tetrad `(e0, e1, e2, e3)` of the fluid-adapted branch. -/
def gramSchmidt4 (g : Fin 4 → Fin 4 → K) (nrm : (Fin 4 → K) → K) (e0 v1 v2 v3 : Fin 4 → K) :
    Fin 4 → (Fin 4 → K) :=
  vec4 e0 (gs4_e1 g nrm e0 v1) (gs4_e2 g nrm e0 v1 v2) (gs4_e3 g nrm e0 v1 v2 v3)

end AurelVerif.Model.WeylNP
