#!/venv/bin/python
"""Status table per property from evidence/*.json (what each check discharged on its last run in /verif).
`--design` rewrites the block between <!-- STATUS:BEGIN --> and <!-- STATUS:END --> of DESIGN.md."""
import glob, json, os, sys
rows = []
for f in sorted(glob.glob('/verif/evidence/C*.json')):
    e = json.load(open(f))
    c = e['coverage']
    ol = c.get('obligation_list', [])
    kinds = {}
    for o in ol:
        kinds[o['kind']] = kinds.get(o['kind'], 0) + 1
    thm = kinds.get('theorem', 0)
    other = ', '.join('%d %s' % (n, k) for k, n in sorted(kinds.items()) if k != 'theorem')
    ax = sorted({a for v in c.get('axioms', {}).values() for a in (v if isinstance(v, list) else [])})
    rows.append('| %s | %s | %d | %d | %s | %d | %s |' % (e['property_id'], e['tier'], c['obligations'], thm, other or '-',
                len(c.get('known_findings_reported', [])), ', '.join(ax) or '-'))
table = ('| id | tier of last run | obligations (all discharged) | of which theorems (each audited with #print axioms) | other obligations | KNOWN-FINDING lines | axioms seen |\n'
         '|---|---|---|---|---|---|---|\n' + '\n'.join(rows))
if '--design' in sys.argv:
    dp = '/verif/DESIGN.md'
    t = open(dp).read()
    b, e_ = '<!-- STATUS:BEGIN -->', '<!-- STATUS:END -->'
    t = t[:t.index(b) + len(b)] + '\n' + table + '\n' + t[t.index(e_):]
    open(dp, 'w').write(t)
else:
    print(table)
