#!/venv/bin/python
"""Run the pinned test suite and report stable_pass tests that no longer pass."""
import json, subprocess, sys, xml.etree.ElementTree as ET, tempfile, os
b = json.load(open('/root/.vp/BASELINE.json'))
fd, path = tempfile.mkstemp(suffix='.xml'); os.close(fd)
env = dict(os.environ); env.pop('AUREL_VERIF', None)
subprocess.run(b['cmd'].replace('<file>', path), shell=True, stdout=subprocess.DEVNULL, stderr=subprocess.DEVNULL, env=env)
passed = set()
for tc in ET.parse(path).getroot().iter('testcase'):
    if not any(c.tag in ('failure', 'error', 'skipped') for c in tc):
        passed.add(tc.get('classname') + '::' + tc.get('name'))
os.unlink(path)
missing = [t for t in b['stable_pass'] if t not in passed]
print('stable_pass %d, passing now %d, missing %d' % (len(b['stable_pass']), len(b['stable_pass']) - len(missing), len(missing)))
for m in missing[:20]: print('  NOT PASSING:', m)
sys.exit(1 if missing else 0)
