#!/venv/bin/python
"""Record the digests of the source files the models were last reconciled with (run after every fix: commit in /repo
and after every model update that follows a source change): tools/pins.json.  See fw.changed_sources."""
import json, os, sys
sys.path.insert(0, os.path.dirname(os.path.abspath(__file__)))
from lib import fw
json.dump(fw.source_digests(), open(os.path.join(fw.VERIF, "tools", "pins.json"), "w"), indent=1, sort_keys=True)
print("pinned %d files of %s" % (len(fw.source_digests()), fw.SRC))
