#!/bin/sh
# collect_seed.sh Cxx : copy /tmp/seed-Cxx/out/{1,2} to seeded/Cxx_{1,2}, remove the scratch worktree
p=$1
for k in 1 2; do d=/verif/seeded/${p}_$k; mkdir -p $d; cp /tmp/seed-$p/out/$k/patch.diff /tmp/seed-$p/out/$k/demo.py /tmp/seed-$p/out/$k/meta.json $d/ 2>/dev/null; done
git -C /repo worktree remove --force /tmp/seed-$p/wt 2>/dev/null; rm -rf /tmp/seed-$p
ls /verif/seeded/${p}_1 /verif/seeded/${p}_2
