#!/bin/sh
# collect_seed.sh Cxx [first-index] : copy /tmp/seed-Cxx/out/{1,2} to seeded/Cxx_{first,first+1} (default 1,2), remove the scratch worktree
p=$1
b=${2:-1}
for k in 1 2; do n=$((b + k - 1)); d=/verif/seeded/${p}_$n; mkdir -p $d; cp /tmp/seed-$p/out/$k/patch.diff /tmp/seed-$p/out/$k/demo.py /tmp/seed-$p/out/$k/meta.json $d/ 2>/dev/null; ls $d; done
git -C /repo worktree remove --force /tmp/seed-$p/wt 2>/dev/null; rm -rf /tmp/seed-$p
