#!/venv/bin/python
"""Confirm a seeded change and run the check(s) against it.

usage: seedtest.py <dir with patch.diff, demo.py, meta.json> [--props C09,C01] [--tier quick] [--keep]

Works on a scratch copy of /repo (git worktree under /tmp/seedtest-<pid>),
never on /repo itself:
  1. demo.py on the clean copy            -> must exit 0
  2. apply patch; pinned test suite       -> stable_pass tests must still pass
  3. demo.py on the patched copy          -> must exit non-zero
  4. AUREL_REPO=<copy> ./check Cxx        -> record exit code / VIOLATION lines
     (the check runs from a private rsync copy of /verif, so /verif/lean is never touched)
Writes <dir>/result.json and prints a one-line verdict.
"""
import argparse
import json
import os
import shutil
import subprocess
import sys
import xml.etree.ElementTree as ET

VERIF = os.path.dirname(os.path.dirname(os.path.abspath(__file__)))


def sh(cmd, **kw):
    return subprocess.run(cmd, shell=True, capture_output=True, text=True, **kw)


def suite(copy):
    b = json.load(open("/root/.vp/BASELINE.json"))
    xml = os.path.join(copy, "junit.xml")
    env = dict(os.environ, PYTHONPATH=os.path.join(copy, "src"))
    env.pop("AUREL_VERIF", None)
    sh("cd %s && /venv/bin/python -m pytest -q -p no:cacheprovider --timeout=900 --continue-on-collection-errors --junitxml=%s tests" % (copy, xml), env=env)
    passed = set()
    try:
        for tc in ET.parse(xml).getroot().iter("testcase"):
            if not any(c.tag in ("failure", "error", "skipped") for c in tc):
                passed.add(tc.get("classname") + "::" + tc.get("name"))
    except Exception:  # noqa
        pass
    return [t for t in b["stable_pass"] if t not in passed]


def main():
    ap = argparse.ArgumentParser()
    ap.add_argument("dir")
    ap.add_argument("--props")
    ap.add_argument("--tier", default="quick")
    ap.add_argument("--keep", action="store_true")
    a = ap.parse_args()
    d = os.path.abspath(a.dir)
    meta = json.load(open(os.path.join(d, "meta.json")))
    props = (a.props or meta["property"]).split(",")
    copy = "/tmp/seedtest-%s-%d" % (props[0], os.getpid())
    sh("git -C /repo worktree remove --force %s" % copy)
    r = sh("git -C /repo worktree add --detach %s HEAD" % copy)
    if r.returncode:
        print(r.stderr)
        return 2
    res = {"property": meta["property"], "checked_props": props}
    try:
        env = dict(os.environ, PYTHONPATH=os.path.join(copy, "src"))
        demo = os.path.join(d, "demo.py")
        r0 = sh("cd %s && timeout 900 /venv/bin/python %s" % (copy, demo), env=env)
        res["demo_clean_rc"] = r0.returncode
        ap_ = sh("git -C %s apply %s" % (copy, os.path.join(d, "patch.diff")))
        res["patch_applies"] = ap_.returncode == 0
        if ap_.returncode:
            res["apply_error"] = ap_.stderr[-400:]
        missing = suite(copy)
        res["stable_pass_missing_with_patch"] = missing[:10]
        r1 = sh("cd %s && timeout 900 /venv/bin/python %s" % (copy, demo), env=env)
        res["demo_patched_rc"] = r1.returncode
        res["demo_patched_out"] = (r1.stdout + r1.stderr)[-600:]
        res["confirmed"] = bool(res["patch_applies"] and r0.returncode == 0 and r1.returncode != 0 and not missing)
        res["checks"] = {}
        # run the checks from a private copy of /verif (with its build output) so that
        # regenerated model files never disturb anything running in /verif itself
        vcopy = copy + "-verif"
        sh("rm -rf %s && mkdir -p %s && rsync -a --exclude .git --exclude replays --exclude seeded %s/ %s/" % (vcopy, vcopy, VERIF, vcopy))
        for p in props:
            # control run: the same private copy against the UNCHANGED repository must be silent (the copy of /verif
            # may have been taken while somebody was editing it; a check that is already broken proves nothing)
            c0 = sh("cd %s && AUREL_REPO=/repo timeout 3000 ./check %s --tier %s" % (vcopy, p, a.tier))
            if c0.returncode != 0 or "VIOLATION" in c0.stdout:
                res["checks"][p] = {"rc": -1, "violations": [], "n_violations": 0, "control_failed": True,
                                    "tail": c0.stdout[-800:]}
                continue
            c = sh("cd %s && AUREL_REPO=%s timeout 3000 ./check %s --tier %s" % (vcopy, copy, p, a.tier))
            viol = [l for l in c.stdout.split("\n") if l.startswith("VIOLATION")]
            broken = [l for l in c.stdout.split("\n") if "BROKEN obligation" in l]
            res["checks"][p] = {"rc": c.returncode, "violations": viol[:6], "n_violations": len(viol),
                                "broken_obligations": [b[:200] for b in broken[:8]],
                                "no_failing_input_found": any("no-failing-input-found" in v for v in viol),
                                "tail": c.stdout[-500:]}
            rp = [v.split("replay=")[1].split()[0] for v in viol if "replay=" in v]
            if rp and os.path.exists(rp[0]):
                try:
                    res["checks"][p]["first_replay"] = json.load(open(rp[0])).get("what")
                except Exception:  # noqa
                    pass
    finally:
        if not a.keep:
            sh("git -C /repo worktree remove --force %s" % copy)
            shutil.rmtree(copy, ignore_errors=True)
            shutil.rmtree(copy + "-verif", ignore_errors=True)
    json.dump(res, open(os.path.join(d, "result.json"), "w"), indent=1)
    verdict = {p: ("CONTROL-FAILED (check not silent on the unchanged tree in this copy; rerun)" if v.get("control_failed") else
                   "CAUGHT" if v["rc"] == 1 and v["n_violations"] else "MISSED rc=%s" % v["rc"]) for p, v in res["checks"].items()}
    print("seed %s: confirmed=%s %s" % (d, res.get("confirmed"), verdict))
    return 0


if __name__ == "__main__":
    sys.exit(main())
