"""py2lean: aurel/solutions/*.py -> Gen/Solutions.lean (+ an evaluable IR).

Every module constant and every module function of the ten solution modules
is interpreted symbolically from its AST (a small abstract interpreter: the
grid-array arguments t, x, y, z are real variables, `np.ones/zeros(np.shape(x))`
are 1/0, `np.array`/`sp.Matrix` are nested lists, `if analytical:` is
specialised, local assignments are substituted).  The result is an expression
tree (IR) per returned component, rendered as `noncomputable def` over ℝ and
evaluable in Python (`evaluate`) for translation validation.

IR nodes (tuples):
  ("num", Fraction)  ("var", name)  ("cst", module, name)  ("pi",)
  ("add"|"sub"|"mul"|"div", a, b)  ("neg", a)
  ("powi", a, int)   ("rpow", a, b)
  ("fn", "sin"|"cos"|"exp"|"log"|"sqrt"|"sinh"|"cosh", a)
  ("hyp2f1", a, b, c, z)            -- opaque function parameter
  ("papp", pname, [args])           -- application of a function parameter (sol.a(t))
  ("pval", pname)                   -- opaque real parameter (fd.d3x(fd.d3y(Rc)))
  ("app", module, defname, [args])  -- call of a generated definition

Never guesses: an unsupported construct raises TranslationError for that
function (and its dependents) only; the function is then absent from the
generated file and listed in a comment, so only theorems that mention it break.
"""
import ast
import math
import os
from decimal import Decimal
from fractions import Fraction

from lib import fw

MODULES = ["EdS", "LCDM", "Conformally_flat", "Schwarzschild_isotropic", "Harvey_Tsoubelis",
           "Collins_Stewart", "Non_diagonal", "Rosquist_Jantzen", "Szekeres", "ICPertFLRW"]
FNS = {"sin", "cos", "exp", "log", "sqrt", "sinh", "cosh"}
LEAN_FN = {"sin": "Real.sin", "cos": "Real.cos", "exp": "Real.exp", "log": "Real.log",
           "sqrt": "Real.sqrt", "sinh": "Real.sinh", "cosh": "Real.cosh"}
SKIP_FUNCS = {"data"}   # return a dict of the other functions; nothing to translate
HYP_T = "ℝ → ℝ → ℝ → ℝ → ℝ"


class TranslationError(Exception):
    pass


class Lib:            # numpy / sympy / scipy.special / aurel.maths alias
    def __init__(self, name):
        self.name = name


class SolMod:         # another solution module (from . import LCDM)
    def __init__(self, name):
        self.name = name


class ShapeMarker:    # np.shape(x)
    pass


class Dim:            # one of Nx, Ny, Nz
    pass


class ObjParam:       # an argument used as an object (sol, fd)
    def __init__(self, name):
        self.name = name


class Method:
    def __init__(self, obj, attr):
        self.obj, self.attr = obj, attr


class FuncRef:
    def __init__(self, module, name):
        self.module, self.name = module, name


class LibFn:
    def __init__(self, lib, name):
        self.lib, self.name = lib, name


def num(v):
    return ("num", Fraction(v))


def is_ir(v):
    return isinstance(v, tuple) and len(v) > 0 and isinstance(v[0], str)


def const_value(e):
    """Fraction value of a literal-only expression, else None."""
    k = e[0]
    if k == "num":
        return e[1]
    if k == "neg":
        a = const_value(e[1])
        return None if a is None else -a
    if k in ("add", "sub", "mul", "div"):
        a, b = const_value(e[1]), const_value(e[2])
        if a is None or b is None:
            return None
        if k == "add":
            return a + b
        if k == "sub":
            return a - b
        if k == "mul":
            return a * b
        return None if b == 0 else a / b
    return None


def shape_of(v):
    if isinstance(v, list):
        s = [shape_of(x) for x in v]
        if any(x != s[0] for x in s):
            raise TranslationError("ragged array")
        return (len(v),) + s[0]
    if is_ir(v):
        return ()
    raise TranslationError("not an array element: %r" % (v,))


def mapv(f, v):
    return [mapv(f, x) for x in v] if isinstance(v, list) else f(v)


def binop(op, a, b):
    if isinstance(a, list) and isinstance(b, list):
        if shape_of(a) != shape_of(b):
            raise TranslationError("broadcast of unequal shapes %s %s" % (shape_of(a), shape_of(b)))
        return [binop(op, x, y) for x, y in zip(a, b)]
    if isinstance(a, list):
        return [binop(op, x, b) for x in a]
    if isinstance(b, list):
        return [binop(op, a, y) for y in b]
    if not (is_ir(a) and is_ir(b)):
        raise TranslationError("arithmetic on non-numeric value")
    if op == "pow":
        cv = const_value(b)
        if cv is not None and cv.denominator == 1:
            return ("powi", a, int(cv))
        return ("rpow", a, b)
    return (op, a, b)


OPS = {ast.Add: "add", ast.Sub: "sub", ast.Mult: "mul", ast.Div: "div", ast.Pow: "pow"}


class Translator:
    def __init__(self):
        self.src = {}      # module -> source text
        self.tree = {}
        self.alias = {}    # module -> {name: Lib|SolMod}
        self.funcs = {}    # module -> {name: FunctionDef}
        self.consts = {}   # module -> {name: Assign value node}
        self.defs = {}     # (module, defname) -> dict(args, extras, body, src, kind, ...)
        self.order = []    # completion order of (module, defname)
        self.templates = {}  # (module, fname, flag) -> (template, params, extras) | TranslationError
        self.failed = {}   # (module, name) -> reason
        self.active = []

    # ------------------------------------------------------------ loading
    def load(self, m):
        if m in self.tree:
            return
        try:
            text = fw.src_text(os.path.join("solutions", m + ".py"))
        except OSError as ex:
            raise TranslationError("cannot read module %s: %s" % (m, ex))
        tree = ast.parse(text)
        self.src[m], self.tree[m] = text, tree
        al, fs, cs = {}, {}, {}
        for n in tree.body:
            if isinstance(n, ast.Import):
                for a in n.names:
                    al[a.asname or a.name] = Lib(a.name)
            elif isinstance(n, ast.ImportFrom):
                for a in n.names:
                    if n.level == 1 and n.module is None:
                        al[a.asname or a.name] = SolMod(a.name)
                    else:
                        al[a.asname or a.name] = Lib(a.name)
            elif isinstance(n, ast.FunctionDef):
                fs[n.name] = n
            elif isinstance(n, ast.Assign) and len(n.targets) == 1 and isinstance(n.targets[0], ast.Name):
                cs[n.targets[0].id] = n
        self.alias[m], self.funcs[m], self.consts[m] = al, fs, cs

    # ---------------------------------------------------------- constants
    def const_ref(self, m, name):
        self.load(m)
        key = (m, name)
        if key in self.failed:
            raise TranslationError("depends on untranslated %s.%s" % key)
        if key not in self.defs:
            node = self.consts[m][name]
            try:
                it = Interp(self, m, {}, None)
                v = it.expr(node.value)
                if not is_ir(v):
                    raise TranslationError("constant is not a scalar")
                if self.collect_extras(v):
                    raise TranslationError("constant uses parameters")
            except TranslationError as ex:
                self.failed[key] = str(ex)
                raise TranslationError("constant %s.%s: %s" % (m, name, ex))
            self.defs[key] = {"module": m, "name": name, "params": [], "extras": [], "body": v,
                              "line": node.lineno, "kind": "const", "py": name, "flag": None, "comp": None}
            self.order.append(key)
        return ("cst", m, name)

    # ---------------------------------------------------------- functions
    def has_flag(self, m, fname):
        f = self.funcs[m][fname]
        return any(a.arg == "analytical" for a in f.args.args)

    def template(self, m, fname, flag):
        """Translate function `fname` of module `m` with analytical=flag.
        Returns (template, params, extras); template mirrors the returned
        structure with def names at the leaves."""
        self.load(m)
        if fname not in self.funcs[m]:
            raise TranslationError("no function %s.%s" % (m, fname))
        if not self.has_flag(m, fname):
            flag = None
        elif flag is None:
            flag = False
        key = (m, fname, flag)
        if key in self.templates:
            r = self.templates[key]
            if isinstance(r, TranslationError):
                raise TranslationError("depends on untranslated %s.%s" % (m, fname))
            return r
        if key in self.active:
            raise TranslationError("recursion through %s.%s" % (m, fname))
        self.active.append(key)
        try:
            r = self._translate(m, fname, flag)
        except TranslationError as ex:
            self.templates[key] = ex
            self.failed[(m, fname + {None: "", False: "_num", True: "_sym"}[flag])] = str(ex)
            raise
        finally:
            self.active.pop()
        self.templates[key] = r
        return r

    def collect_extras(self, v):
        """Opaque parameters (hyp2f1, sol.f, fd-derivative values) that occur in the
        returned value, in order of first occurrence (callees' parameters included)."""
        out = []

        def add(e):
            if e not in out:
                out.append(e)

        def walk(e):
            if isinstance(e, (list, tuple)) and not is_ir(e):
                for x in e:
                    walk(x)
                return
            if not is_ir(e):
                return
            k = e[0]
            if k == "hyp2f1":
                add(("hyp2f1", HYP_T))
            elif k == "papp":
                add((e[1], " → ".join(["ℝ"] * (len(e[2]) + 1))))
            elif k == "pval":
                add((e[1], "ℝ"))
            elif k == "app":
                for x in self.defs[(e[1], e[2])]["extras"]:
                    add(x)
            for x in e[1:]:
                if isinstance(x, (list, tuple)):
                    walk(x)
        walk(v)
        # canonical order (functions first, then reals; alphabetical) so that every
        # definition of a module takes its opaque parameters in the same order
        return sorted(out, key=lambda e: (0 if "→" in e[1] else 1, e[0]))

    def _translate(self, m, fname, flag):
        f = self.funcs[m][fname]
        a = f.args
        if a.vararg or a.kwarg or a.kwonlyargs or a.posonlyargs:
            raise TranslationError("unsupported signature")
        pnames = [x.arg for x in a.args if x.arg != "analytical"]
        env = {p: ("var", p) for p in pnames}
        it = Interp(self, m, env, flag)
        ret = it.run(f.body)
        base = fname + {None: "", False: "_num", True: "_sym"}[flag]
        # final parameter list: object params dropped, tuple params expanded
        params = []
        for p in pnames:
            if p in it.objparams:
                continue
            params += it.expanded.get(p, [p])
        extras = self.collect_extras(ret)
        leaves = []

        def build(v, label, idx, comp):
            if isinstance(v, list):
                return [build(x, label, idx + str(i), comp + (i,)) for i, x in enumerate(v)]
            if not is_ir(v):
                raise TranslationError("returns a non-numeric value")
            name = "_".join([base] + [p for p in (label, idx) if p])
            leaves.append((name, v, comp))
            return name

        if isinstance(ret, tuple) and not is_ir(ret):
            labels = it.ret_labels or [str(i) for i in range(len(ret))]
            tmpl = tuple(build(v, lab, "", (k,)) for k, (v, lab) in enumerate(zip(ret, labels)))
        else:
            tmpl = build(ret, "", "", ())
        for name, body, comp in leaves:
            self.defs[(m, name)] = {"module": m, "name": name, "params": params, "extras": extras, "body": body,
                                    "line": f.lineno, "kind": "func", "py": fname, "flag": flag, "comp": comp,
                                    "pyparams": pnames, "expanded": dict(it.expanded), "objparams": sorted(it.objparams)}
            self.order.append((m, name))
        if isinstance(tmpl, list):
            # the array-valued function itself: components collected with ![...] notation
            rank = len(shape_of(mapv(lambda _: ("num", 0), tmpl)))
            self.defs[(m, base)] = {"module": m, "name": base, "params": params, "extras": extras, "body": None,
                                    "line": f.lineno, "kind": "agg", "py": fname, "flag": flag, "comp": None,
                                    "tmpl": tmpl, "shape": shape_of(mapv(lambda _: ("num", 0), tmpl)), "rank": rank}
            self.order.append((m, base))
        return tmpl, params, extras


class Interp:
    def __init__(self, tr, module, env, flag):
        self.tr, self.m, self.env, self.flag = tr, module, dict(env), flag
        self.extras = []       # ordered [(name, leantype)]
        self.objparams = set()
        self.expanded = {}
        self.ret_labels = None

    def extra(self, name, typ):
        if (name, typ) not in self.extras:
            self.extras.append((name, typ))

    # ------------------------------------------------------------ statements
    def run(self, body):
        r = self.block(body)
        if r is None:
            raise TranslationError("no return value")
        return r[0]

    def block(self, body):
        for s in body:
            if isinstance(s, ast.Expr) and isinstance(s.value, ast.Constant):
                continue
            if isinstance(s, ast.Return):
                if s.value is None:
                    raise TranslationError("bare return")
                if isinstance(s.value, ast.Tuple) and all(isinstance(e, ast.Name) for e in s.value.elts):
                    self.ret_labels = [e.id for e in s.value.elts]
                return (self.expr(s.value),)
            if isinstance(s, ast.Assign):
                if len(s.targets) != 1:
                    raise TranslationError("chained assignment")
                self.assign(s.targets[0], self.expr(s.value))
            elif isinstance(s, ast.AugAssign):
                self.augassign(s)
            elif isinstance(s, ast.If):
                c = self.expr(s.test)
                if not isinstance(c, bool):
                    raise TranslationError("line %d: `if` on a non-static condition" % s.lineno)
                r = self.block(s.body if c else s.orelse)
                if r is not None:
                    return r
            else:
                raise TranslationError("line %d: unsupported statement %s" % (s.lineno, type(s).__name__))
        return None

    def assign(self, tgt, v):
        if isinstance(tgt, ast.Name):
            self.env[tgt.id] = v
        elif isinstance(tgt, ast.Tuple) and all(isinstance(e, ast.Name) for e in tgt.elts):
            n = len(tgt.elts)
            if isinstance(v, ShapeMarker):
                if n != 3:
                    raise TranslationError("np.shape(x) unpacked into %d names" % n)
                vals = [Dim() for _ in range(3)]
            elif isinstance(v, tuple) and not is_ir(v):
                if len(v) != n:
                    raise TranslationError("tuple unpack length")
                vals = list(v)
            elif is_ir(v) and v[0] == "var":
                names = ["%s_%d" % (v[1], i) for i in range(n)]
                if self.expanded.get(v[1], names) != names:
                    raise TranslationError("parameter unpacked twice differently")
                self.expanded[v[1]] = names
                vals = [("var", nm) for nm in names]
            else:
                raise TranslationError("cannot unpack this value")
            for e, x in zip(tgt.elts, vals):
                self.env[e.id] = x
        else:
            raise TranslationError("line %d: unsupported assignment target" % tgt.lineno)

    def augassign(self, s):
        if type(s.op) not in OPS:
            raise TranslationError("unsupported augmented operator")
        op = OPS[type(s.op)]
        rhs = self.expr(s.value)
        if isinstance(s.target, ast.Name):
            cur = self.lookup(s.target.id)
            new = binop(op, cur, rhs)
            if isinstance(cur, list):
                if not isinstance(new, list) or shape_of(new) != shape_of(cur):
                    raise TranslationError("in-place op changes shape")
                cur[:] = new            # numpy in-place: aliases see it
            else:
                for k, v in self.env.items():
                    if k != s.target.id and v is cur and is_ir(cur) and cur[0] not in ("num", "var"):
                        raise TranslationError("in-place op on an aliased array")
                self.env[s.target.id] = new
        elif isinstance(s.target, ast.Subscript):
            arr = self.expr(s.target.value)
            idx = self.index(s.target.slice)
            if not isinstance(arr, list):
                raise TranslationError("subscript of non-array")
            for i in idx[:-1]:
                arr = arr[i]
                if not isinstance(arr, list):
                    raise TranslationError("too many indices")
            cur = arr[idx[-1]]
            if not is_ir(cur) or not is_ir(rhs):
                raise TranslationError("in-place op on sub-array")
            arr[idx[-1]] = binop(op, cur, rhs)
        else:
            raise TranslationError("unsupported augmented target")

    def index(self, sl):
        elts = sl.elts if isinstance(sl, ast.Tuple) else [sl]
        out = []
        for e in elts:
            if isinstance(e, ast.Constant) and isinstance(e.value, int) and not isinstance(e.value, bool) and e.value >= 0:
                out.append(e.value)
            else:
                raise TranslationError("non-literal index")
        return out

    # ------------------------------------------------------------ expressions
    def lookup(self, name):
        if name in self.env:
            return self.env[name]
        tr, m = self.tr, self.m
        if name in tr.alias[m]:
            return tr.alias[m][name]
        if name in tr.funcs[m]:
            return FuncRef(m, name)
        if name in tr.consts[m]:
            return tr.const_ref(m, name)
        raise TranslationError("unknown name %s" % name)

    def expr(self, n):
        if isinstance(n, ast.Constant):
            v = n.value
            if isinstance(v, bool) or v is None or isinstance(v, str):
                return v
            if isinstance(v, int):
                return num(v)
            if isinstance(v, float):
                seg = ast.get_source_segment(self.tr.src[self.m], n)
                try:
                    return num(Fraction(Decimal(seg.replace("_", ""))))
                except Exception:
                    raise TranslationError("float literal %r" % seg)
            raise TranslationError("literal %r" % (v,))
        if isinstance(n, ast.Name):
            if n.id == "analytical" and "analytical" not in self.env:
                return bool(self.flag)
            return self.lookup(n.id)
        if isinstance(n, ast.Attribute):
            base = self.expr(n.value)
            if isinstance(base, Lib):
                if n.attr == "pi" and base.name in ("numpy", "sympy"):
                    return ("pi",)
                return LibFn(base.name, n.attr)
            if isinstance(base, SolMod):
                self.tr.load(base.name)
                if n.attr in self.tr.funcs[base.name]:
                    return FuncRef(base.name, n.attr)
                if n.attr in self.tr.consts[base.name]:
                    return self.tr.const_ref(base.name, n.attr)
                raise TranslationError("unknown %s.%s" % (base.name, n.attr))
            if is_ir(base) and base[0] == "var":
                self.objparams.add(base[1])
                return Method(base[1], n.attr)
            raise TranslationError("attribute %s" % n.attr)
        if isinstance(n, ast.UnaryOp):
            v = self.expr(n.operand)
            if isinstance(n.op, ast.USub):
                return mapv(lambda x: ("neg", x), v) if (isinstance(v, list) or is_ir(v)) else self.bad("unary -")
            if isinstance(n.op, ast.UAdd) and (isinstance(v, list) or is_ir(v)):
                return v
            if isinstance(n.op, ast.Not) and isinstance(v, bool):
                return not v
            raise TranslationError("unary operator")
        if isinstance(n, ast.BinOp):
            if type(n.op) not in OPS:
                raise TranslationError("operator %s" % type(n.op).__name__)
            a, b = self.expr(n.left), self.expr(n.right)
            if OPS[type(n.op)] == "pow" and isinstance(a, list):
                raise TranslationError("power of an array")
            return binop(OPS[type(n.op)], a, b)
        if isinstance(n, (ast.List, ast.Tuple)):
            vals = [self.expr(e) for e in n.elts]
            return vals if isinstance(n, ast.List) else tuple(vals)
        if isinstance(n, ast.Subscript):
            arr = self.expr(n.value)
            for i in self.index(n.slice):
                if not isinstance(arr, list) or i >= len(arr):
                    raise TranslationError("bad subscript")
                arr = arr[i]
            return arr
        if isinstance(n, ast.Call):
            return self.call(n)
        raise TranslationError("line %d: unsupported expression %s" % (getattr(n, "lineno", 0), type(n).__name__))

    def bad(self, what):
        raise TranslationError(what)

    def call(self, n):
        f = self.expr(n.func)
        args = [self.expr(a) for a in n.args]
        kw = {}
        for k in n.keywords:
            if k.arg is None:
                raise TranslationError("**kwargs")
            kw[k.arg] = self.expr(k.value)
        if isinstance(f, FuncRef):
            flag = None
            if "analytical" in kw:
                flag = kw.pop("analytical")
                if not isinstance(flag, bool):
                    raise TranslationError("non-static analytical flag")
            if kw:
                raise TranslationError("keyword arguments %s" % sorted(kw))
            tmpl, params, extras = self.tr.template(f.module, f.name, flag)
            if len(args) != len(params) or not all(is_ir(a) for a in args):
                raise TranslationError("call of %s.%s with unsupported arguments" % (f.module, f.name))
            for e in extras:
                self.extra(*e)

            def inst(t):
                if isinstance(t, list):
                    return [inst(x) for x in t]
                if isinstance(t, tuple):
                    return tuple(inst(x) for x in t)
                return ("app", f.module, t, list(args))
            return inst(tmpl)
        if isinstance(f, Method):
            if kw or not all(is_ir(a) for a in args):
                raise TranslationError("method call arguments")
            if f.obj == "fd":
                if not (f.attr in ("d3x", "d3y", "d3z") and len(args) == 1 and args[0][0] in ("var", "pval")):
                    raise TranslationError("fd.%s of a compound expression" % f.attr)
                name = "%s_%s" % (f.attr, args[0][1])
                self.extra(name, "ℝ")
                return ("pval", name)
            name = "%s_%s" % (f.obj, f.attr)
            self.extra(name, " → ".join(["ℝ"] * (len(args) + 1)))
            return ("papp", name, list(args))
        if isinstance(f, LibFn):
            return self.libcall(f, args, kw)
        raise TranslationError("call of a non-function")

    def libcall(self, f, args, kw):
        nm = f.name
        if kw:
            raise TranslationError("keyword arguments to %s" % nm)
        if f.lib in ("numpy", "sympy") and nm in FNS and len(args) == 1:
            return mapv(lambda x: ("fn", nm, x), args[0]) if (isinstance(args[0], list) or is_ir(args[0])) else self.bad(nm)
        if f.lib == "numpy" and nm == "shape" and len(args) == 1 and is_ir(args[0]) and args[0][0] == "var":
            return ShapeMarker()
        if f.lib == "numpy" and nm in ("ones", "zeros") and len(args) == 1:
            fill = num(1 if nm == "ones" else 0)
            a = args[0]
            if isinstance(a, ShapeMarker):
                return fill
            if isinstance(a, tuple) and not is_ir(a):
                lead = []
                rest = list(a)
                while rest and is_ir(rest[0]) and rest[0][0] == "num" and rest[0][1].denominator == 1 and rest[0][1] > 0:
                    lead.append(int(rest.pop(0)[1]))
                if len(rest) != 3 or not all(isinstance(r, Dim) for r in rest):
                    raise TranslationError("np.%s shape is not (k.., Nx, Ny, Nz)" % nm)
                v = fill
                for d in reversed(lead):
                    v = [v if not isinstance(v, list) else _copy(v) for _ in range(d)]
                return _copy(v) if isinstance(v, list) else v
            raise TranslationError("np.%s of unsupported shape" % nm)
        if (f.lib, nm) in (("numpy", "array"), ("sympy", "Matrix")) and len(args) == 1 and isinstance(args[0], list):
            v = _copy(args[0])
            shape_of(v)
            return v
        if f.lib == "numpy" and nm == "einsum" and len(args) >= 2 and isinstance(args[0], str):
            return einsum(args[0], args[1:])
        if f.lib == "maths" and nm == "safe_division" and len(args) == 2:
            return binop("div", args[0], args[1])
        if f.lib == "scipy.special" and nm == "hyp2f1" and len(args) == 4 and all(is_ir(a) for a in args):
            self.extra("hyp2f1", HYP_T)
            return ("hyp2f1",) + tuple(args)
        if f.lib == "sympy" and nm == "hyper" and len(args) == 3 and isinstance(args[0], list) and isinstance(args[1], list) \
                and len(args[0]) == 2 and len(args[1]) == 1 and is_ir(args[2]):
            self.extra("hyp2f1", HYP_T)
            return ("hyp2f1", args[0][0], args[0][1], args[1][0], args[2])
        raise TranslationError("unsupported library call %s.%s" % (f.lib, nm))


def _copy(v):
    return [_copy(x) for x in v] if isinstance(v, list) else v


def einsum(spec, ops):
    spec = spec.replace(" ", "")
    if "->" not in spec:
        raise TranslationError("einsum without explicit output")
    ins, out = spec.split("->")
    ins = ins.split(",")
    if len(ins) != len(ops):
        raise TranslationError("einsum operand count")
    strip = lambda s: s[:-3] if s.endswith("...") else s
    ins, out = [strip(s) for s in ins], strip(out)
    dims = {}
    for s, o in zip(ins, ops):
        sh = shape_of(o)
        if len(sh) != len(s) or not s.isalpha() and s != "":
            raise TranslationError("einsum rank mismatch")
        for ch, d in zip(s, sh):
            if dims.setdefault(ch, d) != d:
                raise TranslationError("einsum dimension mismatch")
    summed = [ch for ch in dims if ch not in out]
    if any(ch not in dims for ch in out):
        raise TranslationError("einsum output index")

    def get(o, s, asg):
        for ch in s:
            o = o[asg[ch]]
        return o

    def term(asg):
        t = None
        for s, o in zip(ins, ops):
            e = get(o, s, asg)
            t = e if t is None else ("mul", t, e)
        return t

    def total(asg, rest):
        if not rest:
            return term(asg)
        acc = None
        for i in range(dims[rest[0]]):
            e = total(dict(asg, **{rest[0]: i}), rest[1:])
            acc = e if acc is None else ("add", acc, e)
        return acc

    def build(asg, rest):
        if not rest:
            return total(asg, summed)
        return [build(dict(asg, **{rest[0]: i}), rest[1:]) for i in range(dims[rest[0]])]
    return build({}, list(out))


# ------------------------------------------------------------------ rendering
def lean_num(fr):
    if fr.denominator == 1:
        return "(%d:ℝ)" % fr.numerator if fr.numerator >= 0 else "(-(%d:ℝ))" % -fr.numerator
    if fr.numerator >= 0:
        return "((%d:ℝ) / %d)" % (fr.numerator, fr.denominator)
    return "(-((%d:ℝ) / %d))" % (-fr.numerator, fr.denominator)


def lean(e, defs):
    k = e[0]
    if k == "num":
        return lean_num(e[1])
    if k == "var":
        return e[1]
    if k == "cst":
        return "%s.%s" % (e[1], e[2])
    if k == "pi":
        return "Real.pi"
    if k in ("add", "sub", "mul", "div"):
        return "(%s %s %s)" % (lean(e[1], defs), {"add": "+", "sub": "-", "mul": "*", "div": "/"}[k], lean(e[2], defs))
    if k == "neg":
        return "(-%s)" % lean(e[1], defs)
    if k == "powi":
        if e[2] >= 0:
            return "(%s ^ (%d:ℕ))" % (lean(e[1], defs), e[2])
        return "((%s ^ (%d:ℕ))⁻¹)" % (lean(e[1], defs), -e[2])
    if k == "rpow":
        return "(%s ^ (%s : ℝ))" % (lean(e[1], defs), lean(e[2], defs))
    if k == "fn":
        return "(%s %s)" % (LEAN_FN[e[1]], lean(e[2], defs))
    if k == "hyp2f1":
        return "(hyp2f1 %s)" % " ".join(lean(a, defs) for a in e[1:])
    if k == "papp":
        return "(%s %s)" % (e[1], " ".join(lean(a, defs) for a in e[2]))
    if k == "pval":
        return e[1]
    if k == "app":
        d = defs[(e[1], e[2])]
        parts = ["%s.%s" % (e[1], e[2])] + [nm for nm, _ in d["extras"]] + [lean(a, defs) for a in e[3]]
        return "(%s)" % " ".join(parts)
    raise TranslationError("render %r" % (k,))


PYFN = {"sin": math.sin, "cos": math.cos, "exp": math.exp, "log": math.log, "sqrt": math.sqrt,
        "sinh": math.sinh, "cosh": math.cosh}


def evaluate(e, env, defs, extras):
    """Float value of IR `e`; env: variable values; extras: {'hyp2f1': f, 'sol_a': f, 'd3x_d3x_Rc': v}."""
    k = e[0]
    ev = lambda x: evaluate(x, env, defs, extras)
    if k == "num":
        return e[1].numerator / e[1].denominator
    if k == "var":
        return env[e[1]]
    if k == "cst":
        return evaluate(defs[(e[1], e[2])]["body"], {}, defs, extras)
    if k == "pi":
        return math.pi
    if k == "add":
        return ev(e[1]) + ev(e[2])
    if k == "sub":
        return ev(e[1]) - ev(e[2])
    if k == "mul":
        return ev(e[1]) * ev(e[2])
    if k == "div":
        b = ev(e[2])
        return 0.0 if b == 0 else ev(e[1]) / b      # Lean: x / 0 = 0
    if k == "neg":
        return -ev(e[1])
    if k == "powi":
        a = ev(e[1])
        if e[2] >= 0:
            return a ** e[2]
        return 0.0 if a == 0 else 1.0 / (a ** (-e[2]))
    if k == "rpow":
        return math.pow(ev(e[1]), ev(e[2]))
    if k == "fn":
        return PYFN[e[1]](ev(e[2]))
    if k == "hyp2f1":
        return extras["hyp2f1"](*[ev(a) for a in e[1:]])
    if k == "papp":
        return extras[e[1]](*[ev(a) for a in e[2]])
    if k == "pval":
        return extras[e[1]]
    if k == "app":
        d = defs[(e[1], e[2])]
        return evaluate(d["body"], dict(zip(d["params"], [ev(a) for a in e[3]])), defs, extras)
    raise TranslationError("evaluate %r" % (k,))


def size(e):
    if not isinstance(e, tuple):
        return 0
    return 1 + sum(size(x) if isinstance(x, tuple) else sum(size(y) for y in x) if isinstance(x, list) else 0 for x in e[1:])


def generate(modules=MODULES):
    """Returns (lean_text, info).  info: defs (for evaluation), failed {name: reason}."""
    tr = Translator()
    failed = {}
    for m in modules:
        try:
            tr.load(m)
        except TranslationError as ex:
            failed[m + ".*"] = str(ex)
            continue
        for c in tr.consts[m]:
            try:
                tr.const_ref(m, c)
            except TranslationError as ex:
                failed["%s.%s" % (m, c)] = str(ex)
        for fname in tr.funcs[m]:
            if fname in SKIP_FUNCS:
                continue
            for flag in ((False, True) if tr.has_flag(m, fname) else (None,)):
                try:
                    tr.template(m, fname, flag)
                except TranslationError as ex:
                    failed["%s.%s%s" % (m, fname, {None: "", False: "_num", True: "_sym"}[flag])] = str(ex)
    out = ["-- GENERATED by tools/py2lean/solutions.py from src/aurel/solutions/*.py — do not edit.",
           "-- One `def` per module constant and per returned component of every module function;",
           "-- `_num` / `_sym` = the `analytical=False` / `analytical=True` branch.",
           "import Mathlib.Analysis.SpecialFunctions.Pow.Real",
           "import Mathlib.Analysis.SpecialFunctions.Trigonometric.Basic",
           "import Mathlib.Analysis.SpecialFunctions.Log.Basic",
           "import Mathlib.Analysis.SpecialFunctions.Sqrt",
           "import Mathlib.Analysis.SpecialFunctions.Trigonometric.DerivHyp",
           "", "set_option linter.unusedVariables false", "noncomputable section",
           "namespace AurelVerif.Gen.Solutions", ""]
    for k in sorted(failed):
        out.append("-- UNTRANSLATED %s: %s" % (k, failed[k].replace("\n", " ")[:200]))
    cur = None
    for key in tr.order:
        d = tr.defs[key]
        if d["module"] != cur:
            if cur is not None:
                out += ["end %s" % cur, ""]
            cur = d["module"]
            out.append("namespace %s" % cur)
        binders = "".join(" (%s : %s)" % e for e in d["extras"])
        if d["params"]:
            binders += " (%s : ℝ)" % " ".join(d["params"])
        out.append("/-- solutions/%s.py:%d `%s`%s -/" % (
            d["module"], d["line"], d["py"],
            "" if d["kind"] == "const" else " %s%s" % (
                {None: "", False: "analytical=False ", True: "analytical=True "}[d["flag"]],
                ("component %s" % (d["comp"],)) if d["comp"] else "")))
        if d["kind"] == "agg":
            call = " ".join([nm for nm, _ in d["extras"]] + d["params"])

            def vec(tm):
                if isinstance(tm, list):
                    return "![%s]" % ", ".join(vec(x) for x in tm)
                return "%s.%s %s" % (d["module"], tm, call)
            typ = " → ".join(["Fin %d" % k for k in d["shape"]] + ["ℝ"])
            out[-1] = "/-- solutions/%s.py:%d `%s` %sas an array of its components -/" % (
                d["module"], d["line"], d["py"], {None: "", False: "analytical=False ", True: "analytical=True "}[d["flag"]])
            out.append("def %s%s : %s :=\n  %s" % (d["name"], binders, typ, vec(d["tmpl"])))
            continue
        out.append("def %s%s : ℝ :=\n  %s" % (d["name"], binders, lean(d["body"], tr.defs)))
    if cur is not None:
        out += ["end %s" % cur, ""]
    out += ["end AurelVerif.Gen.Solutions", "end"]
    info = {"defs": tr.defs, "order": tr.order, "failed": failed,
            "n_defs": len(tr.order), "sizes": {"%s.%s" % k: size(tr.defs[k]["body"]) for k in tr.order if tr.defs[k]["body"] is not None}}
    return "\n".join(out) + "\n", info


def regen():
    text, info = generate()
    path = os.path.join(fw.LEAN, "AurelVerif", "Gen", "Solutions.lean")
    changed = fw.write_if_changed(path, text)
    return changed, info
