"""py2lean: coresymbolic.py (class AurelCoreSymbolic) -> Gen/SymFormulas.lean + Gen/SymLoops.lean.

From the AST of every method that is a key of the symbolic core:

  * the FORMULA LINE of each method branch (`val`/`term1..4`, `sum(... for m in
    range(self.dim))`, accumulator loops `val += ...` with their skip
    conditions, `0.5 * val`, `if self.simplify: ... sp.simplify(...)`, the
    Einstein expression) as a Lean definition over a field `K` with
    `sp.diff(e, self.coords[k])` -> `D k e`, `sp.simplify(e)` -> `S e`,
    `self.simplify` -> `simplify : Bool`, `self["X"][a, b]` -> parameter `X a b`,
    for symbolic dimension `n` (indices in `Fin n`);          -> Gen/SymFormulas.lean
  * the LOOP STRUCTURE of each method branch as a value of
    `AurelVerif.SymFill.Prog` (nest order, `if a == b` skips, `if not done[..]`,
    `done[..] = 1` marks incl. `:` slices, primary store and the partner stores
    with their signs / copies), and the method table with the
    `"K" in self.data.keys()` guards and the `self[...]` dependencies in order
    of first occurrence.                                      -> Gen/SymLoops.lean

Never guesses: any statement or expression outside the recognised shapes
raises TranslationError (reported by the check as a broken obligation).
"""
import ast
import os

from lib import fw


class TranslationError(Exception):
    pass


RANK = {"gdown": 2, "gup": 2, "gdet": 0, "Gamma_down": 3, "Gamma_udd": 3,
        "Riemann_down": 4, "Riemann_uddd": 4, "Ricci_down": 2, "RicciS": 0,
        "Einstein_down": 2}
KEYS = list(RANK)


def bad(node, why):
    raise TranslationError("%s (line %s): %s" % (why, getattr(node, "lineno", "?"),
                                                   ast.unparse(node)[:120] if isinstance(node, ast.AST) else node))


def is_self_attr(node, attr):
    return (isinstance(node, ast.Attribute) and isinstance(node.value, ast.Name)
            and node.value.id == "self" and node.attr == attr)


def is_range_dim(node):
    return (isinstance(node, ast.Call) and isinstance(node.func, ast.Name) and node.func.id == "range"
            and len(node.args) == 1 and not node.keywords and is_self_attr(node.args[0], "dim"))


def self_key(node):
    """self["X"] -> "X" else None"""
    if (isinstance(node, ast.Subscript) and isinstance(node.value, ast.Name) and node.value.id == "self"
            and isinstance(node.slice, ast.Constant) and isinstance(node.slice.value, str)):
        return node.slice.value
    return None


def index_elts(sl):
    return list(sl.elts) if isinstance(sl, ast.Tuple) else [sl]


def data_guard(test):
    """`"K" in self.data.keys()` / `"K" in self.data` -> K"""
    if (isinstance(test, ast.Compare) and len(test.ops) == 1 and isinstance(test.ops[0], ast.In)
            and isinstance(test.left, ast.Constant) and isinstance(test.left.value, str)):
        c = test.comparators[0]
        if is_self_attr(c, "data"):
            return test.left.value
        if (isinstance(c, ast.Call) and not c.args and isinstance(c.func, ast.Attribute)
                and c.func.attr == "keys" and is_self_attr(c.func.value, "data")):
            return test.left.value
    return None


def eq_test(test):
    """`a == b` on names -> (a, b)"""
    if (isinstance(test, ast.Compare) and len(test.ops) == 1 and isinstance(test.ops[0], ast.Eq)
            and isinstance(test.left, ast.Name) and isinstance(test.comparators[0], ast.Name)):
        return test.left.id, test.comparators[0].id
    return None


class Branch:
    """Translation state of one straight-line path through a method."""

    def __init__(self, key, name, guard):
        self.key, self.name, self.guard = key, name, guard
        self.arr = None           # (python name, rank)
        self.done = None
        self.loopvars = []        # fill-loop variables in nest order (python names)
        self.deps = []            # self[...] keys in order of first occurrence
        self.lets = None          # formula line: list of (name, lean expr)
        self.line_result = None   # name bound by the last let = the stored value
        self.line_vars = None     # binder names of the line = primary store index
        self.returned = False

    # ------------------------------------------------------------ expressions
    def dep(self, k):
        if k not in RANK:
            raise TranslationError("self[%r] is not one of the ten keys" % k)
        if k not in self.deps:
            self.deps.append(k)

    def expr(self, node, scope, cells):
        """Python expression -> fully parenthesised Lean term over K.
        scope: names usable as indices (loop + sum variables); cells: local
        let-names (formula temporaries) and array cells bound in this block."""
        e = lambda x: self.expr(x, scope, cells)  # noqa
        if isinstance(node, ast.Constant):
            v = node.value
            if isinstance(v, bool):
                bad(node, "boolean literal in a formula")
            if isinstance(v, int):
                return "(%d : K)" % v if v >= 0 else "(-%d : K)" % -v
            if isinstance(v, float) and v == 0.5:
                return "(1 / 2 : K)"
            bad(node, "unsupported literal")
        if isinstance(node, ast.Name):
            if node.id in cells["names"]:
                return node.id
            bad(node, "unknown name in a formula")
        if isinstance(node, ast.UnaryOp) and isinstance(node.op, ast.USub):
            return "(-%s)" % e(node.operand)
        if isinstance(node, ast.BinOp):
            op = {ast.Add: "+", ast.Sub: "-", ast.Mult: "*"}.get(type(node.op))
            if op is None:
                bad(node, "unsupported operator")
            return "(%s %s %s)" % (e(node.left), op, e(node.right))
        if self_key(node) is not None:              # scalar key self["X"]
            k = self_key(node)
            self.dep(k)
            if RANK[k] != 0:
                bad(node, "tensor %s used without indices" % k)
            return k
        if isinstance(node, ast.Subscript):
            k = self_key(node.value)
            if k is not None:                       # self["X"][a, b, ...]
                self.dep(k)
                idx = index_elts(node.slice)
                if len(idx) != RANK[k]:
                    bad(node, "rank of %s is %d" % (k, RANK[k]))
                return "(%s %s)" % (k, " ".join(self.ixname(a, scope) for a in idx))
            if isinstance(node.value, ast.Name) and self.arr and node.value.id == self.arr[0]:
                t = tuple(self.ixname(a, scope) for a in index_elts(node.slice))
                if t in cells["cells"]:
                    return cells["cells"][t]
                bad(node, "read of an array cell that this block has not written")
            bad(node, "unsupported subscript")
        if isinstance(node, ast.Call) and isinstance(node.func, ast.Attribute) \
                and isinstance(node.func.value, ast.Name) and node.func.value.id == "sp" and not node.keywords:
            if node.func.attr == "simplify" and len(node.args) == 1:
                return "(S %s)" % e(node.args[0])
            if node.func.attr == "diff" and len(node.args) == 2:
                c = node.args[1]
                if not (isinstance(c, ast.Subscript) and is_self_attr(c.value, "coords")):
                    bad(node, "sp.diff w.r.t. something that is not self.coords[v]")
                return "(D %s %s)" % (self.ixname(c.slice, scope), e(node.args[0]))
            bad(node, "unsupported sympy call")
        if isinstance(node, ast.Call) and isinstance(node.func, ast.Name) and node.func.id == "sum" \
                and len(node.args) == 1 and isinstance(node.args[0], ast.GeneratorExp) and not node.keywords:
            g = node.args[0]
            if len(g.generators) != 1:
                bad(node, "nested generator")
            c = g.generators[0]
            if c.ifs or c.is_async or not isinstance(c.target, ast.Name) or not is_range_dim(c.iter):
                bad(node, "sum(...) not over `for m in range(self.dim)`")
            m = c.target.id
            if m in scope:
                bad(node, "sum variable shadows a loop variable")
            return "(∑ %s, %s)" % (m, self.expr(g.elt, scope + [m], cells))
        bad(node, "unsupported expression")

    def ixname(self, node, scope):
        if isinstance(node, ast.Name) and node.id in scope:
            return node.id
        bad(node, "index is not a loop / sum variable")

    # ---------------------------------------------------- formula statements
    def simplify_test(self, test):
        return is_self_attr(test, "simplify")

    def block_lets(self, stmts, scope, cells):
        """Straight-line formula statements -> list of (name, expr); the names
        are added to cells['names'].  Supports: `x = e`, accumulator loops,
        `if self.simplify:` with plain assignments in both arms."""
        lets = []
        for s in stmts:
            lets += self.formula_stmt(s, scope, cells)
        return lets

    def formula_stmt(self, s, scope, cells):
        if isinstance(s, ast.Assign) and len(s.targets) == 1 and isinstance(s.targets[0], ast.Name):
            v = self.expr(s.value, scope, cells)
            cells["names"].add(s.targets[0].id)
            return [(s.targets[0].id, v)]
        if isinstance(s, ast.For):
            acc, inc = self.acc_loop(s, scope, cells)
            if acc not in cells["names"]:
                bad(s, "accumulator %s not initialised" % acc)
            return [(acc, "(%s + %s)" % (acc, inc))]
        if isinstance(s, ast.If) and self.simplify_test(s.test):
            # both arms: plain assignments to names; result: v := if simplify then .. else ..
            arms = []
            for body in (s.body, s.orelse):
                sub = {"names": set(cells["names"]), "cells": dict(cells["cells"])}
                ls = self.block_lets(body, scope, sub)
                arms.append(ls)
            names = []
            for ls in arms:
                for (nm, _) in ls:
                    if nm not in names:
                        names.append(nm)
            out = []
            for nm in names:
                vals = []
                for ls in arms:
                    mine = [i for i, (x, _) in enumerate(ls) if x == nm]
                    if not mine:
                        if nm not in cells["names"]:
                            bad(s, "%s assigned in one arm only and not defined before" % nm)
                        vals.append(nm)
                    else:
                        last = mine[-1]
                        vals.append(self.wrap_lets(ls[:last], ls[last][1]))
                out.append((nm, "(if simplify then %s else %s)" % (vals[0], vals[1])))
            if len(out) > 1:
                bad(s, "if self.simplify assigning several names")
            for nm in names:
                cells["names"].add(nm)
            return out
        bad(s, "unsupported formula statement")

    @staticmethod
    def wrap_lets(lets, result):
        if not lets:
            return result
        return "(" + "".join("let %s := %s; " % l for l in lets) + result + ")"

    def acc_loop(self, s, scope, cells):
        """`for v in range(self.dim): <body>` whose only effect is `acc += e`
        (possibly under `if a == b: pass else:` / `if self.simplify:` / nested
        loops / after loop-local temporaries).  Returns (acc, '(∑ v, inc)')."""
        if s.orelse or not isinstance(s.target, ast.Name) or not is_range_dim(s.iter):
            bad(s, "loop is not `for v in range(self.dim)`")
        v = s.target.id
        if v in scope:
            bad(s, "loop variable reused")
        sub = {"names": set(cells["names"]), "cells": dict(cells["cells"])}
        acc, inc = self.inc_block(s.body, scope + [v], sub)
        if acc is None:
            bad(s, "loop without accumulation")
        return acc, "(∑ %s, %s)" % (v, inc)

    def inc_block(self, stmts, scope, cells):
        """value added to the accumulator by a statement list -> (acc, expr)"""
        lets, acc, incs = [], None, []

        def setacc(a, node):
            nonlocal acc
            if acc is not None and acc != a:
                bad(node, "two accumulators in one loop")
            acc = a

        for s in stmts:
            if isinstance(s, ast.Pass):
                continue
            if isinstance(s, ast.AugAssign) and isinstance(s.op, ast.Add) and isinstance(s.target, ast.Name):
                setacc(s.target.id, s)
                if s.target.id in [l[0] for l in lets]:
                    bad(s, "accumulator is also a loop temporary")
                incs.append(self.wrap_lets(lets, self.expr(s.value, scope, cells)))
            elif isinstance(s, ast.Assign) and len(s.targets) == 1 and isinstance(s.targets[0], ast.Name):
                lets += self.formula_stmt(s, scope, cells)
            elif isinstance(s, ast.For):
                a, inc = self.acc_loop(s, scope, cells)
                setacc(a, s)
                incs.append(self.wrap_lets(lets, inc))
            elif isinstance(s, ast.If) and eq_test(s.test):
                a, b = eq_test(s.test)
                for x in (a, b):
                    if x not in scope:
                        bad(s, "comparison of non-loop variables")
                a1, i1 = self.inc_block(s.body, scope, {"names": set(cells["names"]), "cells": dict(cells["cells"])})
                a2, i2 = self.inc_block(s.orelse, scope, {"names": set(cells["names"]), "cells": dict(cells["cells"])})
                for x in (a1, a2):
                    if x is not None:
                        setacc(x, s)
                incs.append(self.wrap_lets(lets, "(if %s = %s then %s else %s)" % (a, b, i1, i2)))
            elif isinstance(s, ast.If) and self.simplify_test(s.test):
                a1, i1 = self.inc_block(s.body, scope, {"names": set(cells["names"]), "cells": dict(cells["cells"])})
                a2, i2 = self.inc_block(s.orelse, scope, {"names": set(cells["names"]), "cells": dict(cells["cells"])})
                for x in (a1, a2):
                    if x is not None:
                        setacc(x, s)
                incs.append(self.wrap_lets(lets, "(if simplify then %s else %s)" % (i1, i2)))
            else:
                bad(s, "unsupported statement in an accumulator loop")
        if not incs:
            return acc, "(0 : K)"
        out = incs[0]
        for i in incs[1:]:
            out = "(%s + %s)" % (out, i)
        return acc, out

    # ---------------------------------------------------------- fill loops
    def var_no(self, name, node):
        if name not in self.loopvars:
            bad(node, "not a fill-loop variable: " + name)
        return self.loopvars.index(name)

    def ix_of(self, sl, node, allow_slice=False):
        out = []
        for a in index_elts(sl):
            if isinstance(a, ast.Name):
                out.append(self.var_no(a.id, node))
            elif allow_slice and isinstance(a, ast.Slice) and a.lower is None and a.upper is None and a.step is None:
                out.append(None)
            else:
                bad(node, "unsupported index")
        return out

    def is_arr(self, node):
        return (isinstance(node, ast.Subscript) and isinstance(node.value, ast.Name)
                and self.arr is not None and node.value.id == self.arr[0])

    def is_done(self, node):
        return (isinstance(node, ast.Subscript) and isinstance(node.value, ast.Name)
                and self.done is not None and node.value.id == self.done[0])

    def fill_block(self, stmts):
        """statement list inside the loop nest -> Lean Stmt term"""
        out = []
        i = 0
        while i < len(stmts):
            s = stmts[i]
            if isinstance(s, ast.Pass):
                out.append(".skip")
                i += 1
            elif isinstance(s, ast.For) and is_range_dim(s.iter) and isinstance(s.target, ast.Name) \
                    and not s.orelse and not self.is_acc_for(s):
                if s.target.id in self.loopvars:
                    bad(s, "loop variable reused")
                self.loopvars.append(s.target.id)
                no = len(self.loopvars) - 1
                out.append("(.loop %d %s)" % (no, self.fill_block(s.body)))
                i += 1
            elif isinstance(s, ast.If) and eq_test(s.test):
                a, b = eq_test(s.test)
                out.append("(.ifEq %d %d %s %s)" % (self.var_no(a, s), self.var_no(b, s),
                                                    self.fill_block(s.body), self.fill_block(s.orelse)))
                i += 1
            elif isinstance(s, ast.If) and isinstance(s.test, ast.UnaryOp) and isinstance(s.test.op, ast.Not) \
                    and self.is_done(s.test.operand) and not s.orelse:
                ix = self.ix_of(s.test.operand.slice, s)
                if len(ix) != self.done[1]:
                    bad(s, "rank of done")
                out.append("(.ifNotDone %s %s)" % (lean_list(ix), self.fill_block(s.body)))
                i += 1
            elif isinstance(s, ast.Assign) and len(s.targets) == 1 and self.is_done(s.targets[0]):
                if not (isinstance(s.value, ast.Constant) and s.value.value == 1):
                    bad(s, "done[...] assigned something else than 1")
                ix = self.ix_of(s.targets[0].slice, s, allow_slice=True)
                if len(ix) != self.done[1]:
                    bad(s, "rank of done")
                out.append("(.mark %s)" % lean_optlist(ix))
                i += 1
            else:
                # a compute block: formula statements followed by stores / marks
                j, stm = self.compute_block(stmts, i)
                out += stm
                i = j
        return seq(out)

    def is_acc_for(self, s):
        """a `for` whose body (transitively) contains no array/done access is an
        accumulator loop (part of the formula), not a fill loop"""
        for n in ast.walk(s):
            if isinstance(n, ast.Subscript) and isinstance(n.value, ast.Name):
                if (self.arr and n.value.id == self.arr[0]) or (self.done and n.value.id == self.done[0]):
                    return False
        return True

    def compute_block(self, stmts, i):
        """stmts[i:] starts a formula; consume the formula statements, the
        primary store and every following store/copy/load/mark."""
        if self.lets is not None:
            raise TranslationError("%s: second formula block in one branch" % self.name)
        scope = list(self.loopvars)
        cells = {"names": set(), "cells": {}}
        lets, out = [], []
        reg = None          # python name whose value is in the `val` register
        primary = None
        while i < len(stmts):
            s = stmts[i]
            if isinstance(s, ast.Assign) and len(s.targets) == 1 and self.is_arr(s.targets[0]):
                tgt = self.ix_of(s.targets[0].slice, s)
                if len(tgt) != self.arr[1]:
                    bad(s, "rank of the array")
                tnames = tuple(self.loopvars[t] for t in tgt)
                v = s.value
                sign = False
                if isinstance(v, ast.UnaryOp) and isinstance(v.op, ast.USub) and isinstance(v.operand, ast.Name):
                    v, sign = v.operand, True
                if isinstance(v, ast.Name):                       # A[ix] = ± name
                    if primary is None:
                        if v.id not in cells["names"] or sign:
                            bad(s, "first store of a block must be `A[ix] = <formula value>`")
                        primary, reg = tnames, v.id
                        out.append("(.compute %s)" % lean_list(tgt))
                    if v.id != reg:
                        bad(s, "stored name is not the current formula value")
                    out.append("(.store %s %s)" % (lean_list(tgt), "true" if sign else "false"))
                    cells["cells"][tnames] = ("(-%s)" % reg) if sign else reg
                elif self.is_arr(v):                              # A[dst] = A[src]
                    src = self.ix_of(v.slice, s)
                    snames = tuple(self.loopvars[t] for t in src)
                    if primary is None or snames not in cells["cells"]:
                        bad(s, "copy from a cell this block has not written")
                    out.append("(.copy %s %s)" % (lean_list(tgt), lean_list(src)))
                    cells["cells"][tnames] = cells["cells"][snames]
                else:                                             # A[ix] = <expression>
                    if primary is not None:
                        bad(s, "second formula store in one block")
                    e = self.expr(v, scope, cells)
                    nm = "line_" + "".join(tnames)
                    lets.append((nm, e))
                    cells["names"].add(nm)
                    primary, reg = tnames, nm
                    out.append("(.compute %s)" % lean_list(tgt))
                    out.append("(.store %s false)" % lean_list(tgt))
                    cells["cells"][tnames] = nm
                i += 1
            elif isinstance(s, ast.Assign) and len(s.targets) == 1 and self.is_done(s.targets[0]):
                if primary is None:
                    bad(s, "done mark before the formula value is stored")
                if not (isinstance(s.value, ast.Constant) and s.value.value == 1):
                    bad(s, "done[...] assigned something else than 1")
                ix = self.ix_of(s.targets[0].slice, s, allow_slice=True)
                out.append("(.mark %s)" % lean_optlist(ix))
                i += 1
            elif primary is not None and self.is_reload(s):
                # name = A[ix]  |  if self.simplify: name = sp.simplify(A[ix]) else: name = A[ix]
                nm, tnames, tgt = self.is_reload(s)
                if tnames != primary:
                    bad(s, "re-load of a cell that is not the primary one")
                ls = self.formula_stmt(s, scope, cells)
                lets += ls
                reg = nm
                out.append("(.load %s)" % lean_list(tgt))
                i += 1
            elif primary is None and isinstance(s, (ast.Assign, ast.For, ast.If)) and not self.touches_arrays(s):
                lets += self.formula_stmt(s, scope, cells)
                i += 1
            else:
                break
        if primary is None:
            bad(stmts[i] if i < len(stmts) else stmts[-1], "formula block without a store")
        if len(set(primary)) != len(primary):
            raise TranslationError("%s: primary store index repeats a variable" % self.name)
        # the value finally held at the primary cell
        lets.append(("result", cells["cells"][primary]))
        self.lets, self.line_vars = lets, list(primary)
        return i, out

    def touches_arrays(self, s):
        for n in ast.walk(s):
            if isinstance(n, ast.Subscript) and isinstance(n.value, ast.Name):
                if (self.arr and n.value.id == self.arr[0]) or (self.done and n.value.id == self.done[0]):
                    return True
        return False

    def is_reload(self, s):
        def arr_read(v):
            if isinstance(v, ast.Call) and isinstance(v.func, ast.Attribute) and v.func.attr == "simplify" \
                    and isinstance(v.func.value, ast.Name) and v.func.value.id == "sp" and len(v.args) == 1:
                v = v.args[0]
            if self.is_arr(v):
                try:
                    tgt = self.ix_of(v.slice, s)
                except TranslationError:
                    return None
                return tuple(self.loopvars[t] for t in tgt), tgt
            return None

        def plain(st):
            if isinstance(st, ast.Assign) and len(st.targets) == 1 and isinstance(st.targets[0], ast.Name):
                r = arr_read(st.value)
                if r:
                    return st.targets[0].id, r[0], r[1]
            return None

        if plain(s):
            return plain(s)
        if isinstance(s, ast.If) and self.simplify_test(s.test) and len(s.body) == 1 and len(s.orelse) == 1:
            a, b = plain(s.body[0]), plain(s.orelse[0])
            if a and b and a == b:
                return a
        return None


def lean_list(xs):
    return "[" + ", ".join(str(x) for x in xs) + "]"


def lean_optlist(xs):
    return "[" + ", ".join("none" if x is None else "some %d" % x for x in xs) + "]"


def seq(items):
    if not items:
        return ".skip"
    out = items[-1]
    for it in reversed(items[:-1]):
        out = "(.seq %s %s)" % (it, out)
    return out


# --------------------------------------------------------------------- methods
def strip_doc(body):
    return [s for s in body if not (isinstance(s, ast.Expr) and isinstance(s.value, ast.Constant)
                                    and isinstance(s.value.value, str))]


def paths(stmts):
    """expand the `"K" in self.data` guard: list of (guard, straight-line stmts)"""
    for n, s in enumerate(stmts):
        if isinstance(s, ast.If) and data_guard(s.test):
            k = data_guard(s.test)
            if not s.orelse:
                raise TranslationError("data guard without else")
            for s2 in stmts[:n] + stmts[n + 1:]:
                if isinstance(s2, ast.If) and data_guard(s2.test):
                    raise TranslationError("two data guards in one method")
            return [((True, k), stmts[:n] + s.body + stmts[n + 1:]),
                    ((False, k), stmts[:n] + s.orelse + stmts[n + 1:])]
    return [(None, stmts)]


def dims_tuple(node, r_expected=None):
    """(self.dim, self.dim, ...) -> rank"""
    if isinstance(node, ast.Tuple) and node.elts and all(is_self_attr(e, "dim") for e in node.elts):
        return len(node.elts)
    return None


def alloc_array(s):
    """X = sp.MutableDenseNDimArray([0]*(self.dim**r), (self.dim,)*r) -> (X, r)"""
    if not (isinstance(s, ast.Assign) and len(s.targets) == 1 and isinstance(s.targets[0], ast.Name)
            and isinstance(s.value, ast.Call) and isinstance(s.value.func, ast.Attribute)):
        return None
    f = s.value.func
    if not (isinstance(f.value, ast.Name) and f.value.id == "sp" and f.attr == "MutableDenseNDimArray"):
        return None
    a = s.value.args
    if len(a) != 2 or s.value.keywords:
        bad(s, "MutableDenseNDimArray arguments")
    r = dims_tuple(a[1])
    z = a[0]
    ok = (isinstance(z, ast.BinOp) and isinstance(z.op, ast.Mult) and isinstance(z.left, ast.List)
          and len(z.left.elts) == 1 and isinstance(z.left.elts[0], ast.Constant) and z.left.elts[0].value == 0
          and isinstance(z.right, ast.BinOp) and isinstance(z.right.op, ast.Pow)
          and is_self_attr(z.right.left, "dim") and isinstance(z.right.right, ast.Constant)
          and z.right.right.value == r)
    if r is None or not ok:
        bad(s, "array is not [0]*(self.dim**r) of shape (self.dim,)*r")
    return s.targets[0].id, r


def alloc_done(s):
    """done = np.zeros((self.dim,)*r) -> (done, r)"""
    if not (isinstance(s, ast.Assign) and len(s.targets) == 1 and isinstance(s.targets[0], ast.Name)
            and isinstance(s.value, ast.Call) and isinstance(s.value.func, ast.Attribute)):
        return None
    f = s.value.func
    if not (isinstance(f.value, ast.Name) and f.value.id == "np" and f.attr == "zeros"):
        return None
    if len(s.value.args) != 1 or s.value.keywords:
        bad(s, "np.zeros arguments")
    r = dims_tuple(s.value.args[0])
    if r is None:
        bad(s, "done is not np.zeros((self.dim,)*r)")
    return s.targets[0].id, r


def translate_tensor(key, fn):
    out = []
    for guard, stmts in paths(strip_doc(fn.body)):
        name = key if guard is None else key + ("_cached" if guard[0] else "_direct")
        br = Branch(key, name, guard)
        body = []
        for s in stmts:
            if br.returned:
                bad(s, "statement after return")
            a = alloc_array(s)
            d = alloc_done(s)
            if a:
                if br.arr:
                    bad(s, "second array allocation")
                br.arr = a
            elif d:
                if br.done:
                    bad(s, "second done allocation")
                br.done = d
            elif isinstance(s, ast.Return):
                if not (isinstance(s.value, ast.Name) and br.arr and s.value.id == br.arr[0]):
                    bad(s, "method does not return its array")
                br.returned = True
            else:
                if not br.arr or not br.done:
                    bad(s, "loop nest before the array / done allocation")
                body.append(s)
        if not br.returned:
            raise TranslationError(name + ": no return")
        if br.arr[1] != RANK[key] or br.done[1] != RANK[key]:
            raise TranslationError(name + ": array rank differs from the rank of the key")
        br.prog = br.fill_block(body)
        if br.lets is None:
            raise TranslationError(name + ": no formula line found")
        out.append(br)
    return out


def translate_scalar(key, fn):
    """RicciS: acc = 0; nested accumulator loops; return acc"""
    br = Branch(key, key, None)
    stmts = strip_doc(fn.body)
    if not stmts or not isinstance(stmts[-1], ast.Return) or not isinstance(stmts[-1].value, ast.Name):
        raise TranslationError(key + ": does not end with `return <name>`")
    cells = {"names": set(), "cells": {}}
    lets = br.block_lets(stmts[:-1], [], cells)
    if stmts[-1].value.id not in cells["names"]:
        raise TranslationError(key + ": returns an undefined name")
    lets.append(("result", stmts[-1].value.id))
    br.lets, br.line_vars, br.prog = lets, [], None
    return [br]


def translate_sympy_call(key, fn, attr):
    """gup / gdet: `return self["gdown"].<attr>()` — delegated to sympy (trusted)"""
    stmts = strip_doc(fn.body)
    ok = (len(stmts) == 1 and isinstance(stmts[0], ast.Return) and isinstance(stmts[0].value, ast.Call)
          and not stmts[0].value.args and not stmts[0].value.keywords
          and isinstance(stmts[0].value.func, ast.Attribute) and stmts[0].value.func.attr == attr
          and self_key(stmts[0].value.func.value) == "gdown")
    if not ok:
        raise TranslationError('%s is not `return self["gdown"].%s()`' % (key, attr))
    br = Branch(key, key, None)
    br.deps, br.prog = ["gdown"], None
    return [br]


def translate_gdown(fn):
    """default metric: only required not to depend on any other key"""
    for n in ast.walk(fn):
        if self_key(n) is not None:
            raise TranslationError("gdown looks up self[%r]" % self_key(n))
    br = Branch("gdown", "gdown", None)
    br.prog = None
    return [br]


def type_of_rank(r):
    return " → ".join(["Fin n"] * r + ["K"])


def emit_def(br):
    ps = " ".join("(%s : %s)" % (d, type_of_rank(RANK[d])) for d in br.deps)
    vs = ("(%s : Fin n)" % " ".join(br.line_vars)) if br.line_vars else ""
    head = "def %s (D : Fin n → K → K) (simplify : Bool) (S : K → K) %s %s : K :=" % (br.name, ps, vs)
    lines = [" ".join(head.split())]
    for (nm, e) in br.lets[:-1]:
        lines.append("  let %s := %s" % (nm, e))
    lines.append("  " + br.lets[-1][1])
    return "\n".join(lines)


def generate():
    src = fw.src_text("coresymbolic.py")
    tree = ast.parse(src)
    cls = [n for n in tree.body if isinstance(n, ast.ClassDef) and n.name == "AurelCoreSymbolic"]
    if len(cls) != 1:
        raise TranslationError("class AurelCoreSymbolic not found")
    fns = {n.name: n for n in cls[0].body if isinstance(n, ast.FunctionDef)}
    for n in fns.values():
        if n.name not in ("__init__", "__getitem__") and n.name not in RANK:
            raise TranslationError("unknown method %s (not one of the ten keys)" % n.name)
        if n.name in RANK and [a.arg for a in n.args.args] != ["self"]:
            raise TranslationError("%s takes arguments" % n.name)
    check_getitem(fns.get("__getitem__"))
    methods = {}
    for key in KEYS:
        if key not in fns:
            raise TranslationError("method %s missing" % key)
        if key == "gdown":
            methods[key] = translate_gdown(fns[key])
        elif key == "gup":
            methods[key] = translate_sympy_call(key, fns[key], "inv")
        elif key == "gdet":
            methods[key] = translate_sympy_call(key, fns[key], "det")
        elif RANK[key] == 0:
            methods[key] = translate_scalar(key, fns[key])
        else:
            methods[key] = translate_tensor(key, fns[key])

    hdr = "-- GENERATED by tools/py2lean/symformulas.py from src/aurel/coresymbolic.py — do not edit."
    f = [hdr,
         "import Mathlib.Algebra.BigOperators.Group.Finset.Basic",
         "import Mathlib.Algebra.Field.Basic",
         "import Mathlib.Data.Fintype.BigOperators",
         "",
         "/-! Formula lines of `AurelCoreSymbolic`: `sp.diff(e, self.coords[k])` ↦ `D k e`,",
         "`sp.simplify(e)` ↦ `S e`, `self.simplify` ↦ `simplify`, `self[\"X\"][a, b]` ↦ `X a b`,",
         "`0.5` ↦ `1 / 2`, `sum(e for m in range(self.dim))` ↦ `∑ m, e`.  The binders of a line",
         "are the Python loop variables in the order of the index of its primary store. -/",
         "namespace AurelVerif.Gen.SymFormulas",
         "open scoped BigOperators",
         "set_option linter.unusedVariables false",
         "",
         "variable {K : Type} [Field K] {n : ℕ}",
         ""]
    info = {"lines": {}, "progs": {}}
    for key in KEYS:
        for br in methods[key]:
            if br.lets is not None:
                f.append("/-- `%s`%s -/" % (key, "" if br.guard is None else
                                            " when `\"%s\" %sin self.data`" % (br.guard[1], "" if br.guard[0] else "not ")))
                f.append(emit_def(br))
                f.append("")
                info["lines"][br.name] = {"vars": br.line_vars, "deps": br.deps,
                                          "lets": [list(l) for l in br.lets]}
    f.append("end AurelVerif.Gen.SymFormulas")

    g = [hdr, "import AurelVerif.Model.SymFill", "",
         "/-! Loop structure of the fill loops of `AurelCoreSymbolic` and the method table. -/",
         "namespace AurelVerif.Gen.SymLoops", "open AurelVerif.SymFill", ""]
    for key in KEYS:
        for br in methods[key]:
            if br.prog is not None:
                g.append("/-- loop variables in nest order: %s -/" % ", ".join(br.loopvars))
                g.append("def %s : Prog := { rank := %d, nvars := %d, body :=\n  %s }"
                         % (br.name, RANK[key], len(br.loopvars), br.prog))
                g.append("")
                info["progs"][br.name] = {"loopvars": br.loopvars, "prog": br.prog}
    g.append("def methods : List Method := [")
    rows = []
    for key in KEYS:
        brs = []
        for br in methods[key]:
            guard = "none" if br.guard is None else 'some (%s, "%s")' % ("true" if br.guard[0] else "false", br.guard[1])
            deps = "[" + ", ".join('"%s"' % d for d in br.deps) + "]"
            prog = "none" if br.prog is None else "some %s" % br.name
            brs.append('{ name := "%s", guard := %s, deps := %s, prog := %s }' % (br.name, guard, deps, prog))
        rows.append('  { key := "%s", branches := [\n      %s] }' % (key, ",\n      ".join(brs)))
    g.append(",\n".join(rows) + "]")
    g.append("")
    g.append("def progs : List (String × Prog) := [%s]" % ", ".join(
        '("%s", %s)' % (br.name, br.name) for key in KEYS for br in methods[key] if br.prog is not None))
    g.append("")
    g.append("end AurelVerif.Gen.SymLoops")
    info["methods"] = {k: [{"name": b.name, "guard": b.guard, "deps": b.deps} for b in methods[k]] for k in KEYS}
    return "\n".join(f) + "\n", "\n".join(g) + "\n", info


def check_getitem(fn):
    """__getitem__ must be the cache the model `request` describes: return the
    cached entry if present, else call the method, store it, optionally
    sp.simplify the stored entry, return it."""
    if fn is None:
        raise TranslationError("__getitem__ missing")
    want = ('if key in self.data:\n    return self.data[key]',
            'func = getattr(self, key)',
            'self.data[key] = func()',
            'if self.simplify:\n    self.data[key] = sp.simplify(self.data[key])',
            'return self.data[key]')
    text = "\n".join(ast.unparse(s) for s in strip_doc(fn.body))
    pos = 0
    for w in want:
        lines = w.split("\n")
        p = text.find(lines[0], pos)
        if p < 0:
            raise TranslationError("__getitem__ no longer contains `%s` (in order)" % lines[0])
        pos = p + 1
        for extra in lines[1:]:
            if extra.strip() not in text[p:]:
                raise TranslationError("__getitem__ no longer contains `%s`" % extra.strip())


def regen():
    f, g, info = generate()
    c1 = fw.write_if_changed(os.path.join(fw.LEAN, "AurelVerif", "Gen", "SymFormulas.lean"), f)
    c2 = fw.write_if_changed(os.path.join(fw.LEAN, "AurelVerif", "Gen", "SymLoops.lean"), g)
    return (c1 or c2), info
