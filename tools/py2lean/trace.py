"""py2lean tracer: symbolic execution of aurel.core / aurel.maths methods.

The real, current source of `AurelCore` (and `FiniteDifference`'s tensor
variants, `maths.*`) is *executed* on tracer values: every grid array is a
numpy object array whose grid part has shape (1,1,1) and whose elements are
`Expr` nodes, so numpy's own einsum / broadcasting / slicing / np.array /
np.append semantics are used unchanged and only scalar arithmetic is recorded.
`self[key]` returns a fresh symbolic tensor named after `key` (so every
definition is expressed in terms of its direct dependencies — the layered
structure the proofs need); `'X' in self.data` is answered by a presence
oracle and recorded (guards); `self.fd.d3x/d3y/d3z` become the abstract
operator `D i`; `maths.safe_division` becomes field division (x/0 = 0 in
Lean is exactly its semantics); sqrt/log/exp/abs/non-integer powers become
opaque unary symbols.

Nothing here knows any formula of aurel: a change in the source changes the
traced expressions.
"""
import math
from fractions import Fraction

import numpy as np


class TraceError(Exception):
    pass


# ----------------------------------------------------------------------------
# expressions (hash-consed)
# ----------------------------------------------------------------------------
_TABLE = {}


def float_to_frac(x):
    """Exact rational meant by a Python float literal such as (1/3), 0.5, 2/3."""
    if isinstance(x, (int, np.integer)):
        return Fraction(int(x))
    if isinstance(x, Fraction):
        return x
    if isinstance(x, (float, np.floating)):
        x = float(x)
        if x != x or x in (float("inf"), float("-inf")):
            raise TraceError("non-finite float constant")
        fr = Fraction(x).limit_denominator(10000)
        if float(fr) != x:
            raise TraceError("float constant %r is not a small rational" % x)
        return fr
    raise TraceError("not a real constant: %r" % (x,))


class Expr:
    __slots__ = ("op", "args", "_h")

    def __new__(cls, op, *args):
        key = (op,) + args
        e = _TABLE.get(key)
        if e is None:
            e = object.__new__(cls)
            e.op, e.args = op, args
            e._h = hash(key)
            _TABLE[key] = e
        return e

    def __hash__(self):
        return self._h

    def __eq__(self, other):  # structural identity (hash-consed)
        return self is other

    def __ne__(self, other):
        return self is not other

    def __bool__(self):
        raise TraceError("truth value of a symbolic expression requested (data-dependent branch)")

    # -- constructors
    @staticmethod
    def const(v):
        return Expr("const", float_to_frac(v))

    @staticmethod
    def sym(name, idx=()):
        return Expr("sym", name, tuple(idx))

    def is_const(self, v=None):
        return self.op == "const" and (v is None or self.args[0] == v)

    # -- arithmetic
    def __add__(self, o):
        o = lift(o)
        if o is NotImplemented:
            return o
        if self.is_const(0):
            return o
        if o.is_const(0):
            return self
        if self.op == "const" and o.op == "const":
            return Expr("const", self.args[0] + o.args[0])
        return Expr("add", self, o)

    def __radd__(self, o):
        o = lift(o)
        return o if o is NotImplemented else o.__add__(self)

    def __sub__(self, o):
        o = lift(o)
        if o is NotImplemented:
            return o
        if o.is_const(0):
            return self
        if self.is_const(0):
            return -o
        if self.op == "const" and o.op == "const":
            return Expr("const", self.args[0] - o.args[0])
        return Expr("sub", self, o)

    def __rsub__(self, o):
        o = lift(o)
        return o if o is NotImplemented else o.__sub__(self)

    def __mul__(self, o):
        o = lift(o)
        if o is NotImplemented:
            return o
        if self.is_const(0) or o.is_const(0):
            return ZERO
        if self.is_const(1):
            return o
        if o.is_const(1):
            return self
        if self.op == "const" and o.op == "const":
            return Expr("const", self.args[0] * o.args[0])
        return Expr("mul", self, o)

    def __rmul__(self, o):
        o = lift(o)
        return o if o is NotImplemented else o.__mul__(self)

    def __neg__(self):
        if self.op == "const":
            return Expr("const", -self.args[0])
        if self.op == "neg":
            return self.args[0]
        return Expr("neg", self)

    def __pos__(self):
        return self

    def _div(self, o, kind):
        o = lift(o)
        if o is NotImplemented:
            return o
        if self.is_const(0):
            return ZERO
        if o.is_const(1):
            return self
        if self.op == "const" and o.op == "const" and o.args[0] != 0:
            return Expr("const", self.args[0] / o.args[0])
        return Expr(kind, self, o)

    def __truediv__(self, o):
        return self._div(o, "div")

    def __rtruediv__(self, o):
        o = lift(o)
        return o if o is NotImplemented else o._div(self, "div")

    def sdiv(self, o):
        return self._div(o, "sdiv")

    def __pow__(self, n):
        if isinstance(n, Expr):
            if n.op != "const":
                raise TraceError("symbolic exponent")
            n = n.args[0]
        n = float_to_frac(n)
        if n.denominator == 1:
            n = int(n)
            if n == 0:
                return ONE
            if n == 1:
                return self
            if self.op == "const" and (n > 0 or self.args[0] != 0):
                return Expr("const", self.args[0] ** n)
            return Expr("pow", self, n)
        return Expr("rpow", self, n)

    def __abs__(self):
        return Expr("fn", "abs", self)

    def sqrt(self):
        if self.is_const(0) or self.is_const(1):
            return self
        return Expr("fn", "sqrt", self)

    def log(self):
        return Expr("fn", "log", self)

    def exp(self):
        return Expr("fn", "exp", self)

    def sin(self):
        return Expr("fn", "sin", self)

    def cos(self):
        return Expr("fn", "cos", self)

    def arccos(self):
        return Expr("fn", "arccos", self)

    def sign(self):
        return Expr("fn", "sign", self)

    def __repr__(self):
        return to_text(self)

    def __float__(self):
        raise TraceError("float() of a symbolic expression")


def lift(o):
    if isinstance(o, Expr):
        return o
    if isinstance(o, (int, float, np.integer, np.floating, Fraction)) and not isinstance(o, bool):
        return Expr.const(o)
    if isinstance(o, complex):
        raise TraceError("complex constant")
    return NotImplemented


ZERO = Expr("const", Fraction(0))
ONE = Expr("const", Fraction(1))


def D(axis, e):
    e = lift(e)
    return Expr("D", axis, e)


def to_text(e):
    op = e.op
    if op == "const":
        return str(e.args[0])
    if op == "sym":
        return e.args[0] + "".join("_%d" % i for i in e.args[1])
    if op in ("add", "sub", "mul", "div", "sdiv"):
        s = {"add": "+", "sub": "-", "mul": "*", "div": "/", "sdiv": "//"}[op]
        return "(%s %s %s)" % (to_text(e.args[0]), s, to_text(e.args[1]))
    if op == "neg":
        return "-%s" % to_text(e.args[0])
    if op == "pow":
        return "%s^%d" % (to_text(e.args[0]), e.args[1])
    if op == "rpow":
        return "%s^(%s)" % (to_text(e.args[0]), e.args[1])
    if op == "fn":
        return "%s(%s)" % (e.args[0], to_text(e.args[1]))
    if op == "D":
        return "D%d(%s)" % (e.args[0], to_text(e.args[1]))
    raise TraceError("unknown op " + op)


def symbols_of(e, acc=None, seen=None):
    acc = set() if acc is None else acc
    seen = set() if seen is None else seen
    stack = [e]
    while stack:
        x = stack.pop()
        if id(x) in seen:
            continue
        seen.add(id(x))
        if x.op == "sym":
            acc.add(x.args[0])
        for a in x.args:
            if isinstance(a, Expr):
                stack.append(a)
    return acc


def sym_key(base, idx=()):
    return base + "".join("_%d" % i for i in idx)


def check_plain_divisions(e, allowed=("kappa",)):
    """A plain Python `/` is only accepted when its divisor is a constant or
    built from `allowed` symbols (x/0 = 0 must not enter silently)."""
    seen = set()
    stack = [e]
    while stack:
        x = stack.pop()
        if id(x) in seen:
            continue
        seen.add(id(x))
        if x.op == "div":
            bad = symbols_of(x.args[1]) - set(allowed)
            if bad:
                raise TraceError("plain division by a non-constant expression involving %s" % sorted(bad))
        for a in x.args:
            if isinstance(a, Expr):
                stack.append(a)


def evaluate(e, env, opaque, memo=None):
    """Exact evaluation with Fractions. env: sym name -> Fraction;
    opaque(name, arg_value, arg_expr) for fn / rpow / D nodes."""
    memo = {} if memo is None else memo
    stack = [(e, False)]
    while stack:
        x, ready = stack.pop()
        if x in memo:
            continue
        if not ready:
            stack.append((x, True))
            for a in x.args:
                if isinstance(a, Expr) and a not in memo:
                    stack.append((a, False))
            continue
        op = x.op
        if op == "const":
            v = x.args[0]
        elif op == "sym":
            v = env[sym_key(x.args[0], x.args[1])]
        elif op == "add":
            v = memo[x.args[0]] + memo[x.args[1]]
        elif op == "sub":
            v = memo[x.args[0]] - memo[x.args[1]]
        elif op == "mul":
            v = memo[x.args[0]] * memo[x.args[1]]
        elif op in ("div", "sdiv"):
            d = memo[x.args[1]]
            v = Fraction(0) if d == 0 else memo[x.args[0]] / d
        elif op == "neg":
            v = -memo[x.args[0]]
        elif op == "pow":
            b, n = memo[x.args[0]], x.args[1]
            v = (Fraction(0) if b == 0 else b ** n) if n < 0 else b ** n
        elif op == "rpow":
            v = opaque("rpow:%s" % x.args[1], memo[x.args[0]], x.args[0])
        elif op == "fn":
            v = opaque(x.args[0], memo[x.args[1]], x.args[1])
        elif op == "D":
            v = opaque("D%d" % x.args[0], None, x.args[1])
        else:
            raise TraceError(op)
        memo[x] = v
    return memo[e]


# ----------------------------------------------------------------------------
# symbolic tensors
# ----------------------------------------------------------------------------
GRID = (1, 1, 1)


def symtensor(name, shape):
    a = np.empty(tuple(shape) + GRID, dtype=object)
    for idx in np.ndindex(*shape):
        a[idx + (0, 0, 0)] = Expr.sym(name, idx)
    return a


def components(arr, shape=None):
    """object array (shape + GRID) or Expr/number -> nested python lists of Expr."""
    if isinstance(arr, Expr):
        return arr
    if isinstance(arr, (int, float)):
        return Expr.const(arr)
    a = np.asarray(arr, dtype=object)
    if a.shape[-3:] != GRID:
        # a grid-less scalar/array (e.g. plain python scalar arithmetic)
        if a.shape == ():
            return lift(a.item())
        raise TraceError("unexpected array shape %s" % (a.shape,))
    t = a[..., 0, 0, 0]
    if t.shape == ():
        return lift(t.item())
    return np.vectorize(lambda v: lift(v), otypes=[object])(t)


class NumpyShim:
    """`np` as seen by the traced modules: numpy, except constructors of
    constant grids return object arrays so symbolic entries can be stored."""

    def __init__(self):
        self.__dict__["_np"] = np

    def __getattr__(self, name):
        return getattr(np, name)

    @staticmethod
    def zeros(shape, *a, **k):
        return np.full(shape, ZERO, dtype=object)

    @staticmethod
    def ones(shape, *a, **k):
        return np.full(shape, ONE, dtype=object)

    @staticmethod
    def zeros_like(x, *a, **k):
        return np.full(np.shape(x), ZERO, dtype=object)

    @staticmethod
    def sort(x, *a, **k):
        return np.sort(x, *a, **k)


def safe_division_traced(a, b):
    """maths.safe_division on tracer values: elementwise field division with
    numpy broadcasting."""
    f = np.frompyfunc(lambda x, y: lift(x).sdiv(lift(y)), 2, 1)
    r = f(a, b)
    return r
