"""Translation validation of the tracer: every traced alternative is evaluated
(on whole grid arrays, with the real finite-difference operators standing for
`D`) and compared with the real method run on the same inputs."""
import os

import numpy as np

from . import coretrace
from . import trace as T


def eval_arrays(e, env, fd, memo):
    """Evaluate an Expr with numpy arrays as symbol values."""
    stack = [(e, False)]
    while stack:
        x, ready = stack.pop()
        if x in memo:
            continue
        if not ready:
            stack.append((x, True))
            for a in x.args:
                if isinstance(a, T.Expr) and a not in memo:
                    stack.append((a, False))
            continue
        op = x.op
        if op == "const":
            v = float(x.args[0])
        elif op == "sym":
            v = env[T.sym_key(x.args[0], x.args[1])]
        elif op == "add":
            v = memo[x.args[0]] + memo[x.args[1]]
        elif op == "sub":
            v = memo[x.args[0]] - memo[x.args[1]]
        elif op == "mul":
            v = memo[x.args[0]] * memo[x.args[1]]
        elif op in ("div", "sdiv"):
            a, b = memo[x.args[0]], memo[x.args[1]]
            with np.errstate(divide="ignore", invalid="ignore"):
                v = np.where(np.asarray(b) != 0, np.asarray(a) / np.asarray(b), 0.0)
        elif op == "neg":
            v = -memo[x.args[0]]
        elif op == "pow":
            b, n = memo[x.args[0]], x.args[1]
            if n >= 0:
                v = b ** n
            else:
                with np.errstate(divide="ignore", invalid="ignore"):
                    v = np.asarray(b, dtype=float) ** float(n)
        elif op == "rpow":
            with np.errstate(invalid="ignore"):
                v = np.asarray(memo[x.args[0]], dtype=float) ** float(x.args[1])
        elif op == "fn":
            a = memo[x.args[1]]
            with np.errstate(invalid="ignore", divide="ignore"):
                v = {"abs": np.abs, "sqrt": np.sqrt, "log": np.log, "exp": np.exp, "sin": np.sin,
                     "cos": np.cos, "arccos": np.arccos, "sign": np.sign}[x.args[0]](np.asarray(a, dtype=float))
        elif op == "D":
            a = memo[x.args[1]]
            a = np.broadcast_to(np.asarray(a, dtype=float), fd.x.shape).copy()
            v = (fd.d3x, fd.d3y, fd.d3z)[x.args[0]](a)
        else:
            raise T.TraceError(op)
        memo[x] = v
    return memo[e]


def rand_field(rng, shape, grid, name=""):
    a = rng.integers(-3, 4, size=tuple(shape) + grid).astype(float)
    # smooth variation so finite differences are non-trivial, still exactly representable
    a = a + rng.integers(-2, 3, size=tuple(shape) + (1, 1, 1)).astype(float) * 0.5
    # arguments of sqrt / log / fractional powers must be in their domain
    if name in ("gammadet", "psi_bssnok", "alpha", "w_lorentz"):
        a = np.abs(a) + 1.0
    if name == "gdet":
        a = -(np.abs(a) + 1.0)
    if name in ("gdown4", "gammadown3"):
        for i in range(shape[0]):
            a[i, i] = np.abs(a[i, i]) + 1.0
    return a


def validate(results, shapes, seed=0, N=6, names=None):
    """Returns (report, n_checked, mismatches, skipped)."""
    import aurel
    rng = np.random.default_rng(seed)
    grid = (N, N + 1, N + 2)
    param = {"Nx": grid[0], "Ny": grid[1], "Nz": grid[2], "xmin": -0.5, "ymin": 0.25, "zmin": -1.0,
             "dx": 0.5, "dy": 0.25, "dz": 1.0}
    fd = aurel.FiniteDifference(param, fd_order=2, verbose=False)
    coretrace.register_helpers()
    helper_calls = dict(coretrace.HELPERS)
    mism, skipped, checked = [], [], 0
    for name, alts in results.items():
        if names is not None and name not in names:
            continue
        for ai, a in enumerate(alts):
            present = set(a["present_sets"][0])
            absent_guards = set(a["guard_keys"]) - present
            if absent_guards & set(a["deps"]):
                skipped.append((name, ai, "a dependency is a guard key that must be absent"))
                continue
            rel = aurel.AurelCore(fd, verbose=False, vacuum=bool(a["vacuum"]), Lambda=0.25,
                                  clear_cache_every_nbr_calc=10 ** 9, memory_threshold_inGB=10 ** 6)
            env = {"kappa": rel.kappa, "Lambda": 0.25, "coord_x": fd.x, "coord_y": fd.y, "coord_z": fd.z,
                   "weight": 0.75}
            for dep in list(a["deps"]) + [p for p in present if p not in a["deps"]]:
                shp = shapes.get(dep)
                if shp is None:
                    continue
                if isinstance(shp, list):
                    vals = tuple(rand_field(rng, s, grid) for s in shp)
                    rel.data[dep] = vals
                    for i, (s, v) in enumerate(zip(shp, vals)):
                        for idx in np.ndindex(*s):
                            env["%s_%d" % (dep, i) + "".join("_%d" % j for j in idx)] = v[idx]
                    continue
                v = rand_field(rng, shp, grid, dep)
                rel.data[dep] = v
                for idx in np.ndindex(*shp):
                    env[dep + "".join("_%d" % j for j in idx)] = v[idx]
            # helper arguments
            args = {}
            for sname in ("f", "dtf", "a", "b", "Rssss", "Rssst", "Rstst") + tuple("c%d" % i for i in range(10)):
                args[sname] = None
            try:
                if name in helper_calls:
                    # re-create the symbolic argument shapes by tracing names used in comps
                    syms = set()
                    comps = a["comps"]
                    for e in (np.ravel(comps) if isinstance(comps, np.ndarray) else [comps]):
                        T.symbols_of(e, syms)
                    out = call_helper_real(name, rel, rng, grid, env, syms)
                else:
                    out = getattr(rel, name)()
            except Exception as ex:  # noqa
                mism.append((name, ai, "real code raised %r" % ex))
                continue
            out = np.asarray(out, dtype=float)
            comps = a["comps"]
            memo = {}
            ok = True
            if isinstance(comps, np.ndarray):
                if tuple(out.shape[:-3]) != comps.shape:
                    mism.append((name, ai, "shape real %s traced %s" % (out.shape, comps.shape)))
                    continue
                for idx in np.ndindex(*comps.shape):
                    v = np.broadcast_to(np.asarray(eval_arrays(comps[idx], env, fd, memo), dtype=float), grid)
                    if not np.allclose(v, out[idx], rtol=1e-9, atol=1e-9, equal_nan=True):
                        mism.append((name, ai, "component %s differs: max |d| = %g" % (idx, np.nanmax(np.abs(v - out[idx])))))
                        ok = False
                        break
            else:
                v = np.broadcast_to(np.asarray(eval_arrays(comps, env, fd, memo), dtype=float), grid)
                if not np.allclose(v, out, rtol=1e-9, atol=1e-9, equal_nan=True):
                    mism.append((name, ai, "scalar differs: max |d| = %g" % np.nanmax(np.abs(v - out))))
                    ok = False
            checked += 1 if ok else 0
    return checked, mism, skipped


def call_helper_real(name, rel, rng, grid, env, syms):
    """Run the real helper with random argument arrays and bind their symbols."""
    import aurel.maths as maths

    def arg(nm, shp):
        v = rand_field(rng, shp, grid)
        for idx in np.ndindex(*shp):
            env[nm + "".join("_%d" % j for j in idx)] = v[idx]
        return v
    if name.startswith("s_covd_"):
        ix = name[len("s_covd_"):]
        ix = "" if ix == "scalar" else ix
        return rel.s_covd(arg("f", (3,) * len(ix)), ix)
    if name.startswith("st_covd_"):
        ix = name[len("st_covd_"):]
        ix = "" if ix == "scalar" else ix
        return rel.st_covd(arg("f", (4,) * len(ix)), arg("dtf", (4,) * len(ix)), ix)
    if name.startswith("s_div_"):
        ix = name[len("s_div_"):]
        return rel.s_div(arg("f", (3,) * len(ix)), ix)
    if name == "s_curl_dd":
        return rel.s_curl(arg("f", (3, 3)), "dd")
    if name.startswith("Lie_beta_"):
        w = name.startswith("Lie_beta_w_")
        ix = name[len("Lie_beta_w_" if w else "Lie_beta_"):]
        ix = "" if ix == "scalar" else ix
        dim = 4 if ix.startswith("st_") else 3
        rank = len(ix.split("_")[1]) if ix else 0
        return rel.Lie_beta(arg("f", (dim,) * rank), ix, weight=env["weight"] if w else 0)
    if name == "s_to_st":
        return rel.s_to_st(arg("f", (3, 3)))
    if name in ("trace3", "tracefree3", "magnitude3"):
        return getattr(rel, name)(arg("f", (3, 3)))
    if name in ("trace4", "magnitude4"):
        return getattr(rel, name)(arg("f", (4, 4)))
    if name in ("vector_inner_product3", "vector_inner_product4"):
        d = int(name[-1])
        return getattr(rel, name)(arg("a", (d,)), arg("b", (d,)))
    if name in ("norm3", "norm4"):
        return getattr(rel, name)(arg("a", (int(name[-1]),)))
    if name in ("levicivita_symbol_down3", "levicivita_symbol_down4", "levicivita_down3", "levicivita_down4",
                "kronecker_delta3", "kronecker_delta4"):
        return getattr(rel, name)()
    if name.startswith("dtconserved_"):
        return rel.dtconserved()[int(name[-1])]
    if name.startswith("maths_"):
        fn = name[len("maths_"):]
        if fn in ("determinant3", "inverse3"):
            return getattr(maths, fn)(arg("f", (3, 3)))
        if fn in ("determinant4", "inverse4", "symmetrise_tensor", "antisymmetrise_tensor"):
            return getattr(maths, fn)(arg("f", (4, 4)))
        if fn == "format_rank2_3":
            return maths.format_rank2_3([arg("c%d" % i, ()) for i in range(6)])
        if fn == "format_rank2_4":
            return maths.format_rank2_4([arg("c%d" % i, ()) for i in range(10)])
        if fn == "populate_4Riemann":
            return maths.populate_4Riemann(arg("Rssss", (3, 3, 3, 3)), arg("Rssst", (3, 3, 3)), arg("Rstst", (3, 3)))
    if name.startswith("tetrad_"):
        rel.tetrad = "quasi-Kinnersley" if "_qK_" in name else "fluid"
        return rel.tetrad_base()[int(name[-1])]
    raise T.TraceError("no real call for helper " + name)


def validate_printer(results, shapes, index, seed=0, timeout=1800):
    """Printer validation: the generated Lean TEXT is evaluated over ℚ by
    Gen/CoreEval.lean on a random flat input and compared, exactly, with the
    evaluation of the traced DAG with Fractions (same stand-ins for D and the
    opaque functions on both sides). Returns (n_defs, mismatches)."""
    import random
    import subprocess
    from fractions import Fraction
    from lib import fw
    from . import emit_core
    rnd = random.Random(seed)
    lay, n = emit_core.env_layout(shapes)

    def rq():
        return Fraction(rnd.randint(-9, 9) or 1, rnd.randint(1, 5))
    a = [rq() for _ in range(n)]
    g = [rq() for _ in range(len(emit_core.ARG_ORDER) * emit_core.ARG_STRIDE)]
    env = {}
    for nm, (off, shp) in lay.items():
        if not shp:
            env[nm] = a[off]
        else:
            for k, idx in enumerate(np.ndindex(*shp)):
                env[T.sym_key(nm, idx)] = a[off + k]

    def opaque(name, val, arg_expr):
        if name.startswith("D"):
            return (int(name[1:]) + 2) * opaque.ev(arg_expr)
        if name == "sqrt":
            return val * val + 1
        if name == "log":
            return val + 3
        if name == "exp":
            return 2 * val - 1
        if name == "abs":
            return val * val
        if name.startswith("rpow:"):
            fr = Fraction(name[5:])
            return val * fr + 1
        raise T.TraceError("no stand-in for " + name)
    fmt = lambda q: "%d/%d" % (q.numerator, q.denominator)
    inp = " ".join(fmt(q) for q in a) + "\n" + " ".join(fmt(q) for q in g) + "\n"
    # native executable (no Mathlib in its import closure): `lake build coreeval`
    import fcntl
    lock = open(os.path.join(fw.LEAN, ".build.lock"), "w")
    fcntl.flock(lock, fcntl.LOCK_EX)
    try:
        b = subprocess.run(["timeout", str(timeout), "lake", "build", "coreeval"], cwd=fw.LEAN, capture_output=True, text=True)
    finally:
        fcntl.flock(lock, fcntl.LOCK_UN)
        lock.close()
    if b.returncode != 0:
        return 0, ["lake build coreeval failed: " + (b.stdout + b.stderr)[-600:]]
    p = subprocess.run(["timeout", str(timeout), os.path.join(fw.LEAN, ".lake", "build", "bin", "coreeval")],
                       cwd=fw.LEAN, input=inp, capture_output=True, text=True)
    # (the Lean 4.33 interpreter can crash in its destructor AFTER main has finished and
    # flushed; the END sentinel tells whether the output is complete)
    if "\nEND" not in p.stdout:
        return 0, ["CoreEval driver failed (rc %s): " % p.returncode + (p.stderr or p.stdout)[-400:]]
    lean_vals = {}
    for line in p.stdout.split("\n"):
        parts = line.split()
        if parts:
            lean_vals[parts[0]] = [Fraction(x) for x in parts[1:]]
    mism, ndefs = [], 0
    byname = {}
    for name, alts in results.items():
        for al in alts:
            byname[name + emit_core.alt_suffix(al, len(alts))] = (name, al)
    for i in index:
        if i["status"] != "ok":
            continue
        name, al = byname[i["name"]]
        argsh = emit_core.helper_arg_shapes(name)
        env2 = dict(env)
        for an, shp in argsh.items():
            off = emit_core.ARG_ORDER.index(an) * emit_core.ARG_STRIDE
            if not shp:
                env2[an] = g[off]
            else:
                for k, idx in enumerate(np.ndindex(*shp)):
                    env2[T.sym_key(an, idx)] = g[off + k]
        memo = {}
        opaque.ev = lambda e_, env2=env2, memo=memo: T.evaluate(e_, env2, opaque, memo)
        comps = al["comps"]
        exprs = list(np.ravel(comps)) if isinstance(comps, np.ndarray) else [comps]
        vals = [T.evaluate(e_, env2, opaque, memo) for e_ in exprs]
        got = lean_vals.get(i["name"])
        ndefs += 1
        if got is None or len(got) != len(vals) or any(x != y for x, y in zip(got, vals)):
            mism.append("%s: Lean text evaluates differently from the traced DAG" % i["name"])
    return ndefs, mism
