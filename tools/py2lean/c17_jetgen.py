"""Developer tool for C17 (NOT run by ./check): writes the algebraic "jet family" lemma files
lean/AurelVerif/Lemmas/C17Jet<Family>.lean.

A jet family is a 2-jet of a metric (Spec/Jet4.lean) whose entries are rational functions of a few
field variables ("atoms").  For each family this script computes, with sympy, closed-form tables
of the Christoffel symbols, of d(g^-1), of dGamma, of the Ricci tensor, the Ricci scalar and the
Einstein tensor (optionally the Riemann tensor and the Kretschmann scalar) and prints Lean source in
which every table is PROVEN equal to the textbook definition of Spec/Jet4.lean
(`simp only` unfolding + `field_simp` + `ring`).  Nothing computed here is trusted: a wrong table
makes the Lean proof fail.  The output files are ordinary hand-maintainable Lean source.

usage:  /venv/bin/python tools/py2lean/c17_jetgen.py [Family ...]
"""
import os
import sys

import sympy as sp

LEAN = os.path.join(os.path.dirname(os.path.abspath(__file__)), "..", "..", "lean", "AurelVerif", "Lemmas")
R4 = range(4)
SIMPS = "Matrix.cons_val_zero, Matrix.cons_val_one, Matrix.cons_val"


# ----------------------------------------------------------------- printing
def lean(e):
    """Lean source of a sympy rational expression in symbols (over a field K)."""
    e = sp.sympify(e)
    if e.is_Symbol:
        return str(e)
    if e.is_Integer:
        return "(%d:K)" % e if e >= 0 else "(-%d:K)" % (-e)
    if e.is_Rational:
        return "((%d:K) / %d)" % (e.p, e.q) if e.p >= 0 else "(-(%d:K) / %d)" % (-e.p, e.q)
    if e.is_Add:
        c, prim = e.primitive()
        for n in CANON:                     # print sums that are assumed non-zero in ONE syntactic form
            if n.is_Add:
                if sp.expand(prim - n) == 0 and (c != 1 or prim != e):
                    return lean_sum(n) if c == 1 else "(%s * %s)" % (lean(c), lean_sum(n))
                if sp.expand(prim + n) == 0:
                    return "(%s * %s)" % (lean(-c), lean_sum(n))
        if c != 1:
            return "(%s * %s)" % (lean(c), lean_sum(prim))
        return lean_sum(e)
    if e.is_Mul:
        c, r = e.as_coeff_Mul()
        if c.is_negative:
            return "(-" + lean_mulside(-e) + ")"
        num, den = e.as_numer_denom()
        if den != 1:
            return "(" + lean(num) + " / " + lean(den) + ")"
        return "(" + " * ".join(lean(f) for f in e.as_ordered_factors()) + ")"
    if e.is_Pow:
        b, p = e.as_base_exp()
        if p.is_Integer and p > 0:
            return "%s ^ (%d:ℕ)" % (lean(b), p)
        if p.is_Integer and p < 0:
            return "(1 / %s)" % lean(b ** (-p))
    raise ValueError("cannot print %r" % (e,))


def lean_sum(e):
    terms = e.as_ordered_terms()
    s = lean(terms[0])
    for t in terms[1:]:
        c, r = t.as_coeff_Mul()
        if c.is_negative:
            s += " - " + lean_mulside(-t)
        else:
            s += " + " + lean_mulside(t)
    return "(" + s + ")"


CANON = []


def sum_variants(e, limit=48):
    """syntactic variants of a sum (atom order inside each monomial, numeral first/last): `field_simp` reorders the
    atoms of a product by first occurrence in the goal and then needs a hypothesis of exactly that shape."""
    import itertools
    terms = e.as_ordered_terms()
    per_term = []
    for t in terms:
        c, r = t.as_coeff_Mul()
        facs = [] if r == 1 else list(r.as_ordered_factors())
        forms = []
        for perm in itertools.permutations(facs):
            body = " * ".join(lean(f) for f in perm)
            if abs(c) == 1 and facs:
                forms.append(body)
            elif not facs:
                forms.append(lean(abs(c)))
            else:
                forms.append(body + " * " + lean(abs(c)))
                forms.append(lean(abs(c)) + " * " + body)
        per_term.append((c < 0, forms))
    out = []
    for combo in itertools.product(*[f for _, f in per_term]):
        s = ""
        for i, ((neg, _), f) in enumerate(zip(per_term, combo)):
            if i == 0:
                s = ("-" + f) if neg else f
            else:
                s += (" - " if neg else " + ") + f
        out.append(s)
        if len(out) >= limit:
            break
    return out


def lean_mulside(e):
    s = lean(e)
    return s


def nice(e):
    """canonical compact rational form"""
    e = sp.cancel(sp.together(e))
    if e == 0:
        return sp.Integer(0)
    n, d = sp.fraction(e)
    return sp.factor(n) / sp.factor(d)


def vec(xs):
    return "![" + ", ".join(xs) + "]"


def tab(f, rank):
    """nested ![...] of f(i1,...,irank)"""
    def rec(idx):
        if len(idx) == rank:
            return lean(f(*idx))
        return vec([rec(idx + (i,)) for i in R4])
    return rec(())


# ------------------------------------------------------------------ family
class Family:
    def __init__(self, name, atoms, nonzero, g, rules, doc, riemann=False, relation=None, kr_closed=None):
        """atoms: list of sympy symbols (Lean variable names = str(symbol));
        nonzero: list of sympy expressions assumed != 0 (hypotheses of every lemma);
        g: 4x4 Matrix in the atoms; rules: dict atom -> [d_t, d_x, d_y, d_z] (expressions in atoms);
        atoms not in rules are constants."""
        self.name, self.atoms, self.nonzero, self.g, self.rules, self.doc = name, atoms, nonzero, g, rules, doc
        self.riemann = riemann
        # relation = (polynomial that vanishes, main variable for division, Lean hypothesis "lhs = rhs" with lhs - rhs = polynomial)
        self.relation, self.kr_closed = relation, kr_closed

    def norm_line(self):
        """tactic text putting variants of the non-vanishing hypotheses into the context"""
        n = "".join("have h%dn := h%d; " % (i, i) for i in range(len(self.nonzero))) + \
            "".join("(try ring_nf at h%dn); " % i for i in range(len(self.nonzero)))
        for i, e in enumerate(self.nonzero):
            e = sp.sympify(e)
            if e.is_Add:
                for j, v in enumerate(sum_variants(e)):
                    n += "have h%dv%d : %s ≠ 0 := fun hh => h%d (by linear_combination hh); " % (i, j, v, i)
        return n

    def D(self, e, c):
        return sum(sp.diff(e, a) * self.rules[a][c] for a in self.atoms if a in self.rules)

    def compute(self):
        g = self.g
        self.gi = g.inv().applyfunc(nice)
        self.dg = [[[nice(self.D(g[a, b], c)) for b in R4] for a in R4] for c in R4]
        self.ddg = [[[[nice(self.D(self.dg[d][a][b], c)) for b in R4] for a in R4] for d in R4] for c in R4]
        gi, dg, ddg = self.gi, self.dg, self.ddg
        for c in R4:
            for d in R4:
                for a in R4:
                    for b in R4:
                        assert sp.cancel(ddg[c][d][a][b] - ddg[d][c][a][b]) == 0, "mixed partials differ: rules inconsistent"
        Gl = [[[(dg[b][d][c] + dg[c][d][b] - dg[d][b][c]) / 2 for c in R4] for b in R4] for d in R4]
        self.Gam = [[[nice(sum(gi[a, d] * Gl[d][b][c] for d in R4)) for c in R4] for b in R4] for a in R4]
        self.dgi = [[[nice(-sum(gi[a, i] * dg[e][i][j] * gi[j, b] for i in R4 for j in R4)) for b in R4] for a in R4] for e in R4]
        dGl = [[[[(ddg[e][b][d][c] + ddg[e][c][d][b] - ddg[e][d][b][c]) / 2 for c in R4] for b in R4] for d in R4] for e in R4]
        self.dGam = [[[[nice(sum(self.dgi[e][a][d] * Gl[d][b][c] + gi[a, d] * dGl[e][d][b][c] for d in R4))
                        for c in R4] for b in R4] for a in R4] for e in R4]
        Gam, dGam = self.Gam, self.dGam
        # consistency of the product rule with direct differentiation of Gamma
        for e in R4:
            for a in R4:
                for b in R4:
                    for c in R4:
                        assert sp.cancel(self.D(Gam[a][b][c], e) - dGam[e][a][b][c]) == 0
        self.Riem = [[[[nice(dGam[c][a][d][b] - dGam[d][a][c][b]
                             + sum(Gam[a][c][e] * Gam[e][d][b] - Gam[a][d][e] * Gam[e][c][b] for e in R4))
                        for d in R4] for c in R4] for b in R4] for a in R4]
        self.Ric = [[nice(sum(self.Riem[a][b][a][d] for a in R4)) for d in R4] for b in R4]
        self.RicS = nice(sum(gi[b, d] * self.Ric[b][d] for b in R4 for d in R4))
        self.G = [[nice(self.Ric[a][b] - self.RicS * g[a, b] / 2) for b in R4] for a in R4]
        if self.riemann:
            self.Ruudd = [[[[nice(sum(gi[b, f] * self.Riem[a][f][c][d] for f in R4)) for d in R4] for c in R4] for b in R4] for a in R4]
            self.Kr = nice(sum(self.Ruudd[a][b][c][d] * self.Ruudd[c][d][a][b] for a in R4 for b in R4 for c in R4 for d in R4))

    # --------------------------------------------------------------- output
    def emit(self):
        self.compute()
        CANON[:] = [sp.sympify(e) for e in self.nonzero if sp.sympify(e).is_Add]
        n = self.name
        av = " ".join(str(a) for a in self.atoms)
        binder = "(%s : K)" % av
        hyps = " ".join("(h%d : %s ≠ 0)" % (i, lean_sum(e) if sp.sympify(e).is_Add else lean(e)) for i, e in enumerate(self.nonzero))
        hv = " ".join("h%d" % i for i in range(len(self.nonzero)))
        L = []
        w = L.append
        w("/-")
        w("Lemmas/C17Jet%s.lean — written by tools/py2lean/c17_jetgen.py (developer tool, not run by ./check);" % n)
        w("ordinary Lean source from then on.  %s" % self.doc)
        w("")
        w("`jet` is a 2-jet of a metric in the sense of Spec/Jet4.lean whose entries are rational functions of")
        w("the field variables `%s`.  Each `…T` table below is PROVEN equal to the textbook definition of" % av)
        w("Spec/Jet4.lean (Christoffel symbols, derivative of the inverse metric, derivative of the")
        w("Christoffel symbols, Ricci tensor, Ricci scalar, Einstein tensor%s); the tables" % (", Riemann tensor, Kretschmann scalar" if self.riemann else ""))
        w("themselves carry no authority.")
        w("-/")
        w("import AurelVerif.Lemmas.C17JetTac")
        w("")
        w("set_option linter.unusedVariables false")
        w("set_option linter.unusedTactic false")
        w("set_option linter.unreachableTactic false")
        w("set_option linter.unusedSimpArgs false")
        w("set_option linter.style.longLine false")
        w("set_option linter.unusedSectionVars false")
        w("")
        w("namespace AurelVerif.C17Jet.%s" % n)
        w("open AurelVerif.Spec.Jet4 AurelVerif.Spec.Curvature AurelVerif.C17JetTac")
        w("variable {K : Type} [Field K] [CharZero K]")
        w("")
        w("set_option maxHeartbeats 1000000 in")
        w("/-- the 2-jet: `g`, `gi = g⁻¹`, `dg c a b = ∂_c g_ab`, `ddg c d a b = ∂_c ∂_d g_ab`. -/")
        w("def jet %s : Jet2 K where" % binder)
        w("  g := " + tab(lambda a, b: self.g[a, b], 2))
        w("  gi := " + tab(lambda a, b: self.gi[a, b], 2))
        w("  dg := " + tab(lambda c, a, b: self.dg[c][a][b], 3))
        w("  ddg := " + tab(lambda c, d, a, b: self.ddg[c][d][a][b], 4))
        w("")
        w("theorem jet_inverse %s %s : (jet %s).IsInverse := by" % (binder, hyps, av))
        w("  " + self.norm_line())
        w("  refine forall4 ?_ ?_ ?_ ?_ <;> refine forall4 ?_ ?_ ?_ ?_ <;>")
        w("    (simp only [jet, Fin.sum_univ_four, Fin.isValue, Fin.reduceEq, if_true, if_false, reduceIte, %s]; jet_close)" % SIMPS)
        w("")
        w("set_option maxHeartbeats 1000000 in")
        w("theorem jet_symm %s : (jet %s).IsSymm := by" % (binder, av))
        w("  refine ⟨?_, ?_, ?_, ?_, ?_⟩")
        w("  · " + " <;> ".join(["refine forall4 ?_ ?_ ?_ ?_"] * 2) + " <;> rfl")
        w("  · " + " <;> ".join(["refine forall4 ?_ ?_ ?_ ?_"] * 2) + " <;> rfl")
        w("  · " + " <;> ".join(["refine forall4 ?_ ?_ ?_ ?_"] * 3) + " <;> rfl")
        w("  · " + " <;> ".join(["refine forall4 ?_ ?_ ?_ ?_"] * 4) + " <;> rfl")
        w("  · " + " <;> ".join(["refine forall4 ?_ ?_ ?_ ?_"] * 4) + " <;> rfl")
        w("")

        def stage(thm, lhs, tname, rank, table, unfold, prev, doc):
            ty = " → ".join(["Fin 4"] * rank + ["K"]) if rank else "K"
            w("set_option maxHeartbeats 1000000 in")
            w("/-- %s -/" % doc)
            w("def %s %s : %s :=" % (tname, binder, ty))
            w("  " + (tab(table, rank) if rank else lean(table)))
            rw = ", ".join(["%s %s %s" % (p, av, hv) for p in prev])
            prevT = "".join(p.replace("_eq", "T") + ", " for p in prev)
            norm = self.norm_line()
            tac = "(simp only [%s%s]; simp only [%s%s, jet, Fin.sum_univ_four, %s]; jet_close)" % (
                unfold, (", " + rw) if rw else "", prevT, tname, SIMPS)
            if rank == 4:
                for i in R4:
                    w("set_option maxHeartbeats 1000000 in")
                    w("theorem %s_%d %s %s : (jet %s).%s %d = %s %s %d := by" % (thm, i, binder, hyps, av, lhs, i, tname, av, i))
                    w("  " + norm)
                    w("  " + " <;> ".join(["refine funext4 ?_ ?_ ?_ ?_"] * 3) + " <;>")
                    w("    " + tac)
                w("theorem %s %s %s : (jet %s).%s = %s %s :=" % (thm, binder, hyps, av, lhs, tname, av))
                w("  funext4 " + " ".join("(%s_%d %s %s)" % (thm, i, av, hv) for i in R4))
            else:
                w("set_option maxHeartbeats 1000000 in")
                w("theorem %s %s %s : (jet %s).%s = %s %s := by" % (thm, binder, hyps, av, lhs, tname, av))
                w("  " + norm)
                if rank:
                    w("  " + " <;> ".join(["refine funext4 ?_ ?_ ?_ ?_"] * rank) + " <;>")
                w("    " + tac)
            w("")

        stage("Gam_eq", "Gam", "GamT", 3, lambda a, b, c: self.Gam[a][b][c], "Jet2.Gam, christoffel, christoffel1", [],
              "`Γ^a_{bc}`")
        stage("dgi_eq", "dgi", "dgiT", 3, lambda e, a, b: self.dgi[e][a][b], "Jet2.dgi", [], "`∂_e g^{ab}`")
        stage("dGam_eq", "dGam", "dGamT", 4, lambda e, a, b, c: self.dGam[e][a][b][c],
              "Jet2.dGam, Jet2.Gl, Jet2.dGl, christoffel1", ["dgi_eq"], "`∂_e Γ^a_{bc}`")
        if self.riemann:
            stage("Riem_eq", "Riem", "RiemT", 4, lambda a, b, c, d: self.Riem[a][b][c][d], "Jet2.Riem", ["Gam_eq", "dGam_eq"],
                  "`R^a_{bcd}`")
            stage("Ric_eq", "Ric", "RicT", 2, lambda a, b: self.Ric[a][b], "Jet2.Ric, ricci", ["Riem_eq"], "`R_ab`")
            stage("Ruudd_eq", "Ruudd", "RuuddT", 4, lambda a, b, c, d: self.Ruudd[a][b][c][d], "Jet2.Ruudd", ["Riem_eq"],
                  "`R^{ab}_{cd}`")
            stage("Kretschmann_eq", "Kretschmann", "KretschmannT", 0, self.Kr, "Jet2.Kretschmann, kretschmann", ["Ruudd_eq"],
                  "`R^{ab}_{cd} R^{cd}_{ab}`")
        else:
            stage("Ric_eq", "Ric", "RicT", 2, lambda a, b: self.Ric[a][b], "Jet2.Ric, ricci, Jet2.Riem", ["Gam_eq", "dGam_eq"], "`R_ab`")
        stage("RicS_eq", "RicS", "RicST", 0, self.RicS, "Jet2.RicS, trace", ["Ric_eq"], "`R`")
        stage("Einstein_eq", "Einstein", "EinsteinT", 2, lambda a, b: self.G[a][b], "Jet2.Einstein, einstein", ["Ric_eq", "RicS_eq"],
              "`G_ab = R_ab − ½ R g_ab`")
        if self.relation is not None:
            rel, var, hyp = self.relation
            relb = "(hrel : %s)" % hyp

            def reduce_zero(tname, e, label):
                """lemma: entry e of table tname vanishes modulo the relation"""
                num, den = sp.fraction(sp.together(e))
                q, rem = sp.div(sp.expand(num), rel, var)
                assert rem == 0, (tname, label, rem)
                w("theorem %s_%s %s %s %s : %s = 0 := by" % (tname, label, binder, hyps, relb, lean(e)))
                w("  have hn : %s = 0 := by linear_combination (%s) * hrel" % (lean(sp.expand(num)), lean(sp.factor(q))))
                w("  have e : %s = %s * (%s)⁻¹ := by ring1" % (lean(e), lean(sp.expand(num)), lean(den)))
                w("  rw [e, hn, zero_mul]")
                w("")

            for tname, T, lhs, eqn in (("RicT", self.Ric, "Ric", "Ric_eq"), ("EinsteinT", self.G, "Einstein", "Einstein_eq")):
                labels = []
                for a in R4:
                    for b in R4:
                        if T[a][b] != 0:
                            reduce_zero(tname, T[a][b], "%d_%d" % (a, b))
                            labels.append("%d_%d" % (a, b))
                w("/-- modulo the relation `%s` the tensor vanishes identically (vacuum). -/" % hyp)
                w("theorem %s_vacuum %s %s %s : (jet %s).%s = fun _ _ => 0 := by" % (lhs, binder, hyps, relb, av, lhs))
                w("  rw [%s %s %s]" % (eqn, av, hv))
                w("  refine funext4 ?_ ?_ ?_ ?_ <;> refine funext4 ?_ ?_ ?_ ?_ <;> simp only [%s, %s]" % (tname, SIMPS))
                for lb in labels:
                    w("  · exact %s_%s %s %s hrel" % (tname, lb, av, hv))
                w("")
            if self.riemann and self.kr_closed is not None:
                num, den = sp.fraction(sp.together(self.Kr - self.kr_closed))
                q, rem = sp.div(sp.expand(num), rel, var)
                assert rem == 0
                w("/-- modulo the relation the Kretschmann scalar has the closed form. -/")
                w("theorem Kretschmann_closed %s %s %s : (jet %s).Kretschmann = %s := by" % (binder, hyps, relb, av, lean(self.kr_closed)))
                w("  rw [Kretschmann_eq %s %s]" % (av, hv))
                w("  have hn : %s = 0 := by linear_combination (%s) * hrel" % (lean(sp.expand(num)), lean(sp.factor(q))))
                w("  have e : KretschmannT %s = %s + %s * (%s)⁻¹ := by" % (av, lean(self.kr_closed), lean(sp.expand(num)), lean(den)))
                w("    " + self.norm_line())
                w("    simp only [KretschmannT]; field_simp; ring1")
                w("  rw [e, hn, zero_mul, add_zero]")
                w("")
        w("end AurelVerif.C17Jet.%s" % n)
        txt = "\n".join(L) + "\n"
        path = os.path.join(LEAN, "C17Jet%s.lean" % n)
        open(path, "w").write(txt)
        print("wrote", os.path.normpath(path), len(txt), "bytes")


# ----------------------------------------------------------------- families
def families():
    F = {}
    Z = sp.Integer(0)
    # FLRW: -dt^2 + A(t) (dx^2+dy^2+dz^2), A = a^2
    A, A1, A2 = sp.symbols("A A1 A2")
    F["FLRW"] = Family("FLRW", [A, A1, A2], [A], sp.diag(-1, A, A, A), {A: [A1, Z, Z, Z], A1: [A2, Z, Z, Z]},
                       "Flat FLRW metric `−dt² + A(t) δ_ij dx^i dx^j` with `A1 = ∂_t A`, `A2 = ∂_t² A`.")
    # conformally flat, W = Omega(x)
    W, W1, W2 = sp.symbols("W W1 W2")
    F["ConfFlat"] = Family("ConfFlat", [W, W1, W2], [W], sp.diag(-W**2, W**2, W**2, W**2), {W: [Z, W1, Z, Z], W1: [Z, W2, Z, Z]},
                           "Conformally flat metric `W(x)² η_ab` with `W1 = ∂_x W`, `W2 = ∂_x² W`.")
    # Harvey-Tsoubelis: E = exp(x), B = x + log t
    t, E, B = sp.symbols("t E B")
    one = sp.Integer(1)
    F["HT"] = Family("HT", [t, E, B], [t, E],
                     sp.Matrix([[-1, 0, 0, 0], [0, t**2, 0, 0], [0, 0, t * E, t * E * B], [0, 0, t * E * B, t * E * (B * B + 1)]]),
                     {t: [one, Z, Z, Z], E: [Z, E, Z, Z], B: [1 / t, one, Z, Z]},
                     "Harvey–Tsoubelis Bianchi IV plane-wave metric with `E = exp x`, `B = x + log t` "
                     "(`∂_x E = E`, `∂_t B = 1/t`, `∂_x B = 1`).")
    # Schwarzschild in isotropic coordinates: r = sqrt(x^2+y^2+z^2) (relation r^2 = x^2+y^2+z^2)
    x, y, z, r, M = sp.symbols("x y z r M")
    al, psi = (2 * r - M) / (2 * r + M), 1 + M / (2 * r)
    F["Schw"] = Family("Schw", [x, y, z, r, M], [r, 2 * r + M, 2 * r - M], sp.diag(-al**2, psi**4, psi**4, psi**4),
                       {x: [Z, one, Z, Z], y: [Z, Z, one, Z], z: [Z, Z, Z, one], r: [Z, x / r, y / r, z / r]},
                       "Schwarzschild metric in isotropic coordinates, `−((2r−M)/(2r+M))² dt² + (1+M/(2r))⁴ δ_ij dx^i dx^j`, "
                       "with `r` a field variable such that `∂_i r = x^i/r` (the relation `r² = x²+y²+z²` is used only in the "
                       "final `…_vacuum` / `Kretschmann_closed` theorems).",
                       riemann=True, relation=(r**2 - x**2 - y**2 - z**2, z, "r ^ 2 = x ^ 2 + y ^ 2 + z ^ 2"),
                       kr_closed=48 * M**2 / (r**6 * psi**12))
    # Collins-Stewart Bianchi II, gamma = 4/3: P = t^(1/2), Q = t^(5/4), c = s/(2 gamma)
    t, P, Q, z, c = sp.symbols("t P Q z c")
    F["CS"] = Family("CS", [t, P, Q, z, c], [t, P, Q],
                     sp.Matrix([[-1, 0, 0, 0], [0, P, P * c * z, 0], [0, P * c * z, Q + P * c**2 * z**2, 0], [0, 0, 0, Q]]),
                     {t: [one, Z, Z, Z], z: [Z, Z, Z, one], P: [P / (2 * t), Z, Z, Z], Q: [sp.Rational(5, 4) * Q / t, Z, Z, Z]},
                     "Collins–Stewart Bianchi II metric `−dt² + P dx² + 2 P c z dx dy + (Q + P c² z²) dy² + Q dz²` with "
                     "`∂_t P = P/(2t)`, `∂_t Q = 5Q/(4t)` (i.e. `P = t^{1/2}`, `Q = t^{5/4}`: `γ = 4/3`), `c` constant.")
    # Rosquist-Jantzen Bianchi VI_0 tilted: U = t^(s-q), V = t^(s+q), E = exp(x); k, m, s, q constants
    t, k, m, s_, q, U, V, E = sp.symbols("t k m s q U V E")
    F["RJ"] = Family("RJ", [t, k, m, s_, q, U, V, E], [t, k, U, V, E],
                     sp.Matrix([[-1, 0, 0, 0], [0, k * k * t * t * (1 + m * m), m * k * t * U * E, 0],
                                [0, m * k * t * U * E, U**2 * E**2, 0], [0, 0, 0, V**2 / E**2]]),
                     {t: [one, Z, Z, Z], U: [(s_ - q) * U / t, Z, Z, Z], V: [(s_ + q) * V / t, Z, Z, Z], E: [Z, E, Z, Z]},
                     "Rosquist–Jantzen metric `−dt² + k²t²(1+m²) dx² + 2 m k t U E dx dy + U²E² dy² + V²/E² dz²` with "
                     "`∂_t U = (s−q)U/t`, `∂_t V = (s+q)V/t` (`U = t^{s−q}`, `V = t^{s+q}`), `∂_x E = E` (`E = eˣ`); `k, m, s, q` constants.")
    # Non_diagonal: gamma = [[tA,1,1],[1,tA,0],[1,0,tA]], A = A(z)
    t, A, A1, A2 = sp.symbols("t A A1 A2")
    B = t * A
    F["ND"] = Family("ND", [t, A, A1, A2], [t, A, A**2 * t**2 - 2],
                     sp.Matrix([[-1, 0, 0, 0], [0, B, 1, 1], [0, 1, B, 0], [0, 1, 0, B]]),
                     {t: [one, Z, Z, Z], A: [Z, Z, Z, A1], A1: [Z, Z, Z, A2]},
                     "Non-diagonal metric `−dt² + tA(z) δ_ij dx^i dx^j + 2 dx dy + 2 dx dz` with `A1 = ∂_z A`, `A2 = ∂_z² A`.")
    # Lambda-Szekeres (class II): -dt^2 + A (dx^2 + dy^2 + Z^2 dz^2), Z = b(z) f(t) + 1 + Bc b(z) (x^2+y^2),
    # background: A2 = (A1^2 + 4 Lam A^2)/(4A) [FLRW ij equation], growing mode: f' = (4 Bc - (3A1^2/(4A^2) - Lam) f A)/A1
    A, A1, Lam, Bc, f, b, b1, b2, x, y, Zs = sp.symbols("A A1 Lam Bc f b b1 b2 x y Z")
    A2 = (A1**2 + 4 * Lam * A**2) / (4 * A)
    kr = 3 * A1**2 / (4 * A**2) - Lam
    f1 = (4 * Bc - kr * f * A) / A1
    F["Szek"] = Family("Szek", [A, A1, Lam, Bc, f, b, b1, b2, x, y, Zs], [A, A1, Zs], sp.diag(-1, A, A, A * Zs**2),
                       {A: [A1, Z, Z, Z], A1: [A2, Z, Z, Z], f: [f1, Z, Z, Z], b: [Z, Z, Z, b1], b1: [Z, Z, Z, b2],
                        x: [Z, one, Z, Z], y: [Z, Z, one, Z],
                        Zs: [b * f1, 2 * Bc * b * x, 2 * Bc * b * y, b1 * f + Bc * b1 * (x**2 + y**2)]},
                       "Λ-Szekeres metric `−dt² + A(t)(dx² + dy² + Z² dz²)` with `Z = b(z) f(t) + 1 + Bc b(z)(x²+y²)` kept as a "
                       "field variable with `∂_t Z = b f'`, `∂_x Z = 2 Bc b x`, `∂_y Z = 2 Bc b y`, `∂_z Z = b1 f + Bc b1 (x²+y²)`; "
                       "background `∂_t A = A1`, `∂_t A1 = (A1² + 4ΛA²)/(4A)` (the FLRW `ij` equation), growing mode "
                       "`f' = (4Bc − (3A1²/(4A²) − Λ) f A)/A1`; `b1 = ∂_z b`, `b2 = ∂_z² b`.")
    return F


if __name__ == "__main__":
    F = families()
    for nm in (sys.argv[1:] or list(F)):
        F[nm].emit()
