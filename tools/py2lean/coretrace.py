"""Symbolic execution of AurelCore description-key methods and helpers.

`trace_all()` returns, for every description key (and helper call pattern),
its alternatives: (guards, vacuum?, component expressions, dependencies).
"""
import contextlib
import importlib
import itertools
import sys

import numpy as np

from . import trace as T
from .trace import Expr, TraceError

SKIP_KEYS = {
    # outputs that are not grid tensors or need complex numbers / scipy
    "dtconserved": "returns a tuple (traced as helper dtconserved_*)",
    "Weyl_Psi": "complex null tetrad (handled by the C10 model)",
    "Psi4_lm": "scipy interpolation + harmonics (C20)",
    "Weyl_invariants": "depends on Weyl_Psi (complex)",
    "null_ray_exp_out": "coordinate transforms (arccos, sign)",
    "null_ray_exp_in": "coordinate transforms (arccos, sign)",
}


def real_shapes():
    """Tensor shapes of every description key from one run of the real code on
    Minkowski defaults (shape only)."""
    import aurel
    from aurel.core import descriptions
    N = 6
    param = {"Nx": N, "Ny": N, "Nz": N, "xmin": -0.25, "ymin": -0.25, "zmin": -0.25,
             "dx": 0.1, "dy": 0.1, "dz": 0.1}
    fd = aurel.FiniteDifference(param, fd_order=2, verbose=False)
    rel = aurel.AurelCore(fd, verbose=False)
    out = {}
    for k in descriptions:
        try:
            v = rel[k]
        except Exception:  # noqa
            continue
        if isinstance(v, np.ndarray) and v.shape[-3:] == (N, N, N):
            out[k] = tuple(v.shape[:-3])
        elif isinstance(v, tuple) and all(isinstance(x, np.ndarray) and x.shape[-3:] == (N, N, N) for x in v):
            out[k] = [tuple(x.shape[:-3]) for x in v]
    return out


class GuardDict(dict):
    """self.data of the tracer: membership is answered by the presence oracle
    and recorded; look-ups return the symbolic tensor of the key."""

    def __init__(self, owner):
        super().__init__()
        self.owner = owner

    def __contains__(self, k):
        self.owner.guards_queried.append(k)
        return k in self.owner.present

    def keys(self):
        owner = self.owner

        class K:
            def __contains__(s, k):
                owner.guards_queried.append(k)
                return k in owner.present

            def __iter__(s):
                return iter(sorted(owner.present))
        return K()

    def __getitem__(self, k):
        return self.owner[k]


def make_tracer_classes():
    import aurel.core as core
    import aurel.finitedifference as fdm

    class TracerFD(fdm.FiniteDifference):
        def __init__(self):
            self.param = {"Nx": 1, "Ny": 1, "Nz": 1}
            self.Nx = self.Ny = self.Nz = 1
            self.x = T.symtensor("coord_x", ())
            self.y = T.symtensor("coord_y", ())
            self.z = T.symtensor("coord_z", ())
            self.cartesian_coords = np.array([self.x, self.y, self.z])
            self.fd_calls = 0

        def _d(self, axis, f):
            f = np.asarray(f, dtype=object)
            if f.shape != T.GRID:
                raise TraceError("d3%s applied to array of shape %s" % ("xyz"[axis], f.shape))
            self.fd_calls += 1
            out = np.empty(T.GRID, dtype=object)
            out[0, 0, 0] = T.D(axis, f[0, 0, 0])
            return out

        def d3x(self, f):
            return self._d(0, f)

        def d3y(self, f):
            return self._d(1, f)

        def d3z(self, f):
            return self._d(2, f)

    class TracerCore(core.AurelCore):
        def __init__(self, shapes, present=(), vacuum=False, tetrad="quasi-Kinnersley"):
            self.param = {"Nx": 1, "Ny": 1, "Nz": 1}
            self.fd = TracerFD()
            self.data_shape = T.GRID
            self.verbose = False
            self.fancy_print = False
            self._vacuum = vacuum
            self.vacuum_read = False
            self.tetrad = tetrad
            self.kappa = Expr.sym("kappa")
            self.Lambda = Expr.sym("Lambda")
            self.shapes = shapes
            self.present = set(present)
            self.guards_queried = []
            self.deps = []
            self.data = GuardDict(self)
            self.calculation_count = 0
            self.last_accessed = {}
            self.var_importance = {}

        @property
        def vacuum(self):
            self.vacuum_read = True
            return self._vacuum

        def myprint(self, message):
            pass

        def __getitem__(self, key):
            if key not in self.shapes:
                raise TraceError("dependency %r has no known tensor shape" % key)
            if key not in self.deps:
                self.deps.append(key)
            if isinstance(self.shapes[key], list):   # tuple-valued key (dtconserved)
                return tuple(T.symtensor("%s_%d" % (key, i), shp) for i, shp in enumerate(self.shapes[key]))
            return T.symtensor(key, self.shapes[key])

    return TracerCore, TracerFD


@contextlib.contextmanager
def patched_modules():
    import aurel.core as core
    import aurel.maths as maths
    import aurel.finitedifference as fdm
    shim = T.NumpyShim()
    saved = [(core, "np", core.np), (maths, "np", maths.np), (fdm, "np", fdm.np),
             (maths, "safe_division", maths.safe_division)]
    core.np = shim
    maths.np = shim
    fdm.np = shim
    maths.safe_division = T.safe_division_traced
    try:
        yield
    finally:
        for m, n, v in saved:
            setattr(m, n, v)


def run_alt(TracerCore, shapes, name, call, present, vacuum):
    tr = TracerCore(shapes, present=present, vacuum=vacuum)
    res = call(tr)
    comps = T.components(res)
    if isinstance(comps, np.ndarray):
        for e in comps.flat:
            T.check_plain_divisions(e)
        shape = comps.shape
    else:
        T.check_plain_divisions(comps)
        shape = ()
    guards = list(dict.fromkeys(tr.guards_queried))
    return {"name": name, "present": sorted(present), "vacuum": vacuum if tr.vacuum_read else None,
            "guards": guards, "shape": shape, "comps": comps, "deps": list(tr.deps),
            "fd_calls": tr.fd.fd_calls}


def alternatives(TracerCore, shapes, name, call):
    """Enumerate the alternatives of one definition: every presence subset of
    the guard keys it queries, times both vacuum values if it reads the flag."""
    first = run_alt(TracerCore, shapes, name, call, set(), False)
    guard_keys = list(first["guards"])
    # closure: guards that only appear when others are present
    known = set(guard_keys)
    changed = True
    while changed:
        changed = False
        for r in range(1, len(guard_keys) + 1):
            for sub in itertools.combinations(guard_keys, r):
                a = run_alt(TracerCore, shapes, name, call, set(sub), False)
                for g in a["guards"]:
                    if g not in known:
                        known.add(g)
                        guard_keys.append(g)
                        changed = True
        if len(guard_keys) > 6:
            raise TraceError("%s: too many guard keys %s" % (name, guard_keys))
    alts = []
    seen = []
    for r in range(0, len(guard_keys) + 1):
        for sub in itertools.combinations(guard_keys, r):
            vac_values = [False]
            a = run_alt(TracerCore, shapes, name, call, set(sub), False)
            if a["vacuum"] is not None:
                vac_values = [False, True]
            for v in vac_values:
                a = run_alt(TracerCore, shapes, name, call, set(sub), v)
                sig = (tuple(np.ravel(a["comps"]).tolist()) if isinstance(a["comps"], np.ndarray) else (a["comps"],))
                # identical expression under a different presence set = same alternative
                dup = None
                for s in seen:
                    if s[0] == sig and s[1] == (a["vacuum"]):
                        dup = s
                        break
                if dup is not None:
                    dup[2]["present_sets"].append(sorted(sub))
                    continue
                a["present_sets"] = [sorted(sub)]
                a["guard_keys"] = list(guard_keys)
                seen.append((sig, a["vacuum"], a))
                alts.append(a)
    return alts


HELPERS = []   # (lean name, call(tracer))


def _h(name, fn):
    HELPERS.append((name, fn))


def _sym(name, shape):
    return T.symtensor(name, shape)


def register_helpers():
    if HELPERS:
        return
    for ix, shp in (("", ()), ("u", (3,)), ("d", (3,)), ("uu", (3, 3)), ("dd", (3, 3)), ("ud", (3, 3)), ("du", (3, 3))):
        _h("s_covd_" + (ix or "scalar"), lambda tr, ix=ix, shp=shp: tr.s_covd(_sym("f", shp), ix))
    for ix, shp in (("", ()), ("u", (4,)), ("d", (4,))):
        _h("st_covd_" + (ix or "scalar"), lambda tr, ix=ix, shp=shp: tr.st_covd(_sym("f", shp), _sym("dtf", shp), ix))
    for ix, shp in (("u", (3,)), ("d", (3,)), ("uu", (3, 3)), ("ud", (3, 3)), ("du", (3, 3)), ("dd", (3, 3))):
        _h("s_div_" + ix, lambda tr, ix=ix, shp=shp: tr.s_div(_sym("f", shp), ix))
    _h("s_curl_dd", lambda tr: tr.s_curl(_sym("f", (3, 3)), "dd"))
    for ix, shp in (("", ()), ("s_u", (3,)), ("s_d", (3,)), ("st_u", (4,)), ("st_d", (4,)),
                    ("s_uu", (3, 3)), ("s_ud", (3, 3)), ("s_du", (3, 3)), ("s_dd", (3, 3))):
        _h("Lie_beta_" + (ix or "scalar"), lambda tr, ix=ix, shp=shp: tr.Lie_beta(_sym("f", shp), ix))
        _h("Lie_beta_w_" + (ix or "scalar"),
           lambda tr, ix=ix, shp=shp: tr.Lie_beta(_sym("f", shp), ix, weight=Expr.sym("weight")))
    _h("s_to_st", lambda tr: tr.s_to_st(_sym("f", (3, 3))))
    _h("trace3", lambda tr: tr.trace3(_sym("f", (3, 3))))
    _h("trace4", lambda tr: tr.trace4(_sym("f", (4, 4))))
    _h("tracefree3", lambda tr: tr.tracefree3(_sym("f", (3, 3))))
    _h("magnitude3", lambda tr: tr.magnitude3(_sym("f", (3, 3))))
    _h("magnitude4", lambda tr: tr.magnitude4(_sym("f", (4, 4))))
    _h("vector_inner_product3", lambda tr: tr.vector_inner_product3(_sym("a", (3,)), _sym("b", (3,))))
    _h("vector_inner_product4", lambda tr: tr.vector_inner_product4(_sym("a", (4,)), _sym("b", (4,))))
    _h("norm3", lambda tr: tr.norm3(_sym("a", (3,))))
    _h("norm4", lambda tr: tr.norm4(_sym("a", (4,))))
    _h("levicivita_symbol_down3", lambda tr: tr.levicivita_symbol_down3())
    _h("levicivita_symbol_down4", lambda tr: tr.levicivita_symbol_down4())
    _h("levicivita_down3", lambda tr: tr.levicivita_down3())
    _h("levicivita_down4", lambda tr: tr.levicivita_down4())
    _h("kronecker_delta3", lambda tr: tr.kronecker_delta3())
    _h("kronecker_delta4", lambda tr: tr.kronecker_delta4())
    for i in range(3):
        _h("dtconserved_%d" % i, lambda tr, i=i: tr.dtconserved()[i])
    import aurel.maths as maths
    _h("maths_determinant3", lambda tr: maths.determinant3(_sym("f", (3, 3))))
    _h("maths_determinant4", lambda tr: maths.determinant4(_sym("f", (4, 4))))
    _h("maths_inverse3", lambda tr: maths.inverse3(_sym("f", (3, 3))))
    _h("maths_inverse4", lambda tr: maths.inverse4(_sym("f", (4, 4))))
    _h("maths_symmetrise_tensor", lambda tr: maths.symmetrise_tensor(_sym("f", (4, 4))))
    _h("maths_antisymmetrise_tensor", lambda tr: maths.antisymmetrise_tensor(_sym("f", (4, 4))))
    _h("maths_format_rank2_3", lambda tr: maths.format_rank2_3([_sym("c%d" % i, ()) for i in range(6)]))
    _h("maths_format_rank2_4", lambda tr: maths.format_rank2_4([_sym("c%d" % i, ()) for i in range(10)]))
    _h("maths_populate_4Riemann", lambda tr: maths.populate_4Riemann(
        _sym("Rssss", (3, 3, 3, 3)), _sym("Rssst", (3, 3, 3)), _sym("Rstst", (3, 3))))
    for br in ("quasi-Kinnersley", "fluid"):
        for i in range(4):
            def f(tr, br=br, i=i):
                tr.tetrad = br
                return tr.tetrad_base()[i]
            _h("tetrad_%s_e%d" % ("qK" if br == "quasi-Kinnersley" else "fluid", i), f)


def trace_all(keys=None, with_helpers=True):
    """Returns (results, failures): results[name] = list of alternatives."""
    for m in list(sys.modules):
        if m == "aurel" or m.startswith("aurel."):
            pass
    shapes = real_shapes()
    results, failures = {}, {}
    with patched_modules():
        TracerCore, _ = make_tracer_classes()
        from aurel.core import descriptions
        names = [k for k in descriptions if keys is None or k in keys]
        for k in names:
            if k in SKIP_KEYS:
                failures[k] = "skipped: " + SKIP_KEYS[k]
                continue
            if k not in shapes or isinstance(shapes[k], list):
                failures[k] = "no tensor shape from the real run"
                continue
            try:
                results[k] = alternatives(TracerCore, shapes, k, lambda tr, k=k: getattr(tr, k)())
                for a in results[k]:
                    if tuple(a["shape"]) != tuple(shapes[k]):
                        raise TraceError("traced shape %s differs from real shape %s" % (a["shape"], shapes[k]))
            except Exception as ex:  # noqa
                failures[k] = "%s: %s" % (type(ex).__name__, ex)
                results.pop(k, None)
        if with_helpers:
            register_helpers()
            for name, fn in HELPERS:
                if keys is not None and name not in keys:
                    continue
                try:
                    results[name] = alternatives(TracerCore, shapes, name, fn)
                except Exception as ex:  # noqa
                    failures[name] = "%s: %s" % (type(ex).__name__, ex)
    return results, failures, shapes
