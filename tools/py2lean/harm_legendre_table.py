"""Generator of lean/AurelVerif/Lemmas/HarmLegendre.lean (T3 of C20).

Not run by the check: the Lean file is static and re-checked by Lean itself.
Kept so that the table can be regenerated / extended:

    /venv/bin/python tools/py2lean/harm_legendre_table.py > lean/AurelVerif/Lemmas/HarmLegendre.lean

For every (l, m), l <= LMAX, it prints a theorem whose proof is
`linear_combination (cofactor) * h`; the cofactor of c^2 + sn^2 - 1 is computed
here by polynomial division (sympy) and is only a hint: `ring` inside
`linear_combination` verifies it.
"""
import sys

import sympy as sp
from math import comb, factorial
c, s, x, y = sp.symbols('c sn x y')
LMAX = 4
def legendre(l):
    return sp.expand(sp.diff((x**2-1)**l, x, l) / (2**l*factorial(l)))
def assoc(l, m):
    if m >= 0:
        return (-1)**m * y**m * sp.diff(legendre(l), x, m)
    mu = -m
    return (-1)**mu * sp.Rational(factorial(l-mu), factorial(l+mu)) * assoc(l, mu)
def terms(s_, l, m):
    out = []
    for r in range(max(m-s_, 0), min(l+m, l-s_)+1):
        out.append((comb(l-s_, r)*comb(l+s_, r+s_-m)*(-1)**(l-r-s_), 2*r+s_-m, 2*l-2*r-s_+m))
    return out
def ratlean(q):
    q = sp.Rational(q)
    if q.q == 1:
        return "(%d : K)" % q.p if q.p >= 0 else "(-%d : K)" % -q.p
    return "(%d / %d : K)" % (q.p, q.q) if q.p >= 0 else "(-%d / %d : K)" % (-q.p, q.q)
def polylean(p):
    P = sp.Poly(p, c, s)
    parts = []
    for (i, j), co in P.terms():
        parts.append("%s * c ^ %d * sn ^ %d" % (ratlean(co), i, j))
    return " + ".join(parts) if parts else "(0 : K)"
def ratlit(q):
    q = sp.Rational(q)
    if q.q == 1:
        return str(q.p)
    return "%d / %d" % (q.p, q.q)

HEAD = r'''/-
Lemmas/HarmLegendre.lean — T3: at spin 0 the closed form of `maths.sYlm` is the
associated Legendre function of Spec/Harm.lean, for every (l, m) with l ≤ 4.
The 25 table entries are polynomial identities in (c, sn) modulo c² + sn² = 1;
each is closed by `linear_combination (cofactor) * h` (cofactors computed once
with sympy; Lean re-checks them with `ring`).
-/
import Mathlib.Tactic.LinearCombination
import Mathlib.Tactic.NormNum
import Mathlib.Tactic.IntervalCases
import AurelVerif.Lemmas.Harm
import AurelVerif.Spec.Harm

namespace AurelVerif.HarmLemmas
open AurelVerif.Harm AurelVerif.HarmSpec

/-- value of a coefficient list (lowest degree first) at `x` (Horner). -/
def peval {K : Type} [Field K] (p : List Rat) (x : K) : K :=
  p.foldr (fun a acc => ((a : ℚ) : K) + x * acc) 0

/-- `P_l^m(x)` with Condon–Shortley phase; `y` stands for `√(1 − x²) = sin θ`. -/
def assocLegendre {K : Type} [Field K] (l : Nat) (m : Int) (x y : K) : K :=
  if 0 ≤ m then (-1) ^ m.toNat * y ^ m.toNat * peval (legendreDeriv l m.toNat) x
  else (-1) ^ (-m).toNat * ((factorial (l - (-m).toNat) : Nat) : K) / ((factorial (l + (-m).toNat) : Nat) : K)
    * ((-1) ^ (-m).toNat * y ^ (-m).toNat * peval (legendreDeriv l (-m).toNat) x)

/-- the table entry: `(l+m)! · Σ_r(…)  =  (−1)^m · l! · P_l^m(cos θ)` with
`cos θ = c² − sn²`, `sin θ = 2 c sn`. -/
def Spin0Id {K : Type} [Field K] (l : Nat) (m : Int) (c sn : K) : Prop :=
  (((l : Int) + m).toNat.factorial : K) * evalK (harmTerms 0 l m) c sn
    = (-1 : K) ^ m.natAbs * (l.factorial : K) * assocLegendre l m (c ^ 2 - sn ^ 2) (2 * c * sn)

'''

out = []
names = []
for l in range(LMAX+1):
    for m in range(-l, l+1):
        ts = terms(0, l, m)
        F = sum(co*c**a*s**b for co, a, b in ts)
        lhs = factorial(l+m)*F
        rhs = (-1)**abs(m)*factorial(l)*assoc(l, m).subs({x: c**2-s**2, y: 2*c*s})
        D = sp.expand(lhs - rhs)
        q, rem = sp.div(sp.Poly(D, c, s), sp.Poly(c**2+s**2-1, c, s))
        assert rem.is_zero, (l, m, rem)
        # numeric cross-check against sympy's assoc_legendre (with CS phase)
        th = sp.Rational(7, 10)
        v1 = sp.N(assoc(l, m).subs({x: sp.cos(th), y: sp.sin(th)}))
        v2 = sp.N(sp.assoc_legendre(l, m, sp.cos(th)))
        assert abs(v1-v2) < 1e-12, (l, m, v1, v2)
        mu = abs(m)
        ld = sp.Poly(sp.diff(legendre(l), x, mu), x).all_coeffs()[::-1] if sp.diff(legendre(l), x, mu) != 0 else []
        nm = "spin0_%d_%s" % (l, ("m%d" % -m) if m < 0 else str(m))
        names.append((l, m, nm))
        tl = ", ".join("⟨%d, %d, %d⟩" % t for t in ts)
        ll = ", ".join(ratlit(v) for v in ld)
        mm = str(m) if m >= 0 else "(%d)" % m
        Lp = polylean(sp.expand(F))
        Rp = polylean(sp.expand(assoc(l, m).subs({x: c**2-s**2, y: 2*c*s})))
        D2 = sp.expand(factorial(l+m)*F - (-1)**abs(m)*factorial(l)*assoc(l, m).subs({x: c**2-s**2, y: 2*c*s}))
        sign = "(1 : K)" if m % 2 == 0 else "(-1 : K)"
        FAC = ', factorial' if m < 0 else ''
        out.append(f"""theorem {nm} {{K : Type}} [Field K] [CharZero K] (c sn : K) (h : c ^ 2 + sn ^ 2 = 1) :
    Spin0Id (K := K) {l} {mm} c sn := by
  have e1 : harmTerms 0 (({l} : Nat) : Int) {mm} = [{tl}] := by decide +kernel
  have e2 : legendreDeriv {l} {mu} = [{ll}] := by decide +kernel
  have hL : evalK (harmTerms 0 (({l} : Nat) : Int) {mm}) c sn = {Lp} := by
    rw [e1]; simp [evalK]; try ring
  have hR : assocLegendre {l} {mm} (c ^ 2 - sn ^ 2) (2 * c * sn) = {Rp} := by
    simp [assocLegendre, e2, peval{FAC}]; try ring
  have hf : (((({l} : Nat) : Int) + {mm}).toNat).factorial = {factorial(l+m)} := by decide
  have hg : ({l} : Nat).factorial = {factorial(l)} := by decide
  have hs : (({mm} : Int)).natAbs = {abs(m)} := by decide
  unfold Spin0Id
  rw [hL, hR, hf, hg, hs]
  push_cast
  linear_combination ({polylean(q.as_expr())}) * h
""")


def tail():
    o = ["", "/-- T3 for all `l ≤ %d`, `|m| ≤ l`, every field of characteristic 0 and every" % LMAX,
         "point of the circle `c² + sn² = 1`. -/",
         "theorem spin0_table {K : Type} [Field K] [CharZero K] (c sn : K) (h : c ^ 2 + sn ^ 2 = 1)",
         "    (l : Nat) (hl : l ≤ %d) (m : Int) (hm : |m| ≤ (l : Int)) : Spin0Id l m c sn := by" % LMAX,
         "  have hm' := abs_le.mp hm", "  interval_cases l"]
    for l in range(LMAX + 1):
        if l == 0:
            o += ["  · have : m = 0 := by omega", "    subst this; exact spin0_0_0 c sn h"]
            continue
        o += ["  · have h1 : -%d ≤ m := by omega" % l, "    have h2 : m ≤ %d := by omega" % l, "    interval_cases m"]
        for m in range(-l, l + 1):
            o.append("    · exact spin0_%d_%s c sn h" % (l, ("m%d" % -m) if m < 0 else str(m)))
    o += ["", "end AurelVerif.HarmLemmas", ""]
    return "\n".join(o)


if __name__ == "__main__":
    sys.stdout.write(HEAD + "\n".join(out) + tail())
