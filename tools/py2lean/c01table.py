"""Emit Gen/C01Table.lean: the RETURN-SITE FUNCTION TABLE of the description keys (property C01).

Inputs (all regenerated from the current source on every run):
  * `info`   = depgraph.analyse()/regen(): the shape (decision tree of guards, reads in evaluation order, numbered
               return sites) of every description key;
  * `index`  = emit_core index: the alternatives traced by symbolic execution (`Gen/CoreKeys.lean`, `Gen/CoreCurv.lean`),
               each with the set of keys present and the value of `self.vacuum` under which it is taken;
  * `shapes` = tensor shape of every Env field.

For every key and every return site the generator SIMULATES the shape under the presence set / option value of each
traced alternative; that yields (key, return site) -> alternative, together with the position, in the list of values
read on the way, of every key the alternative looks up.  The emitted `leaf_<k> base i vs` applies the generated
definition to the environment `envOf base g` whose field of key `j` is the value read for `j` (first occurrence) and
whose non-key fields (kappa, Lambda, the abstract operator D, sqrt/log/exp/abs, coordinates) come from `base`.

Keys that cannot be mapped (no traced alternative: Weyl_Psi, Psi4_lm, Weyl_invariants; tuple-valued: dtconserved; the
256-component keys of the `Big` group other than those of EXTRA_GROUPS = st_Riemann_down4, st_Riemann_uddd4, to keep compile time low) are left to the parameter `rest` of `leafGen`, i.e.
their return-site formulas are ARBITRARY in every theorem stated over this table.
"""
import os

from lib import fw
from . import emit_core

KINDS = {(): "s", (3,): "v3", (3, 3): "t33", (3, 3, 3): "t333", (3, 3, 3, 3): "t3333",
         (4,): "v4", (4, 4): "t44", (4, 4, 4): "t444", (4, 4, 4, 4): "t4444"}
PROJ = {"s": "toS", "v3": "toV3", "t33": "toT33", "t333": "toT333", "t3333": "toT3333",
        "v4": "toV4", "t44": "toT44", "t444": "toT444", "t4444": "toT4444"}
BASE_FIELDS = ["kappa", "Lambda", "coord_x", "coord_y", "coord_z", "D", "sqrtF", "logF", "expF", "absF", "rpowF"]
FALSE_FLAGS = {"np.shape(f)[i] != dim[s_or_st]"}
GROUPS = ("Keys", "Curv")
# 256-component keys whose return sites ARE generated (extension round 6): group -> module to import.  The others of the
# `Big` group stay with `rest` (compile time).
EXTRA_GROUPS = {"Big_st_Riemann_down4": "AurelVerif.Gen.CoreBig_st_Riemann_down4",
                # extension round 7 (Props/C01TabS.lean): `st_Riemann_uddd4` (key 119), read by the contraction alternative of
                # `st_Ricci_down4`.  `st_Weyl_down4` (Big_st_Weyl_down4) can NOT be mapped by `site_map` as it stands: its return
                # sites 3 and 4 are reached only when the zero-shift test of `s_to_st` changes its outcome between two of the
                # three calls inside ONE body (eviction of `betaup3` in between) — no traced alternative has such a presence set.
                "Big_st_Riemann_uddd4": "AurelVerif.Gen.CoreBig_st_Riemann_uddd4"}


def _ty(shape):
    return " → ".join(["Fin %d" % n for n in shape] + ["K"])


def _zero(shape):
    return ("fun " + " ".join("_" for _ in shape) + " => 0") if shape else "0"


def _geval(g, present, vac):
    if g[0] == "pres":
        return g[1] in present
    if g[0] == "flag":
        if g[1] == "self.vacuum":
            if vac is None:
                raise KeyError("vacuum undetermined")
            return vac
        if g[1] in FALSE_FLAGS:
            return False
        raise KeyError("flag " + g[1])
    if g[0] == "not":
        return not _geval(g[1], present, vac)
    if g[0] == "and":
        return _geval(g[1], present, vac) and _geval(g[2], present, vac)
    if g[0] == "or":
        return _geval(g[1], present, vac) or _geval(g[2], present, vac)
    raise KeyError("guard")


def simulate(sh, present, vac):
    """-> (return site, [keys read in order, one per value appended])"""
    seq = []
    while True:
        if sh[0] == "ret":
            return sh[1], seq
        if sh[0] == "fail":
            raise KeyError("fail")
        if sh[0] in ("read", "peek"):
            seq.append(sh[1])
            sh = sh[2]
        elif sh[0] == "rep":
            if sh[1][0] != "lit":
                raise KeyError("rep opt")
            seq += list(sh[2]) * sh[1][1]
            sh = sh[3]
        elif sh[0] == "test":
            sh = sh[2] if _geval(sh[1], present, vac) else sh[3]
        else:
            raise KeyError("shape")


def n_rets(sh):
    if sh[0] == "ret":
        return {sh[1]}
    if sh[0] == "fail":
        return set()
    if sh[0] in ("read", "peek"):
        return n_rets(sh[2])
    if sh[0] == "rep":
        return n_rets(sh[3])
    return n_rets(sh[2]) | n_rets(sh[3])


def _atoms(g):
    if g[0] == "pres":
        return [g[1]]
    if g[0] == "flag":
        return []
    if g[0] == "not":
        return _atoms(g[1])
    return _atoms(g[1]) + _atoms(g[2])


def _guarded(sh, has_method):
    if sh[0] in ("ret", "fail"):
        return False
    if sh[0] in ("read", "peek"):
        return _guarded(sh[2], has_method)
    if sh[0] == "rep":
        return _guarded(sh[3], has_method)
    return any(a in has_method for a in _atoms(sh[1])) or _guarded(sh[2], has_method) or _guarded(sh[3], has_method)


def site_map(info, index):
    """(key -> {site: (alt index entry, [read sequence])}), {key: reason not mapped}"""
    by_key = {}
    for i in index:
        if (i.get("status") == "ok" and (i.get("group") in GROUPS or i.get("group") in EXTRA_GROUPS)
                and i["key"] in info["shapes"]):
            by_key.setdefault(i["key"], []).append(i)
    out, skipped = {}, {}
    for k, sh in info["shapes"].items():
        alts = by_key.get(k)
        if not alts:
            skipped[k] = "no traced alternative in groups %s" % (GROUPS,)
            continue
        try:
            m = {}
            for a in alts:
                if tuple(a["shape"]) not in KINDS:
                    raise KeyError("value shape %s" % (a["shape"],))
                for ps in a["present_sets"]:
                    for vac in ([a["vacuum"]] if a["vacuum"] is not None else [True, False]):
                        try:
                            site, seq = simulate(sh, set(ps), vac)
                        except KeyError as ex:
                            if "vacuum undetermined" in str(ex):
                                raise
                            raise
                        if site in m and m[site][0]["name"] != a["name"]:
                            raise KeyError("site %d reached by %s and %s" % (site, m[site][0]["name"], a["name"]))
                        if site in m and m[site][1] != seq:
                            raise KeyError("site %d: two read sequences" % site)
                        m[site] = (a, seq)
                        missing = [d for d in a["deps"] if d not in seq]
                        if missing:
                            raise KeyError("%s looks up %s, not read on the path" % (a["name"], missing))
            if set(m) != n_rets(sh):
                raise KeyError("return sites %s, mapped %s" % (sorted(n_rets(sh)), sorted(m)))
            out[k] = m
        except KeyError as ex:
            skipped[k] = str(ex)
    return out, skipped


def generate(info, index, shapes):
    names = info["names"]
    idx = {n: i for i, n in enumerate(names)}
    smap, skipped = site_map(info, index)
    o = ["-- GENERATED by tools/py2lean/c01table.py from Gen/DepGraph (AST of core.py) and the traced alternatives of",
         "-- Gen/CoreKeys, Gen/CoreCurv (symbolic execution of core.py) — do not edit.",
         "import AurelVerif.Gen.CoreKeys", "import AurelVerif.Gen.CoreCurv"] + [
         "import " + m for m in sorted(EXTRA_GROUPS.values())] + [
         "set_option linter.unusedVariables false", "set_option maxRecDepth 100000",
         "namespace AurelVerif.Gen.C01Table", "open AurelVerif.Gen.Core AurelVerif.Tensor", "",
         "/-- a cached value at one grid point -/", "inductive Val (K : Type)"]
    for shp, c in KINDS.items():
        o.append("  | %s (x : %s)" % (c, _ty(shp)))
    o.append("")
    o.append("variable {K : Type} [Field K]")
    o.append("")
    for shp, c in KINDS.items():
        o.append("/-- a value of another kind is read as 0 -/")
        o.append("def Val.%s : Val K → %s | .%s x => x | _ => %s" % (PROJ[c], _ty(shp), c, _zero(shp)))
    o += ["", "/-- the `i`-th value read by the body -/",
          "def rd (vs : List (Val K)) (i : Nat) : Val K := vs.getD i (.s 0)", "",
          "/-- the environment whose key fields are the values `g` (by key index in `Gen.DepGraph.names`); the non-key",
          "fields (kappa, Lambda, D, opaque functions, coordinates, tuple components) are those of `base`. -/",
          "def envOf (base : Env K) (g : Nat → Val K) : Env K where"]
    for f in BASE_FIELDS:
        o.append("  %s := base.%s" % (f, f))
    for k in sorted(shapes):
        shp = shapes[k]
        if isinstance(shp, list):
            for i, _ in enumerate(shp):
                o.append("  %s_%d := base.%s_%d" % (k, i, k, i))
        elif k in idx and tuple(shp) in KINDS:
            o.append("  %s := (g %d).%s" % (k, idx[k], PROJ[KINDS[tuple(shp)]]))
        else:
            o.append("  %s := base.%s" % (k, k))
    o.append("")
    table_rows = []
    for k in names:
        if k not in smap:
            continue
        m = smap[k]
        o.append("/-- `%s` (key %d): return sites %s -/" % (k, idx[k], ", ".join(
            "%d = `%s`" % (s, m[s][0]["name"]) for s in sorted(m))))
        o.append("def leaf_%d (base : Env K) (i : Nat) (vs : List (Val K)) : Val K :=" % idx[k])
        o.append("  match i with")
        for s in sorted(m):
            a, seq = m[s]
            picks = []
            for d in a["deps"]:
                picks.append("| %d => rd vs %d" % (idx[d], seq.index(d)))
            g = "(fun j => match j with %s | _ => .s 0)" % " ".join(picks) if picks else "(fun _ => .s 0)"
            o.append("  | %d => .%s (%s (envOf base %s))" % (s, KINDS[tuple(a["shape"])], a["name"], g))
            table_rows.append((idx[k], s, a["name"], [(idx[d], seq.index(d)) for d in a["deps"]]))
        o.append("  | _ => .s 0")
        o.append("")
    gen_keys = [idx[k] for k in names if k in smap]
    o.append("/-- keys whose return-site formulas are generated -/")
    o.append("def genKeys : List Nat := [%s]" % ", ".join(map(str, gen_keys)))
    o.append("")
    o.append("/-- **the return-site function table**: generated formulas for `genKeys`, `rest` elsewhere -/")
    o.append("def leafGen (base : Env K) (rest : Nat → Nat → List (Val K) → Val K) (k i : Nat) (vs : List (Val K)) : Val K :=")
    o.append("  match k with")
    for k in gen_keys:
        o.append("  | %d => leaf_%d base i vs" % (k, k))
    o.append("  | k => rest k i vs")
    o.append("")
    for k in gen_keys:
        o.append("theorem leafGen_%d (base : Env K) (rest : Nat → Nat → List (Val K) → Val K) (i : Nat) (vs : List (Val K)) :"
                 % k)
        o.append("    leafGen base rest %d i vs = leaf_%d base i vs := rfl" % (k, k))
    o.append("")
    has_method = set(info["shapes"])
    guarded = [idx[k] for k in names if k in info["shapes"] and _guarded(info["shapes"][k], has_method)]
    o.append("/-- keys whose body tests the presence of a key that has a method (the only bodies whose branch coherence is")
    o.append("not automatic; checked against Gen.DepGraph in Props/C01Tab.lean) -/")
    o.append("def guardedKeys : List Nat := [%s]" % ", ".join(map(str, guarded)))
    o.append("")
    o.append("end AurelVerif.Gen.C01Table")
    return "\n".join(o) + "\n", {"generated_keys": len(gen_keys), "return_sites": len(table_rows),
                                 "skipped": skipped, "guarded": guarded, "rows": table_rows}


def regen(info, index, shapes):
    text, meta = generate(info, index, shapes)
    changed = fw.write_if_changed(os.path.join(fw.LEAN, "AurelVerif", "Gen", "C01Table.lean"), text)
    return changed, meta
