"""Diagnostics for the alias analysis of C02 (not trusted, not part of any proof).

A Python port of `analyse` (Model/Heap.lean) that replays the abstract interpretation of one
alias-IR body under the summary table the Lean driver computed, and records WHICH statement
(source line) contributes WHICH atom to `mutA` / `mutC`.  Used by tools/props/C02.py to list,
for every function whose container-level claim is not established statically, the statements
that defeat the analysis, and to cross-check the port against the Lean summaries (the port's
result for a function must equal the row the Lean driver printed).

It also contains a small interpreter of the CONCRETE semantics (`exec` of Model/Heap.lean) used
by the construct tests: a snippet's IR is run on a heap with one root per argument, over every
oracle, and the roots whose version counters were bumped / which the result may alias are
compared with what the real Python snippet did to its real arguments.
"""
import itertools

LOOP_ROUNDS = 8


# ------------------------------------------------------------------ abstract side (port of analyse)
def tjoin(t, u):
    return t + [a for a in u if a not in t]


def tle(t, u):
    return all(a in u for a in t)


def dedup(l):
    out = []
    for a in reversed(l):
        if a not in out:
            out.insert(0, a)
    return out


class AS:
    def __init__(self, env=None, leaked=False, s=None):
        self.env = env or []          # list of (own, reach)
        self.leaked = leaked
        self.s = s or {"ok": True, "mutA": [], "mutC": [], "retOwn": [], "retReach": [], "esc": []}

    def copy(self):
        return AS([(list(o), list(r)) for o, r in self.env], self.leaked, {k: (list(v) if isinstance(v, list) else v)
                                                                            for k, v in self.s.items()})


def getA(env, x):
    return env[x] if x < len(env) else ([], [])


def setA(env, x, v):
    env = list(env)
    while len(env) <= x:
        env.append(([], []))
    env[x] = v
    return env


def summ_join(a, b):
    return {"ok": a["ok"] and b["ok"], "mutA": tjoin(a["mutA"], b["mutA"]), "mutC": tjoin(a["mutC"], b["mutC"]),
            "retOwn": tjoin(a["retOwn"], b["retOwn"]), "retReach": tjoin(a["retReach"], b["retReach"]),
            "esc": tjoin(a["esc"], b["esc"])}


def summ_le(a, b):
    return ((not b["ok"]) or a["ok"]) and all(tle(a[k], b[k]) for k in ("mutA", "mutC", "retOwn", "retReach", "esc"))


def env_join(e1, e2):
    out = []
    for i in range(max(len(e1), len(e2))):
        if i >= len(e1):
            out.append(e2[i])
        elif i >= len(e2):
            out.append(e1[i])
        else:
            out.append((tjoin(e1[i][0], e2[i][0]), tjoin(e1[i][1], e2[i][1])))
    return out


def env_le(e1, e2):
    if len(e1) > len(e2):
        return False
    return all(tle(a[0], b[0]) and tle(a[1], b[1]) for a, b in zip(e1, e2))


def as_join(a, b):
    return AS(env_join(a.env, b.env), a.leaked or b.leaked, summ_join(a.s, b.s))


def as_le(a, b):
    return env_le(a.env, b.env) and ((not a.leaked) or b.leaked) and summ_le(a.s, b.s)


def inst_atom(args, a):
    if a == 0:
        return [0]
    n = a - 1
    v = getA(args, n // 2)
    return v[0] if n % 2 == 0 else v[1]


def inst(args, t):
    out = []
    for a in t:
        out += inst_atom(args, a)
    return dedup(out)


def line_of(s):
    for e in s[1:]:
        if isinstance(e, tuple) and len(e) == 2 and e[0] == "line":
            return e[1]
    return 0


class Analysis:
    def __init__(self, rows_by_name, keyfn_name):
        self.rows = rows_by_name          # qname -> summary row (dict)
        self.keyfn = keyfn_name           # key id -> qname of the method, or None
        self.blame = {}                   # (kind, atom) -> set of (line, what)

    def note(self, kind, atoms, line, what):
        for a in atoms:
            self.blame.setdefault((kind, a), set()).add((line, what))

    def summ(self, q):
        r = self.rows.get(q)
        if r is None:
            return {"ok": True, "mutA": [], "mutC": [], "retOwn": [], "retReach": [], "esc": []}
        return r

    def apply_call(self, sm, args, x, force, st, line, what):
        e = inst(args, sm["esc"])
        env = [(o, tjoin(r, e)) for o, r in st.env]
        env = setA(env, x, (tjoin(force[0], inst(args, sm["retOwn"])), tjoin(force[1], inst(args, sm["retReach"]))))
        ma, mc = inst(args, sm["mutA"]), inst(args, sm["mutC"])
        self.note("mutA", ma, line, what)
        self.note("mutC", mc, line, what)
        s = dict(st.s)
        s["ok"] = s["ok"] and sm["ok"]
        s["mutA"] = tjoin(s["mutA"], ma)
        s["mutC"] = tjoin(s["mutC"], mc)
        s["esc"] = tjoin(s["esc"], e)
        return AS(env, st.leaked, s)

    def block(self, b, st):
        for s in b:
            st = self.stmt(s, st)
        return st

    def stmt(self, s, st):
        tag = s[0]
        if tag == "ite":
            return as_join(self.block(s[1], st.copy()), self.block(s[2], st.copy()))
        if tag == "loop":
            cur = st
            for _ in range(LOOP_ROUNDS):
                nxt = self.block(s[1], cur.copy())
                if as_le(nxt, cur):
                    return cur
                cur = as_join(cur, nxt)
            cur = cur.copy()
            cur.s["ok"] = False
            return cur
        st = st.copy()
        if tag == "join":
            r = dedup([a for y in s[2] for a in getA(st.env, y)[1]])
            st.env = setA(st.env, s[1], ([], r))
        elif tag == "alias":
            st.env = setA(st.env, s[1], getA(st.env, s[2]))
        elif tag == "view":
            r = dedup([a for y in s[2] for a in getA(st.env, y)[1]])
            st.env = setA(st.env, s[1], (r, r))
        elif tag == "param":
            i = s[2]
            st.env = setA(st.env, s[1], ([2 * i + 1], [2 * i + 1, 2 * i + 2]))
        elif tag == "glob":
            st.env = setA(st.env, s[1], ([0], [0]))
        elif tag == "cached":
            q = self.keyfn.get(s[2])
            if q is None:
                st.env = setA(st.env, s[1], ([0], [0]))
            else:
                st = self.apply_call(self.summ(q), [], s[1], ([0], [0]), st, line_of(s), "rel[%r] -> %s" % (s[2], q))
        elif tag == "call":
            args = [getA(st.env, a) for a in s[3]]
            st = self.apply_call(self.summ(s[2]), args, s[1], ([], []), st, line_of(s), "call %s" % s[2])
        elif tag == "mutate":
            t = getA(st.env, s[1])[0]
            self.note("mutA", t, line_of(s), "in-place array operation")
            self.note("mutC", t, line_of(s), "in-place array operation")
            st.s["mutA"] = tjoin(st.s["mutA"], t)
            st.s["mutC"] = tjoin(st.s["mutC"], t)
        elif tag == "cmutate":
            t = getA(st.env, s[1])[0]
            self.note("mutC", t, line_of(s), "container operation")
            st.s["mutC"] = tjoin(st.s["mutC"], t)
        elif tag == "absorb":
            t = getA(st.env, s[2])[1]
            vis = st.leaked or bool(getA(st.env, s[1])[0])
            st.env = [(o, tjoin(r, t)) for o, r in st.env]
            st.leaked = vis
            if vis:
                st.s["esc"] = tjoin(st.s["esc"], t)
        elif tag == "store":
            pass
        elif tag == "ret":
            v = getA(st.env, s[1])
            st.s["retOwn"] = tjoin(st.s["retOwn"], v[0])
            st.s["retReach"] = tjoin(st.s["retReach"], v[1])
        elif tag == "skip":
            pass
        else:
            raise ValueError("unknown IR statement %r" % (s,))
        return st


def explain(q, ir, rows_by_name, keyfn_name):
    """-> (summary computed by the port, blame: {(kind, atom): sorted [(line, what)]})"""
    an = Analysis(rows_by_name, keyfn_name)
    st = an.block(ir, AS())
    return st.s, {k: sorted(v) for k, v in an.blame.items()}


def atom_name(a, params):
    if a == 0:
        return "anything that existed before the call (cache entries, globals, attributes of self)"
    i, own = (a - 1) // 2, (a - 1) % 2 == 0
    p = params[i] if i < len(params) else "#%d" % i
    return ("the object passed as `%s` itself" % p) if own else ("anything reachable from `%s`" % p)


# ------------------------------------------------------------------ concrete side (port of exec)
class Heap:
    def __init__(self, n):
        self.aver, self.cver, self.next, self.cache = {}, {}, n, {}


def run_concrete(ir, params, nroots, oracle, fuel_loops=2):
    """Run an IR body (no calls / cached) on a heap with roots 0..nroots-1, params = list of (own, reach).
    oracle: iterator of booleans.  Returns (bumped_a, bumped_c, ret) with ret = (own, reach) or None."""
    h = Heap(nroots)
    env = {}
    state = {"ret": None}

    def getv(x):
        return env.get(x, ([], []))

    def reach_of(ys):
        out = []
        for y in ys:
            out += getv(y)[1]
        return out

    def block(b):
        for s in b:
            if state["ret"] is not None:
                return
            stmt(s)

    def stmt(s):
        tag = s[0]
        if tag == "ite":
            block(s[1] if next(oracle) else s[2])
        elif tag == "loop":
            while next(oracle):
                block(s[1])
                if state["ret"] is not None:
                    return
        elif tag == "join":
            r = h.next
            h.next += 1
            env[s[1]] = ([r], [r] + reach_of(s[2]))
        elif tag == "alias":
            env[s[1]] = getv(s[2])
        elif tag == "view":
            t = reach_of(s[2])
            h.next += 1
            env[s[1]] = (t, t)
        elif tag == "param":
            env[s[1]] = params[s[2]] if s[2] < len(params) else ([], [])
        elif tag == "glob":
            env[s[1]] = h.cache.get(s[2], ([], []))
        elif tag == "mutate":
            for r in getv(s[1])[0]:
                h.aver[r] = h.aver.get(r, 0) + 1
                h.cver[r] = h.cver.get(r, 0) + 1
        elif tag == "cmutate":
            for r in getv(s[1])[0]:
                h.cver[r] = h.cver.get(r, 0) + 1
        elif tag == "absorb":
            rs = getv(s[2])[1]
            for k in list(env):
                env[k] = (env[k][0], env[k][1] + rs)
        elif tag == "store":
            h.cache[s[1]] = getv(s[2])
        elif tag == "ret":
            state["ret"] = getv(s[1])
        elif tag in ("call", "cached"):
            raise ValueError("construct snippets must not call translated functions")
        elif tag == "skip":
            pass
        else:
            raise ValueError("unknown IR statement %r" % (s,))

    block(ir)
    return set(h.aver), set(h.cver), state["ret"]


def count_choices(ir):
    n = 0
    for s in ir:
        if s[0] == "ite":
            n += 1 + count_choices(s[1]) + count_choices(s[2])
        elif s[0] == "loop":
            n += 1 + count_choices(s[1])
    return n


def all_runs(ir, params, nroots, max_bits=10):
    """union over oracles (every branch choice, loops 0 or 1..2 trips) of what the IR may do"""
    nb = min(max_bits, 2 * count_choices(ir) + 1)
    ba, bc, ro, rr = set(), set(), set(), set()
    for bits in itertools.product([False, True], repeat=nb):
        def orc(bits=bits):
            yield from bits
            while True:
                yield False
        a, c, ret = run_concrete(ir, params, nroots, orc())
        ba |= a
        bc |= c
        if ret is not None:
            ro |= set(ret[0])
            rr |= set(ret[1])
    return ba, bc, ro, rr


def solve(irs, order, keyfn_name, max_rounds=None):
    """Python replay of `Program.summaries` (Gauss-Seidel rounds); for quick experiments only:
    the certificate that counts is the one Driver/C02.lean prints and the kernel re-checks."""
    bot = lambda: {"ok": True, "mutA": [], "mutC": [], "retOwn": [], "retReach": [], "esc": []}
    rows = {q: bot() for q in order}
    for _ in range(max_rounds or (len(order) + 1)):
        changed = False
        for q in order:
            an = Analysis(rows, keyfn_name)
            s = an.block(irs[q], AS()).s
            new = summ_join(rows[q], s)
            if not summ_le(new, rows[q]):
                changed = True
            rows[q] = new
        if not changed:
            break
    return rows
