"""py2lean: finitedifference.py stencil functions -> Gen/Stencils.lean.

Reads the AST of every module-level function named fd<N>_<kind>(f, i, inverse_dx)
whose body is `return (<sum of (coef) * f[i+k]>) * inverse_dx`, and the
order -> (backward, centered, forward) dispatch in FiniteDifference.__init__
together with the mask_len expression.  Never guesses: anything outside the
recognised shape raises TranslationError, which the check reports as a
broken obligation.
"""
import ast
import os
import re
from fractions import Fraction

from lib import fw


class TranslationError(Exception):
    pass


def const_frac(node):
    """Evaluate a literal rational expression: ints, + - * / unary minus."""
    if isinstance(node, ast.Constant) and isinstance(node.value, int) and not isinstance(node.value, bool):
        return Fraction(node.value)
    if isinstance(node, ast.UnaryOp) and isinstance(node.op, ast.USub):
        return -const_frac(node.operand)
    if isinstance(node, ast.UnaryOp) and isinstance(node.op, ast.UAdd):
        return const_frac(node.operand)
    if isinstance(node, ast.BinOp):
        a, b = const_frac(node.left), const_frac(node.right)
        if isinstance(node.op, ast.Add):
            return a + b
        if isinstance(node.op, ast.Sub):
            return a - b
        if isinstance(node.op, ast.Mult):
            return a * b
        if isinstance(node.op, ast.Div):
            if b == 0:
                raise TranslationError("division by zero literal")
            return a / b
    raise TranslationError("not a rational literal: " + ast.dump(node)[:80])


def offset_of(node, ivar):
    """f[i], f[i+k], f[i-k] -> k."""
    if isinstance(node, ast.Name) and node.id == ivar:
        return 0
    if isinstance(node, ast.BinOp) and isinstance(node.left, ast.Name) and node.left.id == ivar:
        k = const_frac(node.right)
        if k.denominator != 1:
            raise TranslationError("non-integer offset")
        if isinstance(node.op, ast.Add):
            return int(k)
        if isinstance(node.op, ast.Sub):
            return -int(k)
    raise TranslationError("unsupported index expression " + ast.dump(node)[:80])


def terms(node, fvar, ivar, sign=1):
    """Flatten a sum of `coef * f[idx]` terms."""
    if isinstance(node, ast.BinOp) and isinstance(node.op, ast.Add):
        return terms(node.left, fvar, ivar, sign) + terms(node.right, fvar, ivar, sign)
    if isinstance(node, ast.BinOp) and isinstance(node.op, ast.Sub):
        return terms(node.left, fvar, ivar, sign) + terms(node.right, fvar, ivar, -sign)
    if isinstance(node, ast.UnaryOp) and isinstance(node.op, ast.USub):
        return terms(node.operand, fvar, ivar, -sign)
    if isinstance(node, ast.BinOp) and isinstance(node.op, ast.Mult):
        for c, s in ((node.left, node.right), (node.right, node.left)):
            if (isinstance(s, ast.Subscript) and isinstance(s.value, ast.Name)
                    and s.value.id == fvar):
                return [(offset_of(s.slice, ivar), sign * const_frac(c))]
    if isinstance(node, ast.Subscript) and isinstance(node.value, ast.Name) and node.value.id == fvar:
        return [(offset_of(node.slice, ivar), Fraction(sign))]
    raise TranslationError("unsupported stencil term " + ast.dump(node)[:100])


def parse_stencil(fn):
    args = [a.arg for a in fn.args.args]
    if len(args) != 3:
        raise TranslationError(fn.name + ": expected (f, i, inverse_dx)")
    fvar, ivar, hvar = args
    body = [s for s in fn.body if not (isinstance(s, ast.Expr) and isinstance(s.value, ast.Constant))]
    if len(body) != 1 or not isinstance(body[0], ast.Return):
        raise TranslationError(fn.name + ": body is not a single return")
    e = body[0].value
    if not (isinstance(e, ast.BinOp) and isinstance(e.op, ast.Mult)):
        raise TranslationError(fn.name + ": not (<sum>) * inverse_dx")
    if isinstance(e.right, ast.Name) and e.right.id == hvar:
        s = e.left
    elif isinstance(e.left, ast.Name) and e.left.id == hvar:
        s = e.right
    else:
        raise TranslationError(fn.name + ": not (<sum>) * inverse_dx")
    return terms(s, fvar, ivar)


def parse_dispatch(cls):
    """order -> {backward, centered, forward} from the if/elif chain on
    self.fd_order in __init__, plus the default branch and mask_len."""
    init = [n for n in cls.body if isinstance(n, ast.FunctionDef) and n.name == "__init__"][0]
    table, default, mask = {}, None, None

    def assigns(stmts):
        d = {}
        for s in stmts:
            if (isinstance(s, ast.Assign) and len(s.targets) == 1
                    and isinstance(s.targets[0], ast.Attribute)
                    and isinstance(s.targets[0].value, ast.Name) and s.targets[0].value.id == "self"
                    and isinstance(s.value, ast.Name)):
                d[s.targets[0].attr] = s.value.id
            if (isinstance(s, ast.Assign) and isinstance(s.targets[0], ast.Attribute)
                    and s.targets[0].attr == "fd_order" and isinstance(s.value, ast.Constant)):
                d["fd_order"] = s.value.value
        return d

    def walk_if(node):
        nonlocal default
        t = node.test
        if (isinstance(t, ast.Compare) and isinstance(t.left, ast.Attribute) and t.left.attr == "fd_order"
                and len(t.ops) == 1 and isinstance(t.ops[0], ast.Eq)
                and isinstance(t.comparators[0], ast.Constant)):
            table[t.comparators[0].value] = assigns(node.body)
            if len(node.orelse) == 1 and isinstance(node.orelse[0], ast.If):
                walk_if(node.orelse[0])
            elif node.orelse:
                default = assigns(node.orelse)
            return True
        return False

    for s in init.body:
        if isinstance(s, ast.If):
            walk_if(s)
        if (isinstance(s, ast.Assign) and isinstance(s.targets[0], ast.Attribute)
                and s.targets[0].attr == "mask_len"):
            mask = ast.unparse(s.value)
    if not table or default is None or "fd_order" not in default:
        raise TranslationError("fd_order dispatch chain not recognised")
    table[default["fd_order"]] = default
    if mask != "int(self.fd_order / 2)":
        raise TranslationError("mask_len expression changed: %r" % mask)
    for o, d in table.items():
        for k in ("backward", "centered", "forward"):
            if k not in d:
                raise TranslationError("dispatch for order %s lacks %s" % (o, k))
    return table, default["fd_order"]


def generate():
    """Returns (lean_text, info) ; raises TranslationError."""
    src = fw.src_text("finitedifference.py")
    tree = ast.parse(src)
    sten = {}
    for n in tree.body:
        if isinstance(n, ast.FunctionDef) and re.fullmatch(r"fd\d+_(backward|centered|forward)", n.name):
            sten[n.name] = parse_stencil(n)
    cls = [n for n in tree.body if isinstance(n, ast.ClassDef) and n.name == "FiniteDifference"][0]
    table, default_order = parse_dispatch(cls)
    out = ["-- GENERATED by tools/py2lean/stencils.py from src/aurel/finitedifference.py — do not edit.",
           "import AurelVerif.Model.Splice",
           "namespace AurelVerif.Gen.Stencils",
           "open AurelVerif.Splice", ""]
    for name in sorted(sten):
        items = ", ".join("(%d, %s)" % (k, fw.frac_lean(c)) for k, c in sten[name])
        out.append("def %s : Stencil := [%s]" % (name, items))
    out.append("")
    out.append("/-- order ↦ scheme, as dispatched by `FiniteDifference.__init__`;")
    out.append("`maskLen = int(fd_order / 2)`; any other order falls back to %d. -/" % default_order)
    out.append("def scheme (order : Nat) : Scheme :=")
    first = True
    for o in sorted(table, reverse=True):
        if o == default_order:
            continue
        d = table[o]
        for k in ("forward", "centered", "backward"):
            if d[k] not in sten:
                raise TranslationError("dispatch refers to unknown stencil " + d[k])
        out.append("  %s order = %d then { fwd := %s, cen := %s, bwd := %s, maskLen := %d }"
                   % ("if" if first else "else if", o, d["forward"], d["centered"], d["backward"], o // 2))
        first = False
    d = table[default_order]
    out.append("  else { fwd := %s, cen := %s, bwd := %s, maskLen := %d }"
               % (d["forward"], d["centered"], d["backward"], default_order // 2))
    out.append("")
    out.append("def orders : List Nat := [%s]" % ", ".join(str(o) for o in sorted(table)))
    out.append("def allStencils : List (String × Stencil) := [%s]"
               % ", ".join('("%s", %s)' % (n, n) for n in sorted(sten)))
    out.append("")
    out.append("end AurelVerif.Gen.Stencils")
    return "\n".join(out) + "\n", {"stencils": {k: [(o, str(c)) for o, c in v] for k, v in sten.items()},
                                   "orders": sorted(table), "default": default_order}


def regen():
    text, info = generate()
    path = os.path.join(fw.LEAN, "AurelVerif", "Gen", "Stencils.lean")
    changed = fw.write_if_changed(path, text)
    return changed, info
