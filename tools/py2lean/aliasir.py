"""py2lean: alias IR of core.py, maths.py, finitedifference.py, numerical.py,
time.py, reading.py  ->  lean/AurelVerif/Gen/AliasIR.lean   (property C02).

For every function / method one alias-IR statement tree (Model/Heap.lean).
The translator is *conservative and closed-world*: every call, method name,
numpy function and syntactic form must be classified by one of the tables
below; anything else raises TranslationError (-> broken obligation).

What the IR keeps of a Python expression is only "which objects may the value
be / reach":
  * allocating expressions (np.array, arithmetic, einsum with a contraction or
    >= 2 operands, np.where, np.append/concatenate/stack/copy, .copy(), list /
    dict / tuple displays, list(), dict(), sorted() ...)      -> `join x ys`
  * certain numpy views (.T, np.transpose, reshape, np.real/imag, np.asarray,
    einsum with one operand and no summed index)              -> `alias x y`
  * subscripts, slices, iteration elements, attributes of local objects,
    calls the table lists as "may return (part of) an argument" -> `view x ys`
  * self["k"], self.data["k"]                                  -> `cached x k`
  * attributes of self / self.fd, module globals              -> `glob x k`
  * values that are certainly immutable scalars (numbers, strings, None,
    bool, results of len/int/str/isinstance/comparisons/f-strings, dict keys,
    set elements)                                              -> variable 0,
    which is never assigned (no roots).
In-place operations:
  * `x op= e`, `x[i] = e`, `x[i] op= e`, `.sort()`, `.fill()` ...  -> `mutate`
    unless the target is known to be a list / dict / set (then `cmutate`),
    followed by `absorb x e` when the target may store `e` by reference.
  * `.append/.extend/.remove/.pop/.update/.add/...`, `del x[k]`  -> `cmutate`.
Control flow: `if` -> ite, `for`/`while` -> loop (trip count abstracted),
`break`/`continue` -> the rest of the body becomes optional, `try` -> every
statement of the body may be the last one executed, then the handlers are
optional; `raise` -> `ret 0`.

Precision devices (each one a statement about Python that the dynamic monitor and the construct tests of
tools/py2lean/alias_constructs.py validate):
  * kinds: `imm` values have no roots; `list<imm>` etc. from displays, docstrings (A1: parameters AND the documented
    entries of **kwargs read by a constant name before the function overwrites them), the YAML name tables
    (kinds read off data/var_mappings.yml itself);
  * element variables X' of *simple* local containers (see simple_locals): reading an element of a container that can
    only be reached through one local name is `alias t X'`, not `view t [X]`;
  * `del p` of a parameter followed by a new binding: the rest of the block uses a new local (rename_after_del);
  * A4: AurelCore.data is the cache (`store`), last_accessed / var_importance its bookkeeping (check_bookkeeping).
numpy calls are classified by name (NP_FRESH / NP_VIEW0 / NP_MUT0, anything else is refused) and by how they are
called: `out=` (also as a tuple), a positional `out` (position taken from numpy's own signature / ufunc.nin),
`overwrite_input=` (keyword or positional) -> `mutate`; `copy=` -> result may share memory; `**kwargs` -> refused.
ndarray methods with `out=` -> `mutate`; too many positional arguments -> refused; `x.conj()` / np.flip are views.
`list.sort(x)` / `dict.update(d, e)` through the type are rewritten to bound method calls.  Entries of module-level
function tables (time.est_functions) must be lambdas (translated), module functions, or numpy functions of NP_FRESH.

Outputs: Gen/AliasIR.lean (the program), Gen/AliasSumm.lean (summary table
computed by Driver/C02.lean = certificate), Gen/AliasChk<k>.lean (kernel
decides `checkFn` for a range of functions), Gen/AliasCheck.lean (the chunks
together are `checkWith program summaries`).

Exemptions and assumptions (each validated by the dynamic monitor of
tools/props/C02.py) are collected in CPUB_EXEMPT / NONSTRICT / EXPR_KINDS /
PARAM_KINDS / CALLBACK_PARAMS / SKIP_FUNCS / BOOKKEEPING_ATTRS below; A1 = documented
parameter (and keyword entry) types, A2 = rel.data entries have the type their key's
method returns, A3 = callbacks are pure, A4 = cache bookkeeping.  Functions of reading.py
and time.py carry the container-level claim (`strict`, `cpub`); NAMED_FUNCTIONS get a
constant `fid_<module>_<name>` for Props/C02Containers.lean.
"""
import ast
import os

from lib import fw


class TranslationError(Exception):
    pass


MODULES = [("maths", "maths.py"), ("numerical", "numerical.py"), ("fd", "finitedifference.py"),
           ("core", "core.py"), ("time", "time.py"), ("reading", "reading.py")]
CLASS_OF_ATTR = {("core.AurelCore", "fd"): "fd.FiniteDifference"}
SKIP_FUNCS = {"core.AurelCore.__getitem__":
              "the dispatcher itself: its semantics (return the cache entry, else call the key's method and store "
              "the result) is the built-in meaning of the IR statement `cached`"}

# ---------------------------------------------------------------- exemptions
# Functions whose *container* argument is documented to be updated in place.
CPUB_EXEMPT = {
    "reading.collect_overall_iterations": "docstring: returns 'the input dictionary with an added overall key' "
                                          "(helper of iterations(), which passes a dict it built itself)",
    "reading.saveprint": "writes to the file object it is given (that is its purpose)",
    "time.process_single_timestep": "docstring of its parameter `data`: 'The function will add calculated variables "
                                    "to this dictionary'; it stays `strict` (nothing but argument objects themselves) "
                                    "and Props/C02Containers.lean proves that `data` is the only one",
}
# Save/read functions for which the deep container claim (nothing that existed before the call is structurally
# modified) is NOT established statically.  (read_ET_data / read_data / join_chunks used to be listed here; since the
# translator knows the documented types of keyword entries, the YAML name tables and the element variables of simple
# local containers they pass the strict check.)
NONSTRICT = {
    "reading.collect_overall_iterations": "updates its argument in place by design (see CPUB_EXEMPT)",
}
# Modules whose functions carry the container-level claim (`strict`, and `cpub` when public).
CONTAINER_CLAIM_MODULES = ("reading", "time")
# Functions named in Props/C02Containers.lean (a constant `fid_<module>_<name>` is generated for each).
NAMED_FUNCTIONS = [
    "reading.read_data", "reading.read_ET_data", "reading.read_aurel_data", "reading.save_data",
    "reading.join_chunks", "reading.read_ET_group_or_var", "reading.read_ET_variables", "reading.read_ET_checkpoints",
    "reading.transform_vars_tensor_to_scalar", "reading.transform_vars_aurel_to_ET",
    "reading.transform_vars_ET_to_aurel_groups", "reading.transform_vars_ET_to_aurel",
    "time.over_time", "time.process_single_timestep",
]
# Kinds of sub-expressions the translator cannot infer (what kind of object a nested subscript denotes).
# (function, source text of the expression) -> kind.  Each entry is a fact about the code as it is now.
EXPR_KINDS = {
    ("reading.collect_overall_iterations", "its_available['overall']"):
        ("dict", "the dict assigned by `its_available['overall'] = {}` at the top of the same call"),
    ("reading.iterations", "its_available[restart]"):
        ("dict", "either the dict assigned by `its_available[restart] = {}` at the top of the loop body or one of "
                 "the per-restart dicts parsed from iterations.txt by read_iterations"),
    ("reading.read_ET_data", "its_available[restart]"):
        ("dict<list<imm>>", "per-restart dict of the catalogue returned by iterations() in this call: every value is a "
                       "list of numbers or strings (var available, its available, rl = n, checkpoints, it to do)"),
    ("reading.read_ET_checkpoints", "data.setdefault(aurel_v, [])"):
        ("list", "the default is a new list; an existing entry under a variable name was created by this same "
                 "statement for an earlier iteration (the keys 'it' and 't' are not variable names)"),
    ("reading.read_ET_checkpoints", "data['t']"):
        ("list", "assigned `[]` in the display that creates `data` a few lines above"),
    ("reading.read_ET_data", "datar[restart][av]"):
        ("list", "datar[restart] is the dict returned by read_aurel_data in this call; `av` ranges over "
                 "avar + ['t'], whose entries are the lists made by `{v: [] for v in var}` (never the 'it' array)"),
}
# Parameter kinds the docstrings state in prose only (assumption A1 as for docstring_kinds).
PARAM_KINDS = {
    ("reading.read_ET_group_or_var", "files"): ("list<imm>", "docstring: 'Each file is a string that identifies the file'"),
    ("reading.read_ET_group_or_var", "variables"): ("list<imm>", "docstring: 'Each variable is a string'"),
    ("reading.read_ET_variables", "var"): ("list<imm>", "docstring: the variables (names) to read"),
    ("reading.read_ET_variables", "vars_and_files"):
        ("dict<list<imm>>", "get_content docstring: maps tuples of variable names to lists of file paths"),
    ("reading.read_ET_checkpoints", "var"): ("list<imm>", "docstring: the variables (names) to read"),
}
# Assumption A4 (cache abstraction).  `AurelCore.data` IS the cache of the model (`Heap.cache`; `self.data[k] = v` is
# the IR statement `store`), not a heap object with a version counter.  The two dicts that record, per cache key, when
# it was last used and how important it is are part of the same abstraction: inserting, overwriting or evicting an
# entry of these three dicts is not a "container operation on an object that existed before the call" in the sense
# of C02 (the property is about the arrays held in the cache and about the argument lists / dicts of the save / read /
# time-series functions).  Side conditions, CHECKED on every run by check_bookkeeping(): the two bookkeeping dicts are
# created by AurelCore.__init__ (after the user's keyword attributes have been set), only ever hold immutable numbers,
# and are only ever used as `x.attr[k]`, `x.attr[k] = number`, `del x.attr[k]`, `k in x.attr`, `x.attr.get/items/keys/
# values()` - so no reference to them can be an argument object of another function or be stored anywhere else.
BOOKKEEPING_ATTRS = {
    "last_accessed": "per cache key: value of calculation_count when the entry was last requested (ints)",
    "var_importance": "per cache key: weight used by cleanup_cache (floats)",
}
BOOKKEEPING_CLASS = "core.AurelCore"
BOOKKEEPING_READ_METHODS = {"get", "items", "keys", "values"}

# Call sites whose callee is supplied by the user (callbacks): assumed not to
# mutate their arguments; result may alias the arguments.
CALLBACK_PARAMS = {
    ("time.over_time", "function"), ("time.process_single_timestep", "function"),
    ("time.process_single_timestep", "func"), ("time.validate_estimation_function", "func"),
    ("time.validate_variable_function", "func"), ("numerical.dichotomy", "function"),
}

# ------------------------------------------------------------------- tables
IMM = 0  # IR variable 0: never assigned (no roots)
FRESHV = -1  # pseudo variable: a newly allocated object holding no references that has not been named yet
# (arithmetic sub-results, np.zeros(...)): materialised as `join t []` only where it is bound, passed or returned

NP_FRESH = {
    "array", "zeros", "ones", "empty", "zeros_like", "ones_like", "empty_like", "full", "full_like", "arange",
    "linspace", "meshgrid", "sqrt", "abs", "absolute", "log", "exp", "sin", "cos", "tan", "arccos", "arcsin",
    "arctan", "arctan2", "sinh", "cosh", "sign", "where", "append", "concatenate", "stack", "copy", "sum", "max",
    "min", "mean", "median", "percentile", "std", "var", "argmin", "argmax", "sort", "diff", "delete",
    "logical_and", "logical_or", "logical_not", "conj", "conjugate", "shape", "isnan", "isfinite", "prod",
    "cumsum", "unique", "dot", "matmul", "tensordot", "outer", "cross", "power", "maximum", "minimum", "floor",
    "ceil", "round", "all", "any", "nanmax", "nanmin", "nanmean", "allclose", "isclose", "array_equal", "size",
    "ndim", "errstate", "float32", "float64", "int32", "int64", "complex128", "gradient", "interp", "roll",
    "tile", "repeat", "identity", "eye", "trace", "linalg.norm", "linalg.inv", "linalg.det",
    "partition", "argpartition", "argsort", "quantile", "nanpercentile", "nanquantile", "nanmedian", "nansum",
    "nanstd", "nanvar", "add", "subtract", "multiply", "divide", "true_divide", "negative", "square", "clip",
    "take", "average", "count_nonzero", "log10", "log2", "tanh", "arcsinh", "arccosh", "arctanh", "hypot",
    "fabs", "mod", "remainder", "floor_divide", "reciprocal", "exp2", "expm1", "log1p", "cbrt", "deg2rad", "rad2deg",
    "greater", "greater_equal", "less", "less_equal", "equal", "not_equal", "logical_xor", "isinf", "signbit",
}
# (np.flip returns a VIEW of its argument: it is in NP_VIEW0, not here.)
# numpy functions that write into their FIRST argument and return None
NP_MUT0 = {"copyto", "put", "place", "putmask", "fill_diagonal", "put_along_axis", "random.shuffle"}
# keyword arguments that let a numpy function work in place on its (first) input
NP_INPLACE_KW = {"overwrite_input"}
# ndarray methods of M_FRESH: number of positional arguments BEFORE a positional `out` (more -> refused)
ARRAY_METHOD_MAXPOS = {"sum": 2, "mean": 2, "std": 2, "var": 2, "prod": 2, "cumsum": 2, "max": 1, "min": 1,
                       "argmin": 1, "argmax": 1, "round": 1, "dot": 1, "clip": 2, "astype": 1, "repeat": 2,
                       "flatten": 1, "nonzero": 0, "tolist": 0, "conj": 0, "conjugate": 0}
_np_sig_cache = {}


def np_param_index(name, param):
    """index at which numpy function `np.<name>` accepts `param` POSITIONALLY (None: keyword-only / absent).
    ufuncs: every positional argument after the `nin` inputs is an output array."""
    key = (name, param)
    if key not in _np_sig_cache:
        import inspect
        import numpy
        f = numpy
        try:
            for part in name.split("."):
                f = getattr(f, part)
            if isinstance(f, numpy.ufunc):
                idx = f.nin if param == "out" else None
            else:
                ps = list(inspect.signature(f).parameters.values())
                idx = next((i for i, q in enumerate(ps) if q.name == param
                            and q.kind in (q.POSITIONAL_ONLY, q.POSITIONAL_OR_KEYWORD)), None)
                if any(q.kind == q.VAR_POSITIONAL for q in ps[:idx if idx is not None else len(ps)]):
                    idx = None
        except (AttributeError, ValueError, TypeError):
            idx = -1            # cannot be inspected
        _np_sig_cache[key] = idx
    return _np_sig_cache[key]
# result certainly a view of (or identical to) the first argument
NP_VIEW0 = {"flip", "fliplr", "flipud", "rot90",
            "transpose", "reshape", "real", "imag", "asarray", "squeeze", "ravel", "swapaxes", "moveaxis",
            "atleast_1d", "atleast_2d", "atleast_3d", "broadcast_to", "diagonal", "expand_dims", "asanyarray",
            "ascontiguousarray"}
NP_CONST = {"pi", "nan", "inf", "e", "newaxis", "float32", "float64", "int32", "int64", "integer", "ndarray",
            "complex128", "floating"}

# builtins returning immutable scalars / nothing aliasable
BUILTIN_IMM = {"len", "int", "float", "str", "bool", "complex", "isinstance", "print", "range", "abs", "type",
               "callable", "hasattr", "round", "repr", "id", "hash", "ord", "chr", "format", "issubclass", "all",
               "any", "input", "divmod", "pow"}
# builtins returning a new container that references (contents of) the arguments
BUILTIN_JOIN = {"list", "dict", "tuple", "sorted", "zip", "enumerate", "reversed", "filter", "map", "iter"}
# result may be one of the elements of the arguments
BUILTIN_VIEW = {"max", "min", "sum", "next", "getattr"}
# elements are hashable, hence immutable: nothing to track
BUILTIN_FRESH = {"set", "frozenset", "object", "open"}
# external modules: pure w.r.t. their Python arguments; result may alias arguments
EXTERNAL_MODULES = {"os", "re", "glob", "json", "inspect", "sys", "contextlib", "warnings", "sc", "scipy", "yaml",
                    "h5py"}
EXTERNAL_FUNCS = {"get_size", "load_descriptions", "is_notebook", "display", "Latex", "tqdm"}

# methods (on any receiver) that do not modify the receiver
M_IMM = {  # result immutable scalar
    "isdigit", "endswith", "startswith", "index", "count", "find", "item", "is_integer", "isatty", "exists",
    "strip", "lstrip", "rstrip", "replace", "lower", "upper", "format", "join", "zfill", "title", "isalpha",
    "isnumeric", "any", "all", "group", "groups",
}
M_FRESH = {  # result a new object holding no reference to the receiver's mutable parts
    "astype", "flatten", "sum", "min", "max", "mean", "std", "var", "round", "argmin",
    "argmax", "cumsum", "prod", "dot", "nonzero", "split", "rsplit", "splitlines", "partition_str", "read",
    "readlines", "readline", "encode", "decode", "tobytes", "tolist", "clip", "repeat",
    # re.Pattern methods: the match object / list of strings holds nothing mutable
    "match", "search", "fullmatch", "findall",
}
M_COPY = {"copy"}  # new object; for containers it references the same elements
# numpy views of the receiver (`x.conj()` of a real array IS x)
M_ALIAS = {"reshape", "transpose", "view", "squeeze", "ravel", "swapaxes", "conj", "conjugate", "diagonal"}
M_VIEW = {  # may return (part of) the receiver or an argument
    "keys", "values", "items", "get", "most_common", "__getitem__", "require_group",
}
# methods that change the receiver
M_MUT_ARRAY = {"sort", "fill", "put", "itemset", "resize", "partition", "setflags", "byteswap", "setfield",
               "__setitem__", "__iadd__", "reverse"}
M_MUT_CONT = {"remove", "pop", "popitem", "clear", "discard"}
M_MUT_CONT_ABSORB = {"append", "extend", "insert", "add", "update", "setdefault", "appendleft"}
M_FILE = {"seek", "write", "flush", "close", "create_dataset", "create_group", "truncate", "writelines"}

ATTR_IMM = {"shape", "ndim", "dtype", "size", "nbytes", "itemsize", "__code__", "co_argcount", "__name__",
            "__doc__", "parameters", "sep", "pathsep", "stdout", "stderr"}
ATTR_ALIAS = {"T", "real", "imag", "flat", "base"}

DICT_EVIDENCE = {"keys", "values", "items", "get", "update", "setdefault", "popitem"}
LIST_EVIDENCE = {"append", "extend", "remove", "insert"}
# methods only str has: a name they are called on holds a string (immutable)
STR_EVIDENCE = {"endswith", "startswith", "split", "strip", "isdigit", "lower", "upper", "splitlines", "rstrip",
                "lstrip", "encode"}

K_IMM, K_ARR, K_LIST, K_DICT, K_SET, K_TUPLE, K_FUNC, K_CORE, K_FTAB, K_UNK, K_EXT = (
    "imm", "arr", "list", "dict", "set", "tuple", "func", "aurelcore", "functable", "unk", "ext")


CONTAINER_BASES = ("list", "dict", "tuple", "set")


def kbase(k):
    """'dict<list<arr>>' -> 'dict'"""
    return k.split("<", 1)[0] if isinstance(k, str) else k


def kelem(k):
    """element kind of a container kind: None = no element stored so far, K_UNK = not known"""
    if isinstance(k, str) and "<" in k:
        return k[k.index("<") + 1:-1] or None
    return K_UNK


def kmk(base, elem):
    return "%s<%s>" % (base, elem or "")


def holds_no_refs(k):
    """a container kind all of whose elements are immutable scalars (or that has no element yet):
    extending another container by its elements stores no reference"""
    return kbase(k) in CONTAINER_BASES and isinstance(k, str) and "<" in k and kelem(k) in (K_IMM, None)


def kjoin(a, b):
    if a is None:
        return b
    if b is None:
        return a
    if a == b:
        return a
    if kbase(a) == kbase(b) and kbase(a) in CONTAINER_BASES:
        if "<" not in a or "<" not in b:
            return kbase(a)
        return kmk(kbase(a), kjoin(kelem(a), kelem(b)))
    if {a, b} == {K_IMM, K_ARR}:
        return "arr?"      # scalar or array (sumY = 0; sumY += array)
    if "arr?" in (a, b) and (a in (K_IMM, K_ARR) or b in (K_IMM, K_ARR)):
        return "arr?"
    return K_UNK


# ------------------------------------------------------------ program model
class FuncInfo:
    def __init__(self, qname, node, module, cls, lineno):
        if isinstance(node, ast.FunctionDef) and any(isinstance(x, ast.Delete) for x in ast.walk(node)):
            node = rename_after_del(node)
        self.qname, self.node, self.module, self.cls, self.lineno = qname, node, module, cls, lineno
        a = node.args
        pos = [x.arg for x in a.posonlyargs + a.args]
        if cls and pos and pos[0] == "self":
            pos = pos[1:]
        self.is_method = bool(cls)
        self.pos = pos
        self.kwonly = [x.arg for x in a.kwonlyargs]
        self.vararg = a.vararg.arg if a.vararg else None
        self.kwarg = a.kwarg.arg if a.kwarg else None
        self.params = pos + self.kwonly + ([self.vararg] if self.vararg else []) + ([self.kwarg] if self.kwarg else [])
        for d in list(a.defaults) + [k for k in a.kw_defaults if k is not None]:
            if isinstance(d, (ast.List, ast.Dict, ast.Set, ast.Call, ast.ListComp, ast.DictComp)):
                raise TranslationError("%s: mutable default argument (shared between calls) is not modelled" % qname)
        self.fparams = {}    # param name -> set of function qnames it may hold
        self.body_ir = None
        self.calls = set()
        self.nvars = 0


class World:
    def __init__(self):
        self.funcs = {}        # qname -> FuncInfo
        self.classes = {}      # "core.AurelCore" -> {method names}
        self.modfuncs = {}     # module -> {name: qname}
        self.globals_ = {}     # module -> {global names assigned at module level}
        self.functables = {}   # (module, name) -> set of qnames / "np" entries
        self.attr_kinds = {}   # (class, attr) -> kind
        self.attr_funcs = {}   # (class, attr) -> set of function qnames
        self.global_kinds = {}  # (module, global name) -> kind read off the data file it is loaded from
        self.keys = {}         # key name -> id
        self.key_names = []
        self.assumptions = []
        self.callback_sites = []

    def key(self, name):
        if name not in self.keys:
            self.keys[name] = len(self.key_names)
            self.key_names.append(name)
        return self.keys[name]


def load_world(sources=None):
    """sources: [(module name, source text)]; default: the six modules of aurel"""
    w = World()
    if sources is None:
        sources = [(mod, fw.src_text(rel)) for mod, rel in MODULES]
    for mod in list(AUREL_MODULE_NAMES.values()) + [m for m, _ in MODULES]:
        w.modfuncs.setdefault(mod, {})
        w.globals_.setdefault(mod, set())
    for mod, text in sources:
        tree = ast.parse(text)
        w.modfuncs[mod] = {}
        w.globals_[mod] = set()
        for n in tree.body:
            if isinstance(n, ast.FunctionDef):
                q = "%s.%s" % (mod, n.name)
                w.funcs[q] = FuncInfo(q, n, mod, None, n.lineno)
                w.modfuncs[mod][n.name] = q
            elif isinstance(n, ast.ClassDef):
                cq = "%s.%s" % (mod, n.name)
                w.classes[cq] = set()
                for m in n.body:
                    if isinstance(m, ast.FunctionDef):
                        q = "%s.%s" % (cq, m.name)
                        w.classes[cq].add(m.name)
                        if q in SKIP_FUNCS:
                            continue
                        w.funcs[q] = FuncInfo(q, m, mod, cq, m.lineno)
            elif isinstance(n, (ast.Assign, ast.AnnAssign)):
                tg = n.targets if isinstance(n, ast.Assign) else [n.target]
                for t in tg:
                    for nm in ast.walk(t):
                        if isinstance(nm, ast.Name):
                            w.globals_[mod].add(nm.id)
                # tables loaded from data/var_mappings.yml: `name = _varmaps['key']`
                if (isinstance(n, ast.Assign) and len(n.targets) == 1 and isinstance(n.targets[0], ast.Name)
                        and isinstance(n.value, ast.Subscript) and isinstance(n.value.value, ast.Name)
                        and n.value.value.id == YAML_TABLES[1] and isinstance(n.value.slice, ast.Constant)):
                    k = yaml_table_kind(n.value.slice.value)
                    if k:
                        w.global_kinds[(mod, n.targets[0].id)] = k
                # global dict of functions (time.est_functions)
                if (isinstance(n, ast.Assign) and len(n.targets) == 1 and isinstance(n.targets[0], ast.Name)
                        and isinstance(n.value, ast.Dict) and n.value.values
                        and all(isinstance(v, (ast.Lambda, ast.Attribute, ast.Name)) for v in n.value.values)):
                    entries = set()
                    for k, v in zip(n.value.keys, n.value.values):
                        if isinstance(v, ast.Lambda):
                            kname = k.value if isinstance(k, ast.Constant) else "?"
                            q = "%s.%s[%s]" % (mod, n.targets[0].id, kname)
                            fn = ast.FunctionDef(name=q, args=v.args, body=[ast.Return(value=v.body)],
                                                 decorator_list=[], lineno=v.lineno, col_offset=0)
                            ast.fix_missing_locations(fn)
                            w.funcs[q] = FuncInfo(q, fn, mod, None, v.lineno)
                            entries.add(q)
                        else:
                            pth = dotted(v)
                            if pth and pth[0] == "np" and ".".join(pth[1:]) in NP_FRESH:
                                entries.add("ext")       # allocates its result, writes nowhere (no out= given)
                            elif pth and len(pth) == 1 and pth[0] in w.modfuncs[mod]:
                                entries.add(w.modfuncs[mod][pth[0]])
                            else:
                                raise TranslationError("%s.%s[%r]: entry %s of a function table is not a numpy function "
                                                       "known to be pure" % (mod, n.targets[0].id,
                                                                             getattr(k, "value", "?"), ast.unparse(v)))
                    w.functables[(mod, n.targets[0].id)] = entries
            elif isinstance(n, (ast.If, ast.With, ast.Try, ast.For)):
                for nm in ast.walk(n):
                    if isinstance(nm, ast.Name) and isinstance(nm.ctx, ast.Store):
                        w.globals_[mod].add(nm.id)
    return w


# ------------------------------------------------------------- data tables
YAML_TABLES = ("data/var_mappings.yml", "_varmaps")   # reading.py: `_varmaps = yaml.safe_load(<that file>)`
_yaml_cache = {}


def yaml_table_kind(key):
    """kind of `_varmaps[key]`, read off the data file itself (a fact about the file as it is now):
    a mapping of names to names -> dict<imm>, a mapping of names to lists of names -> dict<list<imm>>"""
    if "tables" not in _yaml_cache:
        import yaml
        with open(os.path.join(fw.SRC, YAML_TABLES[0])) as f:
            _yaml_cache["tables"] = yaml.safe_load(f)
    t = _yaml_cache["tables"].get(key)
    scalar = lambda x: isinstance(x, (str, int, float, bool)) or x is None
    if not isinstance(t, dict) or not all(scalar(k) for k in t):
        return None
    if all(scalar(v) for v in t.values()):
        return kmk(K_DICT, K_IMM)
    if all(isinstance(v, list) and all(scalar(x) for x in v) for v in t.values()):
        return kmk(K_DICT, kmk(K_LIST, K_IMM))
    return None


# ------------------------------------------------------------- small helpers
def dotted(n):
    """Attribute chain rooted at a Name -> list of identifiers, else None."""
    path = []
    while isinstance(n, ast.Attribute):
        path.append(n.attr)
        n = n.value
    if isinstance(n, ast.Name):
        path.append(n.id)
        return path[::-1]
    return None


def root_name(n):
    """Name at the root of a chain of subscripts / attributes / method calls, else None."""
    while True:
        if isinstance(n, ast.Name):
            return n.id
        if isinstance(n, (ast.Subscript, ast.Attribute, ast.Starred)):
            n = n.value
        elif isinstance(n, ast.Call) and isinstance(n.func, ast.Attribute):
            n = n.func.value
        elif isinstance(n, ast.Call) and isinstance(n.func, ast.Name) and n.args and n.func.id in (
                "list", "sorted", "reversed", "tuple", "enumerate", "zip", "iter", "next"):
            n = n.args[0]
        else:
            return None


def is_strish(n):
    if isinstance(n, ast.JoinedStr):
        return True
    if isinstance(n, ast.Constant) and isinstance(n.value, str):
        return True
    if isinstance(n, ast.BinOp) and isinstance(n.op, (ast.Add, ast.Mod)):
        return is_strish(n.left) or is_strish(n.right)
    if isinstance(n, ast.Call) and isinstance(n.func, ast.Name) and n.func.id == "str":
        return True
    return False


def einsum_is_view(call):
    """np.einsum(<constant subscripts>, one operand) with no summed index."""
    if not call.args or not isinstance(call.args[0], ast.Constant) or not isinstance(call.args[0].value, str):
        return None       # unknown
    spec = call.args[0].value.replace(" ", "")
    if len(call.args) != 2 or "," in spec:
        return False
    if "->" not in spec:
        return None
    lhs, rhs = spec.split("->")
    lhs, rhs = lhs.replace("...", ""), rhs.replace("...", "")
    return all(c in rhs for c in lhs)


PY_BUILTIN_NAMES = {"True", "False", "None", "ValueError", "TypeError", "KeyError", "IndexError", "ImportError",
                    "OSError", "FileNotFoundError", "NotImplementedError", "Exception", "ImportWarning",
                    "RuntimeError", "AttributeError", "UserWarning", "RecursionError", "StopIteration",
                    "np", "os", "re", "glob", "json", "inspect", "sys", "contextlib", "warnings", "sc", "scipy",
                    "yaml", "h5py", "__file__", "NotImplemented", "Ellipsis",
                    "list", "dict", "tuple", "set", "int", "float", "str", "complex", "bool", "type", "object"}
AUREL_MODULE_NAMES = {"maths": "maths", "numerical": "numerical", "core": "core"}


# ----------------------------------------------------- element variables of simple local containers
# A local name X is *simple* when the container it is bound to can only be reached through the name X itself:
#   * X is not a parameter, and every binding of X is `X = <new container>`: a list / dict display, a list / dict
#     comprehension, `list()` / `dict()`, or a shallow copy `sorted(Y)`, `list(Y)`, `Y.copy()`, `Y[a:b]` of a local Y;
#   * every other occurrence of X is one of: `X[i]` (load, store, del, augmented), `X.m(...)` with m a list / dict
#     method, `for .. in X`, an argument of a builtin / numpy / external function (which store nothing into their
#     arguments), `*X` / `**X`, `return X`, a comparison, a truth test, `Y += X`, an f-string, `del X`.
#   So X is never copied to another name, stored into another container, captured by a lambda or passed to a
#   translated function: every element X ever holds was put there by a statement of this function that names X.
# For such a name the IR gets a second variable X' ("any element of X"): every statement that stores an element
# also executes `ite (alias X' v) skip` (the oracle decides which of the elements X' stands for), and reading an
# element (`X[i]`, iteration, .get/.pop/.setdefault/.values()/.items()) is `alias t X'` instead of `view t [X]`
# (which could also be X itself or anything X reaches).  For every single element read of a real execution there is
# an oracle under which X' holds exactly the object that was read, so a mutation of a pre-existing object through an
# element of X is reproduced by some IR execution - which is what the soundness theorem quantifies over.
SIMPLE_METHODS = {"keys", "values", "items", "get", "pop", "setdefault", "append", "extend", "insert", "update",
                  "remove", "copy", "index", "count", "sort", "reverse", "clear", "popitem"}
SIMPLE_PURE_CALLEES = {"len", "list", "sorted", "print", "str", "enumerate", "zip", "reversed", "tuple", "set",
                       "isinstance", "any", "all", "sum", "min", "max", "repr", "bool", "iter", "dict", "type"}


def _parents(root):
    par = {}
    for n in ast.walk(root):
        for c in ast.iter_child_nodes(n):
            par[c] = n
    return par


def _new_container_form(v, locals_):
    if isinstance(v, (ast.Dict, ast.List, ast.ListComp, ast.DictComp)):
        return True
    if isinstance(v, ast.Call) and isinstance(v.func, ast.Name) and v.func.id in ("list", "dict") and not v.args \
            and not v.keywords and v.func.id not in locals_:
        return True
    if (isinstance(v, ast.Call) and isinstance(v.func, ast.Name) and v.func.id in ("sorted", "list")
            and v.func.id not in locals_ and len(v.args) == 1 and isinstance(v.args[0], ast.Name)
            and all(kw.arg in ("key", "reverse") for kw in v.keywords)):
        return True
    if (isinstance(v, ast.Call) and isinstance(v.func, ast.Attribute) and v.func.attr == "copy" and not v.args
            and isinstance(v.func.value, ast.Name)):
        return True
    if isinstance(v, ast.Subscript) and isinstance(v.slice, ast.Slice) and isinstance(v.value, ast.Name):
        return True
    return False


def simple_locals(fi, locals_):
    par = _parents(fi.node)
    bad, seen, bound = set(), set(), set()
    in_lambda = set()
    for n in ast.walk(fi.node):
        if isinstance(n, ast.Lambda):
            for m in ast.walk(n.body):
                if isinstance(m, ast.Name):
                    in_lambda.add(m.id)
        if isinstance(n, (ast.Global, ast.Nonlocal)):
            bad.update(n.names)
        if isinstance(n, ast.ExceptHandler) and n.name:
            bad.add(n.name)

    def pure_call(call):
        f = call.func
        if isinstance(f, ast.Name):
            return f.id not in locals_ and (f.id in SIMPLE_PURE_CALLEES or f.id in EXTERNAL_FUNCS)
        p = dotted(f)
        return bool(p) and p[0] not in locals_ and (p[0] == "np" or p[0] in EXTERNAL_MODULES)

    def truth_test(node, child):
        if isinstance(node, (ast.If, ast.While, ast.IfExp)) and node.test is child:
            return True
        if isinstance(node, ast.UnaryOp) and isinstance(node.op, ast.Not):
            return True
        if isinstance(node, ast.BoolOp):
            return truth_test(par.get(node), node)
        return False

    for n in ast.walk(fi.node):
        if not isinstance(n, ast.Name) or n.id not in locals_ or n.id in fi.params:
            continue
        x, p = n.id, par.get(n)
        seen.add(x)
        if isinstance(n.ctx, ast.Store):
            if isinstance(p, ast.Assign) and len(p.targets) == 1 and p.targets[0] is n \
                    and _new_container_form(p.value, locals_):
                bound.add(x)
            elif isinstance(p, ast.AugAssign) and p.target is n and isinstance(p.op, ast.Add):
                pass                                  # list += ...: in-place extension (X is a list, see the forms)
            else:
                bad.add(x)
            continue
        if isinstance(n.ctx, ast.Del):
            if not isinstance(p, ast.Delete):
                bad.add(x)
            continue
        ok = False
        if isinstance(p, ast.Subscript) and p.value is n:
            ok = True
        elif isinstance(p, ast.Attribute) and p.value is n:
            g = par.get(p)
            ok = isinstance(g, ast.Call) and g.func is p and p.attr in SIMPLE_METHODS
        elif isinstance(p, ast.Call) and n in p.args:
            ok = pure_call(p)
        elif isinstance(p, ast.keyword) and isinstance(par.get(p), ast.Call):
            ok = p.arg is None or pure_call(par[p])   # **X: the callee receives the entries in a new dict
        elif isinstance(p, ast.Starred) and isinstance(par.get(p), ast.Call):
            ok = True                                 # *X: the callee receives the elements in a new tuple
        elif isinstance(p, ast.Return):
            ok = True
        elif isinstance(p, ast.Compare):
            ok = True
        elif truth_test(p, n):
            ok = True
        elif isinstance(p, (ast.For, ast.comprehension)) and p.iter is n:
            ok = True
        elif isinstance(p, ast.AugAssign) and p.value is n and isinstance(p.target, ast.Name):
            ok = True
        elif isinstance(p, ast.FormattedValue):
            ok = True
        if not ok:
            bad.add(x)
    return {x for x in bound if x not in bad and x not in in_lambda}


def rename_after_del(fn):
    """`del P` of a parameter P followed, in the same statement list, by other statements: these can only use P after
    binding it again, so the rest of the list is translated with a new local `P__2` (and `P = P__2` at its end unless
    it ends in return / raise).  Lets the translator see that the dict over_time builds under the name of its
    parameter `data` is a new object.  Returns a copy of fn."""
    import copy
    fn = copy.deepcopy(fn)
    a = fn.args
    params = {x.arg for x in a.posonlyargs + a.args + a.kwonlyargs} | ({a.vararg.arg} if a.vararg else set()) | (
        {a.kwarg.arg} if a.kwarg else set())
    counter = {}

    class Ren(ast.NodeTransformer):
        def __init__(self, old, new):
            self.old, self.new = old, new

        def visit_Name(self, n):
            if n.id == self.old:
                return ast.copy_location(ast.Name(id=self.new, ctx=n.ctx), n)
            return n

    def lists_of(node):
        for fld in ("body", "orelse", "finalbody"):
            l = getattr(node, fld, None)
            if isinstance(l, list) and l and isinstance(l[0], ast.stmt):
                yield l
        for h in getattr(node, "handlers", []) or []:
            yield h.body

    def process(stmts):
        i = 0
        while i < len(stmts):
            st = stmts[i]
            if isinstance(st, ast.Delete) and i + 1 < len(stmts):
                for tg in st.targets:
                    rebound = any(isinstance(m, ast.Name) and m.id == getattr(tg, "id", None)
                                  and isinstance(m.ctx, ast.Store) for r in stmts[i + 1:] for m in ast.walk(r))
                    if isinstance(tg, ast.Name) and tg.id in params and rebound:
                        counter[tg.id] = counter.get(tg.id, 1) + 1
                        new = "%s__%d" % (tg.id, counter[tg.id])
                        rest = [Ren(tg.id, new).visit(r) for r in stmts[i + 1:]]
                        if not isinstance(rest[-1], (ast.Return, ast.Raise)):
                            back = ast.Assign(targets=[ast.Name(id=tg.id, ctx=ast.Store())],
                                              value=ast.Name(id=new, ctx=ast.Load()))
                            rest.append(ast.copy_location(back, rest[-1]))
                        stmts[i + 1:] = rest
            for l in lists_of(st):
                process(l)
            i += 1
    process(fn.body)
    ast.fix_missing_locations(fn)
    return fn


class FT:
    """Translator of one function."""

    def __init__(self, w, fi, kinds, lfuncs):
        self.w, self.fi = w, fi
        self.kinds = dict(kinds)          # name kinds assumed (from the previous round)
        self.newkinds = {}                # name kinds observed in this round
        self.lfuncs = lfuncs              # local name -> function candidates (previous round)
        self.newlfuncs = {}
        self.vars = {}
        self.nvars = 1                    # variable 0 is reserved
        self.cur = []
        self.callbacks = []
        self.varline, self.curline = {}, 0
        self.used_expr_kinds = set()
        self.scope_kinds = {}
        self.parents = {}                 # local name -> names of the containers it was taken out of
        self.stored_through = set()       # local names through which something was stored / appended
        self.soft = []                    # errors that count only if they persist in the final round
        self.retkind = None
        self.scopes = []
        self.locals_ = set(fi.params)
        for n in ast.walk(fi.node):
            if isinstance(n, ast.Name) and isinstance(n.ctx, (ast.Store, ast.Del)):
                self.locals_.add(n.id)
            if isinstance(n, ast.ExceptHandler) and n.name:
                self.locals_.add(n.name)
        # IR variables: 0 reserved, then one per Python local, then temporaries.  A temporary never
        # outlives the Python statement that created it, so its number is reused afterwards.
        for nm in list(fi.params) + sorted(self.locals_ - set(fi.params)):
            self.var(nm)
        self.simple = simple_locals(fi, self.locals_) if isinstance(fi.node, ast.FunctionDef) else set()
        for nm in sorted(self.simple):
            self.var(nm + "'")
        self.last_elems = []
        self.maxvars = self.nvars
        self.evidence = {}
        for n in ast.walk(fi.node):
            if (isinstance(n, ast.Call) and isinstance(n.func, ast.Attribute)
                    and isinstance(n.func.value, ast.Name)):
                nm, m = n.func.value.id, n.func.attr
                if m in DICT_EVIDENCE:
                    self.evidence.setdefault(nm, set()).add(K_DICT)
                if m in LIST_EVIDENCE:
                    self.evidence.setdefault(nm, set()).add(K_LIST)
                if m in STR_EVIDENCE:
                    self.evidence.setdefault(nm, set()).add(K_IMM)
        self.cls = fi.cls

    # ------------------------------------------------------------ plumbing
    def err(self, node, msg):
        raise TranslationError("%s (%s.py:%s): %s" % (self.fi.qname, self.fi.module, getattr(node, "lineno", "?"), msg))

    def var(self, name):
        for sc in reversed(self.scopes):
            if name in sc:
                return sc[name]
        if name not in self.vars:
            self.vars[name] = self.nvars
            self.nvars += 1
        return self.vars[name]

    def tmp(self):
        self.nvars += 1
        self.maxvars = max(self.maxvars, self.nvars)
        self.varline[self.nvars - 1] = self.curline
        return self.nvars - 1

    def mat(self, v):
        if v == FRESHV:
            t = self.tmp()
            self.cur.append(("join", t, []))
            return t
        return v

    def emit(self, *s):
        tag = s[0]
        if tag in ("join", "view"):
            s = (tag, s[1], [y for y in s[2] if y not in (FRESHV, IMM)])
        elif tag == "alias":
            if s[2] == FRESHV:
                s = ("join", s[1], [])
        elif tag == "call":
            s = (tag, s[1], s[2], [self.mat(a) for a in s[3]])
        elif tag in ("mutate", "cmutate"):
            if s[1] == FRESHV:
                return                      # in-place change of an unnamed fresh object
        elif tag == "ret":
            s = (tag, self.mat(s[1]))
        elif tag == "absorb":
            if s[2] == FRESHV:
                return                      # a fresh object without references taints nothing
            if s[1] == FRESHV:
                s = (tag, self.mat(s[1]), s[2])
        elif tag == "store":
            s = (tag, s[1], self.mat(s[2]))
        if tag in ("mutate", "cmutate", "call", "cached", "absorb"):
            s = tuple(s) + (("line", self.curline),)     # trailing annotation, ignored by lean_stmt (diagnostics only)
        self.cur.append(tuple(s))

    def sub(self, fn):
        """Run fn() collecting its statements into a new list."""
        saved, self.cur = self.cur, []
        try:
            r = fn()
            out = self.cur
        finally:
            self.cur = saved
        return out, r

    def name_kind(self, name):
        k = self.kinds.get(name)
        if k in (None, K_UNK):
            ev = self.evidence.get(name)
            if ev and len(ev) == 1:
                return next(iter(ev))
        return k or K_UNK

    def note_kind(self, name, k):
        self.newkinds[name] = kjoin(self.newkinds.get(name), k)

    def fresh(self, refs=(), kind=K_ARR):
        refs = [r for r in refs if r not in (IMM, FRESHV)]
        if not refs:
            return FRESHV, kind
        t = self.tmp()
        self.emit("join", t, refs)
        return t, kind

    def viewof(self, refs, kind=K_UNK):
        if kind == K_IMM:
            return IMM, K_IMM               # an element known to be an immutable scalar has no roots
        if any(r == FRESHV for r in refs) and all(r in (IMM, FRESHV) for r in refs):
            return FRESHV, kind             # part of an unnamed fresh object
        refs = [r for r in refs if r not in (IMM, FRESHV)]
        if not refs:
            return IMM, K_IMM
        t = self.tmp()
        self.emit("view", t, refs)
        return t, kind

    # ----------------------------------------- element variables (see simple_locals)
    def is_simple(self, node):
        return (isinstance(node, ast.Name) and node.id in self.simple
                and not any(node.id in sc for sc in self.scopes))

    def ev(self, name):
        return self.var(name + "'")

    def weak(self, E, v):
        """E may from now on also stand for v"""
        if v == IMM:
            return
        self.emit("ite", [("alias", E, self.mat(v))], [])

    def set_elems(self, E, elems):
        """E stands for exactly one of elems (no element: no roots)"""
        elems = [e for e in elems if e != IMM]
        if not elems:
            self.emit("alias", E, IMM)
        else:
            self.emit("alias", E, self.choice(elems))

    def elem_read(self, name):
        k = self.name_kind(name)
        ek = (kelem(k) or K_UNK) if kbase(k) in CONTAINER_BASES else K_UNK
        if ek == K_IMM:
            return IMM, K_IMM
        t = self.tmp()
        self.emit("alias", t, self.ev(name))
        return t, ek

    def elems_of(self, node, v):
        """a variable standing for any element of the container `node` evaluates to (value variable v)"""
        if self.is_simple(node):
            return self.ev(node.id)
        if isinstance(node, (ast.List, ast.Tuple)) and not any(isinstance(e, ast.Starred) for e in node.elts):
            # (the display has just been evaluated: last_elems are its element variables)
            els = [e for e in self.last_elems if e != IMM]
            return self.choice(els) if els else IMM
        return self.viewof([v])[0]

    def bound_elems(self, name, node, v):
        """X = <new container> (one of the forms of _new_container_form) for a simple X: set X'"""
        E = self.ev(name)
        if isinstance(node, (ast.Dict, ast.List, ast.ListComp, ast.DictComp)):
            self.set_elems(E, list(self.last_elems))
            return
        src = None
        if isinstance(node, ast.Call) and isinstance(node.func, ast.Name) and node.args:
            src = node.args[0]
        elif isinstance(node, ast.Call) and isinstance(node.func, ast.Attribute):
            src = node.func.value
        elif isinstance(node, ast.Subscript):
            src = node.value
        if src is None:
            self.emit("alias", E, IMM)              # list() / dict()
        elif self.is_simple(src):
            self.emit("alias", E, self.ev(src.id))
        else:
            sv, _ = self.expr(src)
            self.set_elems(E, [self.viewof([sv])[0]])

    def choice(self, alts):
        """value is exactly one of the variables in alts"""
        alts = list(dict.fromkeys(alts))
        if len(alts) == 1:
            return alts[0]
        alts = [self.mat(a) for a in alts]
        t = self.tmp()
        ir = [("alias", t, alts[-1])]
        for a in reversed(alts[:-1]):
            ir = [("ite", [("alias", t, a)], ir)]
        self.cur += ir
        return t

    # ---------------------------------------------------------- func refs
    def funcs_of(self, n):
        """set of function qnames an expression may denote (or None)."""
        w, fi = self.w, self.fi
        if isinstance(n, ast.Name):
            if n.id in self.locals_:
                if n.id in fi.fparams and fi.fparams[n.id]:
                    return set(fi.fparams[n.id])
                if n.id in self.lfuncs and self.lfuncs[n.id]:
                    return set(self.lfuncs[n.id])
                return None
            q = w.modfuncs[fi.module].get(n.id)
            return {q} if q else None
        if isinstance(n, ast.Attribute):
            p = dotted(n)
            if not p:
                return None
            if p[0] == "self" and self.cls:
                cls = self.cls
                for a in p[1:-1]:
                    cls = CLASS_OF_ATTR.get((cls, a))
                    if cls is None:
                        return None
                if p[-1] in w.classes.get(cls, ()):
                    q = "%s.%s" % (cls, p[-1])
                    return {q} if q in w.funcs else None
                return set(w.attr_funcs.get((cls, p[-1]), ())) or None
            if p[0] in AUREL_MODULE_NAMES and len(p) == 2 and p[0] not in self.locals_:
                q = w.modfuncs[AUREL_MODULE_NAMES[p[0]]].get(p[1])
                return {q} if q else None
            if p[0] == "np" and len(p) >= 2 and ".".join(p[1:]) in NP_FRESH:
                return {"ext"}          # a numpy function that allocates its result (called without out=)
            return None
        if isinstance(n, ast.Subscript) and isinstance(n.value, ast.Name) and n.value.id not in self.locals_:
            ft = w.functables.get((fi.module, n.value.id))
            return set(ft) if ft else None
        return None

    # ------------------------------------------------------------- names
    def load_name(self, n):
        nm = n.id
        if nm in self.locals_:
            k = self.name_kind(nm)
            if nm in self.fi.fparams and self.fi.fparams[nm]:
                return IMM, K_FUNC
            if k in (K_IMM, K_FUNC, K_FTAB):
                return IMM, k
            return self.var(nm), k
        for sc in reversed(self.scopes):
            if nm in sc:
                return sc[nm], self.scope_kinds.get(sc[nm], K_UNK)
        w, mod = self.w, self.fi.module
        if nm in w.modfuncs[mod]:
            return IMM, K_FUNC
        if nm in PY_BUILTIN_NAMES or nm in AUREL_MODULE_NAMES:
            return IMM, K_IMM
        if (mod, nm) in w.functables:
            return IMM, K_FTAB
        if nm in w.globals_[mod]:
            t = self.tmp()
            self.emit("glob", t, w.key("glob:%s.%s" % (mod, nm)))
            return t, w.global_kinds.get((mod, nm), K_UNK)
        if nm == "self":
            t = self.tmp()
            self.emit("glob", t, w.key("self:%s" % self.cls))
            return t, K_CORE if self.cls == "core.AurelCore" else K_UNK
        self.err(n, "unknown name %r" % nm)

    def store_name(self, nm, v, k):
        self.note_kind(nm, k)
        if v == IMM and self.name_kind(nm) in (K_IMM, K_FUNC, K_FTAB) and self.kinds.get(nm) is not None:
            return          # the name only ever holds immutable scalars: never read as a variable
        self.emit("alias", self.var(nm), v)

    # -------------------------------------------------------- attributes
    def self_attr(self, cls, attr, node):
        """value of <instance of cls>.attr"""
        w = self.w
        if attr in w.classes.get(cls, ()):
            return IMM, K_FUNC
        if w.attr_funcs.get((cls, attr)):
            return IMM, K_FUNC
        k = w.attr_kinds.get((cls, attr), K_UNK)
        if k == K_IMM:
            return IMM, K_IMM
        t = self.tmp()
        self.emit("glob", t, w.key("attr:%s.%s" % (cls, attr)))
        sub = CLASS_OF_ATTR.get((cls, attr))
        return t, ("obj:" + sub) if sub else k

    def attribute(self, n):
        p = dotted(n)
        if p and p[0] == "self" and self.cls and "self" not in self.locals_:
            cls, v, k = self.cls, None, None
            for i, a in enumerate(p[1:]):
                if cls is not None:
                    v, k = self.self_attr(cls, a, n)
                    cls = k[4:] if isinstance(k, str) and k.startswith("obj:") else None
                    if k == K_FUNC or (v == IMM):
                        if i != len(p) - 2 and k != K_IMM:
                            self.err(n, "attribute of a method")
                        if v == IMM and i != len(p) - 2:
                            return IMM, K_IMM
                else:
                    if a in ATTR_IMM:
                        return IMM, K_IMM
                    v, k = self.viewof([v]) if a not in ATTR_ALIAS else (v, k)
            return v, k
        if p and p[0] not in self.locals_ and not any(p[0] in sc for sc in self.scopes):
            if p[0] in AUREL_MODULE_NAMES:
                mod = AUREL_MODULE_NAMES[p[0]]
                if len(p) == 2 and (p[1] in self.w.modfuncs[mod] or "%s.%s" % (mod, p[1]) in self.w.classes):
                    return IMM, K_FUNC
                t = self.tmp()
                self.emit("glob", t, self.w.key("glob:%s.%s" % (mod, p[1])))
                v, k = t, K_UNK
                for a in p[2:]:
                    v, k = self.viewof([v])
                return v, k
            if p[0] in PY_BUILTIN_NAMES:
                return IMM, K_IMM       # np.pi, os.sep, sys.stdout ...
        v, k = self.expr(n.value)
        if k == K_CORE:
            return self.self_attr("core.AurelCore", n.attr, n)
        if isinstance(k, str) and k.startswith("obj:"):
            return self.self_attr(k[4:], n.attr, n)
        if n.attr in ATTR_IMM or v == IMM:
            return IMM, K_IMM
        if n.attr in ATTR_ALIAS:
            return v, k
        return self.viewof([v])

    # -------------------------------------------------------- subscripts
    def is_core_obj(self, n):
        """expression denotes an AurelCore instance (self inside the class, or a local of that kind)"""
        if isinstance(n, ast.Name):
            if n.id == "self" and self.cls == "core.AurelCore" and "self" not in self.locals_:
                return True
            return n.id in self.locals_ and self.name_kind(n.id) == K_CORE
        return False

    def is_data_dict(self, n):
        return isinstance(n, ast.Attribute) and n.attr == "data" and self.is_core_obj(n.value)

    def is_bookkeeping(self, n):
        """`<AurelCore instance>.last_accessed` / `.var_importance` (assumption A4)"""
        return isinstance(n, ast.Attribute) and n.attr in BOOKKEEPING_ATTRS and self.is_core_obj(n.value)

    def anykey(self):
        t = self.tmp()
        self.emit("call", t, "core.AurelCore.<anykey>", [])
        self.fi.calls.add("core.AurelCore.<anykey>")
        return t, K_UNK

    def index(self, sl):
        """evaluate an index expression for its effects only"""
        if isinstance(sl, ast.Tuple):
            for e in sl.elts:
                self.index(e)
        elif not isinstance(sl, ast.Constant):
            self.expr(sl)

    def subscript(self, n):
        sl = n.slice
        if self.is_core_obj(n.value) or self.is_data_dict(n.value):
            if isinstance(sl, ast.Constant) and isinstance(sl.value, str):
                t = self.tmp()
                self.emit("cached", t, self.w.key(sl.value))
                # assumption A2: an entry of rel.data under a description key has the type the key's
                # method returns (the user supplies arrays where the method computes arrays)
                g = self.w.funcs.get("core.AurelCore." + sl.value)
                k = g.retkind if (g is not None and not g.params and kbase(g.retkind) in (K_ARR, K_LIST, K_TUPLE, K_DICT)) else K_UNK
                return t, k
            self.index(sl)
            if self.is_core_obj(n.value):
                return self.anykey()
            t = self.tmp()
            self.emit("glob", t, self.w.key("attr:core.AurelCore.data"))
            return self.viewof([t])
        fs = self.funcs_of(n)
        if fs:
            self.index(sl)
            return IMM, K_FUNC
        if self.is_simple(n.value) and not isinstance(sl, ast.Slice):
            self.index(sl)
            return self.elem_read(n.value.id)           # one of the elements stored through this name
        v, k = self.expr(n.value)
        self.index(sl)
        if v == IMM:
            return IMM, K_IMM
        if (isinstance(n.value, ast.Name) and n.value.id == self.fi.kwarg and isinstance(sl, ast.Constant)
                and getattr(self.fi, "kwdoc", {}).get(sl.value) is not None
                and not self.kwarg_entry_overwritten(sl.value, n)):
            return self.viewof([v], self.fi.kwdoc[sl.value])       # kwargs['name']: documented type (A1)
        if k in (K_ARR, "arr?"):
            return self.viewof([v], K_ARR)
        if kbase(k) in CONTAINER_BASES and not isinstance(sl, ast.Slice):
            return self.viewof([v], kelem(k) or K_UNK)
        if kbase(k) in CONTAINER_BASES:
            return self.viewof([v], k)
        return self.viewof([v])

    def kwarg_entry_overwritten(self, name, at):
        """the function itself assigns kwargs['name'] = ... at or before the read `at`, or in a loop around it
        (then the documented type of the caller's entry says nothing about what the read returns)"""
        stores = [n.lineno for n in ast.walk(self.fi.node)
                  if (isinstance(n, ast.Subscript) and isinstance(n.ctx, ast.Store) and isinstance(n.value, ast.Name)
                      and n.value.id == self.fi.kwarg and isinstance(n.slice, ast.Constant) and n.slice.value == name)]
        if any(isinstance(n, ast.Call) and isinstance(n.func, ast.Attribute) and isinstance(n.func.value, ast.Name)
               and n.func.value.id == self.fi.kwarg and n.func.attr in ("update", "setdefault", "pop", "clear", "popitem")
               for n in ast.walk(self.fi.node)):
            return True
        if not stores:
            return False
        first, line = min(stores), getattr(at, "lineno", 10 ** 9)
        if line >= first:
            return True
        return any(isinstance(n, (ast.For, ast.While)) and n.lineno <= line and n.end_lineno >= first
                   for n in ast.walk(self.fi.node))

    # ------------------------------------------------------------- exprs
    def expr(self, n):
        v, k = self.expr0(n)
        if isinstance(n, (ast.Subscript, ast.Call)):
            key = (self.fi.qname, ast.unparse(n))
            if key in EXPR_KINDS:
                self.used_expr_kinds.add(key)
                k = EXPR_KINDS[key][0]
        return v, k

    def expr0(self, n):
        t = type(n)
        if t is ast.Constant:
            return IMM, K_IMM
        if t is ast.JoinedStr:
            for v in n.values:
                if isinstance(v, ast.FormattedValue):
                    self.expr(v.value)
            return IMM, K_IMM
        if t is ast.Name:
            return self.load_name(n)
        if t is ast.Attribute:
            return self.attribute(n)
        if t is ast.Subscript:
            return self.subscript(n)
        if t is ast.Call:
            return self.call(n)
        if t is ast.BinOp:
            l, kl = self.expr(n.left)
            r, kr = self.expr(n.right)
            if kl == K_IMM and kr == K_IMM:
                return IMM, K_IMM
            if is_strish(n.left) or is_strish(n.right):
                return IMM, K_IMM
            if kl in (K_ARR, "arr?") or kr in (K_ARR, "arr?"):
                return self.fresh([], K_ARR)
            if isinstance(n.op, (ast.Add, ast.Mult)):
                ks = {kbase(kl), kbase(kr)}
                if ks & {K_LIST, K_TUPLE}:
                    if kbase(kl) == kbase(kr):
                        return self.fresh([l, r], kjoin(kl, kr))
                    return self.fresh([l, r], kl if kbase(kl) in (K_LIST, K_TUPLE) else kr)
                # unknown + unknown: number / array arithmetic (fresh) or list concatenation
                return self.fresh([l, r], "arr?")
            return self.fresh([], "arr?")
        if t is ast.UnaryOp:
            v, k = self.expr(n.operand)
            if isinstance(n.op, ast.Not) or k == K_IMM:
                return IMM, K_IMM
            return self.fresh([], k if k in (K_ARR, "arr?") else "arr?")
        if t is ast.BoolOp:
            vs = [self.expr(v) for v in n.values]
            ks = None
            for _, k in vs:
                ks = kjoin(ks, k)
            if all(v == IMM for v, _ in vs):
                return IMM, K_IMM
            return self.choice([v for v, _ in vs]), ks
        if t is ast.Compare:
            ks = [self.expr(n.left)[1]] + [self.expr(c)[1] for c in n.comparators]
            if any(k in (K_ARR, "arr?") for k in ks):
                return self.fresh([], K_ARR)
            return IMM, K_IMM
        if t is ast.IfExp:
            self.expr(n.test)
            a, ka = self.expr(n.body)
            b, kb = self.expr(n.orelse)
            if a == IMM and b == IMM:
                return IMM, K_IMM
            return self.choice([a, b]), kjoin(ka, kb)
        if t in (ast.List, ast.Tuple):
            refs, ek = [], None
            for e in n.elts:
                if isinstance(e, ast.Starred):
                    refs.append(self.viewof([self.expr(e.value)[0]])[0])
                    ek = kjoin(ek, K_UNK)
                else:
                    v1, k1 = self.expr(e)
                    refs.append(v1)
                    ek = kjoin(ek, k1)
            v = self.fresh(refs, kmk(K_LIST if t is ast.List else K_TUPLE, ek))
            self.last_elems = list(refs)
            return v
        if t is ast.Set:
            for e in n.elts:
                self.expr(e)
            return self.fresh([], K_SET)
        if t is ast.Dict:
            refs, ek = [], None
            for k, v in zip(n.keys, n.values):
                if k is None:       # **d
                    dv, dk = self.expr(v)
                    refs.append(self.viewof([dv])[0])
                    ek = kjoin(ek, kelem(dk) if kbase(dk) == K_DICT else K_UNK)
                else:
                    self.expr(k)
                    v1, k1 = self.expr(v)
                    refs.append(v1)
                    ek = kjoin(ek, k1)
            v = self.fresh(refs, kmk(K_DICT, ek))
            self.last_elems = list(refs)
            return v
        if t in (ast.ListComp, ast.GeneratorExp, ast.SetComp, ast.DictComp):
            return self.comprehension(n)
        if t is ast.Lambda:
            # a local lambda is not analysed as a function: accept it only if it cannot change anything
            for sub in ast.walk(n.body):
                if isinstance(sub, ast.NamedExpr) or (
                        isinstance(sub, ast.Call) and isinstance(sub.func, ast.Attribute)
                        and sub.func.attr in (M_MUT_ARRAY | M_MUT_CONT | M_MUT_CONT_ABSORB | {"write", "writelines"})
                        and not (dotted(sub.func) or [""])[0] == "sys"):
                    self.err(n, "lambda with a possibly mutating call")
            return IMM, K_FUNC
        if t is ast.Starred:
            return self.viewof([self.expr(n.value)[0]])
        if t is ast.Slice:
            for p in (n.lower, n.upper, n.step):
                if p is not None:
                    self.expr(p)
            return IMM, K_IMM
        self.err(n, "unsupported expression %s" % t.__name__)

    def comprehension(self, n):
        acc = self.tmp()
        kind = {ast.ListComp: K_LIST, ast.GeneratorExp: K_LIST, ast.SetComp: K_SET, ast.DictComp: K_DICT}[type(n)]
        self.emit("join", acc, [])
        anyel = self.tmp()                  # stands for any element of the result (see simple_locals)
        self.emit("alias", anyel, IMM)
        self.scopes.append({})
        ekind = [None]

        def gen(i):
            if i == len(n.generators):
                if isinstance(n, ast.DictComp):
                    self.expr(n.key)
                    e, ke = self.expr(n.value)
                else:
                    e, ke = self.expr(n.elt)
                ekind[0] = kjoin(ekind[0], ke)
                if e != IMM and not isinstance(n, ast.SetComp):
                    self.emit("join", acc, [acc, e])
                    self.weak(anyel, e)
                return
            g = n.generators[i]
            spec = self.iter_value(g.iter)

            def body():
                self.bind_loop_target(g.target, spec, scoped=True)
                for c in g.ifs:
                    self.expr(c)
                inner, _ = self.sub(lambda: gen(i + 1))
                if g.ifs:
                    self.emit("ite", inner, [])
                else:
                    self.cur += inner
            b, _ = self.sub(body)
            self.emit("loop", b)
        gen(0)
        self.scopes.pop()
        self.last_elems = [anyel]
        return acc, (kind if kind == K_SET else kmk(kind, ekind[0]))

    # ----------------------------------------------------------- looping
    def iter_value(self, it):
        """evaluate the iterable once; returns a spec understood by bind_loop_target:
        ("imm",) | ("elems", var, elemkind) | ("items", var, elemkind) | ("enumerate", spec) | ("zip", [specs])"""
        if isinstance(it, ast.Call) and isinstance(it.func, ast.Name) and it.func.id not in self.locals_:
            f = it.func.id
            if f == "range":
                for a in it.args:
                    self.expr(a)
                return ("imm",)
            if f == "enumerate" and it.args:
                return ("enumerate", self.iter_value(it.args[0]))
            if f == "zip":
                return ("zip", [self.iter_value(a) for a in it.args])
            if f in ("list", "sorted", "reversed", "tuple", "tqdm") and it.args:
                for kw in it.keywords:
                    self.expr(kw.value)
                return self.iter_value(it.args[0])
        if (isinstance(it, ast.Call) and isinstance(it.func, ast.Attribute) and not it.args
                and it.func.attr in ("items", "values") and self.is_simple(it.func.value)):
            k = self.name_kind(it.func.value.id)
            ek = (kelem(k) or K_UNK) if kbase(k) == K_DICT else K_UNK
            if ek == K_IMM:
                return ("imm",)
            return ("items_exact" if it.func.attr == "items" else "exact", self.ev(it.func.value.id), ek)
        base = it.value if (isinstance(it, ast.Subscript) and isinstance(it.slice, ast.Slice)) else it
        if self.is_simple(base):
            if base is not it:
                self.index(it.slice)
            k = self.name_kind(base.id)
            if kbase(k) in (K_DICT, K_SET):
                return ("imm",)
            ek = (kelem(k) or K_UNK) if kbase(k) in CONTAINER_BASES else K_UNK
            if ek == K_IMM:
                return ("imm",)
            return ("exact", self.ev(base.id), ek)
        if (isinstance(it, ast.Call) and isinstance(it.func, ast.Attribute) and not it.args
                and it.func.attr in ("items", "keys", "values")):
            v, k = self.expr(it.func.value)
            rn = root_name(it.func.value)
            ek = kelem(k) if kbase(k) == K_DICT else K_UNK
            if it.func.attr == "keys" or v == IMM:
                return ("imm",)
            return ("items" if it.func.attr == "items" else "elems", v, ek or K_UNK, rn)
        v, k = self.expr(it)
        if kbase(k) in (K_DICT, K_SET) or v == IMM:
            return ("imm",)
        ek = (kelem(k) or K_UNK) if kbase(k) in CONTAINER_BASES else (K_ARR if k == K_ARR else K_UNK)
        return ("elems", v, ek, root_name(it))

    def bind_loop_target(self, tgt, spec, scoped=False):
        def bind(t, v, k, parent=None):
            if isinstance(t, ast.Name):
                if scoped:
                    x = self.tmp()
                    self.scopes[-1][t.id] = x
                    self.emit("alias", x, v)
                    self.scope_kinds[x] = k
                else:
                    if parent and v != IMM:
                        self.parents.setdefault(t.id, set()).add(parent)
                    self.store_name(t.id, v, K_IMM if v == IMM else k)
            elif isinstance(t, (ast.Tuple, ast.List)):
                for e in t.elts:
                    ev, ek = (IMM, K_IMM) if v == IMM else self.viewof([v], kelem(k) if kbase(k) in CONTAINER_BASES else K_UNK)
                    bind(e.value if isinstance(e, ast.Starred) else e, ev, ek or K_UNK, parent)
            else:
                self.err(t, "unsupported loop target")

        def go(t, sp):
            tag = sp[0]
            if tag == "imm":
                bind(t, IMM, K_IMM)
            elif tag == "exact":
                x = self.tmp()
                self.emit("alias", x, sp[1])
                bind(t, x, sp[2])
            elif tag == "items_exact":
                x = self.tmp()
                self.emit("alias", x, sp[1])
                if isinstance(t, (ast.Tuple, ast.List)) and len(t.elts) == 2:
                    bind(t.elts[0], IMM, K_IMM)
                    bind(t.elts[1], x, sp[2])
                else:
                    bind(t, x, K_UNK)
            elif tag == "elems":
                ev, ek = self.viewof([sp[1]], sp[2])
                bind(t, ev, ek, sp[3])
            elif tag == "items":
                if isinstance(t, (ast.Tuple, ast.List)) and len(t.elts) == 2:
                    bind(t.elts[0], IMM, K_IMM)
                    ev, ek = self.viewof([sp[1]], sp[2])
                    bind(t.elts[1], ev, ek, sp[3])
                else:
                    ev, ek = self.viewof([sp[1]], K_UNK)
                    bind(t, ev, ek, sp[3])
            elif tag == "enumerate":
                if isinstance(t, (ast.Tuple, ast.List)) and len(t.elts) == 2:
                    bind(t.elts[0], IMM, K_IMM)
                    go(t.elts[1], sp[1])
                else:
                    go(t, sp[1])
            elif tag == "zip":
                if isinstance(t, (ast.Tuple, ast.List)) and len(t.elts) == len(sp[1]):
                    for e, q in zip(t.elts, sp[1]):
                        go(e, q)
                else:
                    flat, roots = [], []

                    def leaves(q):
                        if q[0] in ("exact", "items_exact"):
                            flat.append(q[1])
                            roots.append(None)
                        elif q[0] in ("elems", "items"):
                            flat.append(q[1])
                            roots.append(q[3])
                        elif q[0] == "enumerate":
                            leaves(q[1])
                        elif q[0] == "zip":
                            for r in q[1]:
                                leaves(r)
                    for q in sp[1]:
                        leaves(q)
                    ev, ek = self.viewof(flat)
                    bind(t, ev, ek, next((r for r in roots if r), None))
            else:
                self.err(t, "loop spec " + tag)
        go(tgt, spec)

    # ------------------------------------------------------------- calls
    def eval_args(self, n):
        pos, star = [], []
        for a in n.args:
            if isinstance(a, ast.Starred):
                star.append(self.viewof([self.expr(a.value)[0]])[0])
            else:
                pos.append(self.expr(a))
        kws, spreads = {}, []
        for kw in n.keywords:
            if kw.arg is None:
                spreads.append(self.viewof([self.expr(kw.value)[0]])[0])
            else:
                kws[kw.arg] = self.expr(kw.value)
        return pos, star, kws, spreads

    def all_arg_vars(self, pos, star, kws, spreads):
        return [v for v, _ in pos] + star + [v for v, _ in kws.values()] + spreads

    def map_args(self, n, g, pos, star, kws, spreads):
        """argument variables in the callee's parameter order"""
        posv = [v for v, _ in pos]
        kws = {k: v for k, (v, _) in kws.items()}
        used = set()
        out = []
        extra = [x for x in star + spreads if x != IMM]
        for i, p in enumerate(g.pos):
            if i < len(posv):
                out.append(posv[i])
            elif p in kws:
                out.append(kws[p])
                used.add(p)
            elif extra:
                out.append(self.viewof(extra)[0])
            else:
                out.append(IMM)          # default value (constants in this code base)
        for p in g.kwonly:
            if p in kws:
                out.append(kws[p])
                used.add(p)
            else:
                out.append(self.viewof(extra)[0] if extra else IMM)
        rest = posv[len(g.pos):]
        if g.vararg:
            out.append(self.fresh(rest + star, K_TUPLE)[0])
        elif rest:
            self.err(n, "too many positional arguments for %s" % g.qname)
        left = [v for k, v in kws.items() if k not in used and k not in g.pos[:len(posv)]]
        if g.kwarg:
            out.append(self.fresh(left + spreads, K_DICT)[0])
        elif left:
            self.err(n, "unexpected keyword arguments for %s" % g.qname)
        return out

    def emit_calls(self, n, targets, pos, star, kws, spreads):
        """call of one of `targets` (qnames, or 'ext' = external function that allocates its result)"""
        targets = sorted(targets)
        res = self.tmp()
        alts = []
        for q in targets:
            if q == "ext":
                alts.append([("join", res, [])])
                continue
            g = self.w.funcs.get(q)
            if g is None:
                self.err(n, "call of untranslated function %s" % q)

            def one():
                args = self.map_args(n, g, pos, star, kws, spreads)
                self.emit("call", res, q, args)
            ir, _ = self.sub(one)
            self.fi.calls.add(q)
            alts.append(ir)
        ir = alts[-1]
        for a in reversed(alts[:-1]):
            ir = [("ite", a, ir)]
        self.cur += ir
        rk = None
        for q in targets:
            rk = kjoin(rk, K_ARR if q == "ext" else (self.w.funcs[q].retkind or K_UNK))
        return res, rk or K_UNK

    def callback(self, n, what, pos, star, kws, spreads):
        site = "%s:%s %s" % (self.fi.qname, n.lineno, what)
        if site not in self.callbacks:
            self.callbacks.append(site)
        return self.viewof(self.all_arg_vars(pos, star, kws, spreads))

    def construct(self, n, cls):
        pos, star, kws, spreads = self.eval_args(n)
        init = "%s.__init__" % cls
        if init in self.w.funcs:
            self.emit_calls(n, {init}, pos, star, kws, spreads)
        v, _ = self.fresh(self.all_arg_vars(pos, star, kws, spreads))
        return v, K_CORE if cls == "core.AurelCore" else "obj:" + cls

    def call(self, n):
        f = n.func
        w = self.w
        # ---- plain names
        if isinstance(f, ast.Name):
            nm = f.id
            shadow = nm in self.locals_ or any(nm in sc for sc in self.scopes)
            if not shadow:
                if nm in BUILTIN_IMM:
                    self.eval_args(n)
                    return IMM, K_IMM
                if nm in BUILTIN_FRESH:
                    self.eval_args(n)
                    return self.fresh([], K_SET if nm in ("set", "frozenset") else K_UNK)
                if nm in BUILTIN_JOIN:
                    pos, star, kws, spreads = self.eval_args(n)
                    kind = {"list": K_LIST, "sorted": K_LIST, "dict": K_DICT, "tuple": K_TUPLE}.get(nm, K_UNK)
                    if nm in ("list", "tuple", "sorted") and pos and kbase(pos[0][1]) in (K_DICT, K_SET):
                        return self.fresh([], kmk(kind, K_IMM))      # keys / set elements are hashable
                    if nm in ("list", "tuple", "sorted") and pos and kbase(pos[0][1]) in (K_LIST, K_TUPLE):
                        kind = kmk(kind, kelem(pos[0][1])) if "<" in pos[0][1] else kind
                    elif nm in ("list", "tuple", "sorted") and not pos:
                        kind = kmk(kind, None)
                    elif nm == "dict" and not pos and not spreads:
                        ek = None
                        for _, kk in kws.values():
                            ek = kjoin(ek, kk)
                        kind = kmk(K_DICT, ek)
                    if "key" in kws:
                        del kws["key"]
                    return self.fresh(self.all_arg_vars(pos, star, kws, spreads), kind)
                if nm in BUILTIN_VIEW:
                    return self.viewof(self.all_arg_vars(*self.eval_args(n)))
                if nm == "setattr":
                    pos, star, kws, spreads = self.eval_args(n)
                    if len(pos) == 3:
                        self.emit("store", w.key("attr:<dynamic>"), pos[2][0])
                        return IMM, K_IMM
                    self.err(n, "setattr form")
                if nm in PY_BUILTIN_NAMES:      # exception constructors
                    self.eval_args(n)
                    return IMM, K_IMM
                if nm in EXTERNAL_FUNCS:
                    return self.viewof(self.all_arg_vars(*self.eval_args(n)))
                if nm in w.modfuncs[self.fi.module]:
                    return self.emit_calls(n, {w.modfuncs[self.fi.module][nm]}, *self.eval_args(n))
                cq = "%s.%s" % (self.fi.module, nm)
                if cq in w.classes:
                    return self.construct(n, cq)
                self.err(n, "call of unknown name %r" % nm)
            fs = self.funcs_of(f)
            args = self.eval_args(n)
            if fs and (self.fi.qname, nm) in CALLBACK_PARAMS:
                a, (v1, k1) = self.sub(lambda: self.emit_calls(n, fs, *args))
                b, (v2, k2) = self.sub(lambda: self.callback(n, "callback %s" % nm, *args))
                self.emit("ite", a, b)
                return self.choice([v1, v2]), kjoin(k1, k2)
            if fs:
                return self.emit_calls(n, fs, *args)
            if (self.fi.qname, nm) in CALLBACK_PARAMS:
                return self.callback(n, "callback %s" % nm, *args)
            if self.name_kind(nm) == K_EXT:
                # object made by an external library (scipy interpolator ...): pure, may hold its inputs
                return self.viewof([self.var(nm)] + self.all_arg_vars(*args), K_EXT)
            self.soft.append("%s (%s.py:%s): call through local %r: no candidate functions known"
                             % (self.fi.qname, self.fi.module, n.lineno, nm))
            return self.viewof(self.all_arg_vars(*args))
        # ---- dotted names
        if isinstance(f, ast.Attribute):
            p = dotted(f)
            if p and p[0] not in self.locals_ and not any(p[0] in sc for sc in self.scopes):
                if p[0] == "np":
                    name = ".".join(p[1:])
                    isv = einsum_is_view(n) if name == "einsum" else None
                    pos, star, kws, spreads = self.eval_args(n)
                    const = lambda kw, val: any(k.arg == kw and isinstance(k.value, ast.Constant)
                                                and k.value.value is val for k in n.keywords)
                    if name not in NP_FRESH | NP_VIEW0 | NP_MUT0 | {"einsum"}:
                        self.err(n, "unclassified numpy function np.%s" % name)
                    if spreads:
                        self.err(n, "np.%s(**kwargs): keyword arguments (out=, overwrite_input=, copy=) not visible" % name)
                    # -- arrays the call writes into
                    outs = []
                    if "out" in kws and not const("out", None):
                        kwn = next(k.value for k in n.keywords if k.arg == "out")
                        if isinstance(kwn, (ast.Tuple, ast.List)):
                            outs += [self.expr(e)[0] for e in kwn.elts]
                        else:
                            outs.append(kws["out"][0])
                    out_given = bool(outs)
                    oi = np_param_index(name, "out")
                    if oi == -1 and name not in NP_VIEW0 | NP_MUT0 | {"einsum"} and len(pos) > 1:
                        self.err(n, "np.%s: signature cannot be inspected (positional out?)" % name)
                    if oi is not None and oi >= 0 and (len(pos) > oi or (star and name != "einsum")):
                        if star:
                            self.err(n, "np.%s(*args): a positional `out` array cannot be excluded" % name)
                        outs += [v for v, _ in pos[oi:oi + 1]]
                        out_given = True
                    for kw in NP_INPLACE_KW:
                        ii = np_param_index(name, kw)
                        given = (kw in kws and not const(kw, False)) or (ii is not None and ii >= 0 and len(pos) > ii)
                        if given:
                            if not pos:
                                self.err(n, "np.%s(%s=...) without positional input" % (name, kw))
                            outs.append(pos[0][0])      # the input may be partitioned / sorted in place
                    if name in NP_MUT0:
                        if not pos:
                            self.err(n, "np.%s without positional argument" % name)
                        self.emit("mutate", pos[0][0])
                        return IMM, K_IMM
                    for o in outs:
                        self.emit("mutate", o)
                    if out_given:
                        return self.viewof(outs, K_ARR) if len(outs) > 1 else (outs[0], K_ARR)   # returns its `out`
                    if "copy" in kws and not const("copy", True):
                        # np.array(x, copy=False), np.meshgrid(..., copy=False) ...: the result may share memory
                        return self.viewof(self.all_arg_vars(pos, star, kws, spreads), K_ARR)
                    if name == "einsum":
                        if isv is True:
                            return pos[1][0], K_ARR
                        if isv is False:
                            return self.fresh([], K_ARR)
                        return self.viewof(self.all_arg_vars(pos, star, kws, spreads), K_ARR)
                    if name in NP_FRESH:
                        return self.fresh([], K_ARR)
                    if name in NP_VIEW0:
                        if not pos:
                            self.err(n, "np.%s without positional argument" % name)
                        return pos[0][0], K_ARR
                    self.err(n, "unclassified numpy function np.%s" % name)
                if p[0] in EXTERNAL_MODULES:
                    args = self.all_arg_vars(*self.eval_args(n))
                    if all(a == IMM for a in args):
                        return self.fresh([], K_EXT)
                    return self.viewof(args, K_EXT)
                if p[0] == "dict" and p[1:] == ["fromkeys"]:
                    pos, star, kws, spreads = self.eval_args(n)
                    return self.fresh([v for v, _ in pos[1:]], K_DICT)
                if p[0] in AUREL_MODULE_NAMES and len(p) == 2:
                    mod = AUREL_MODULE_NAMES[p[0]]
                    if p[1] in w.modfuncs[mod]:
                        return self.emit_calls(n, {w.modfuncs[mod][p[1]]}, *self.eval_args(n))
                    if "%s.%s" % (mod, p[1]) in w.classes:
                        return self.construct(n, "%s.%s" % (mod, p[1]))
                    self.err(n, "unknown %s.%s" % (p[0], p[1]))
                if p[0] == "self" and self.cls:
                    fs = self.funcs_of(f)
                    if fs:
                        return self.emit_calls(n, fs, *self.eval_args(n))
            # ---- unbound method of a builtin type: list.sort(x) is x.sort()
            if (p and len(p) == 2 and p[0] in ("list", "dict", "set", "tuple", "str") and p[0] not in self.locals_
                    and p[1] != "fromkeys" and n.args and not isinstance(n.args[0], ast.Starred)):
                bound = ast.Call(func=ast.Attribute(value=n.args[0], attr=p[1], ctx=ast.Load()),
                                 args=n.args[1:], keywords=n.keywords)
                ast.copy_location(bound, n)
                ast.fix_missing_locations(bound)
                return self.call(bound)
            # ---- method call on a value
            m = f.attr
            rv, rk = self.expr(f.value)
            cls = "core.AurelCore" if rk == K_CORE else (rk[4:] if isinstance(rk, str) and rk.startswith("obj:") else None)
            if cls and m in w.classes.get(cls, ()):
                return self.emit_calls(n, {"%s.%s" % (cls, m)}, *self.eval_args(n))
            pos, star, kws, spreads = self.eval_args(n)
            args = self.all_arg_vars(pos, star, kws, spreads)
            if rv != IMM and m in (M_FRESH | M_COPY | M_ALIAS) and kbase(rk) not in (K_LIST, K_DICT, K_SET, K_TUPLE):
                # ndarray methods that accept an output array
                if "out" in kws and not (isinstance(next(k.value for k in n.keywords if k.arg == "out"), ast.Constant)):
                    self.emit("mutate", kws["out"][0])
                    return kws["out"][0], K_ARR
                if spreads or (star and m in ARRAY_METHOD_MAXPOS):
                    self.err(n, ".%s(*args / **kwargs): an `out` array cannot be excluded" % m)
                if m in ARRAY_METHOD_MAXPOS and len(pos) > ARRAY_METHOD_MAXPOS[m]:
                    self.err(n, ".%s() with %d positional arguments: positional `out` / `copy` not classified"
                             % (m, len(pos)))
            if m in M_MUT_CONT_ABSORB:
                if rv == IMM:
                    return IMM, K_IMM
                self.emit("cmutate", rv)
                stored = pos[1:] if m in ("setdefault", "insert") else pos      # the key / position is not stored
                sv = [v1 for v1, _ in stored] + star + [v1 for v1, _ in kws.values()] + spreads
                if m != "add":
                    norefs = m in ("extend", "update") and not star and not kws and not spreads and all(
                        holds_no_refs(k1) for _, k1 in stored)
                    for a in sv:
                        if a != IMM and not norefs:
                            self.emit("absorb", rv, a)
                    sk = None
                    for _, k1 in stored:
                        sk = kjoin(sk, k1)
                    if m in ("extend", "update"):
                        sk = (kelem(sk) or None) if kbase(sk) in CONTAINER_BASES else K_UNK
                    elif star or kws or spreads:
                        sk = K_UNK
                    self.note_store(f.value, sk)
                    if self.is_simple(f.value):
                        E = self.ev(f.value.id)
                        if m in ("extend", "update"):
                            for node, (v1, _) in zip(n.args, pos):
                                self.weak(E, self.elems_of(node, v1) if not isinstance(node, (ast.List, ast.Tuple))
                                          else self.viewof([v1])[0])
                            for a in star + [v1 for v1, _ in kws.values()] + spreads:
                                self.weak(E, a)
                        else:
                            for a in sv:
                                self.weak(E, a)
                        if m == "setdefault":
                            return self.elem_read(f.value.id)
                if m == "setdefault":
                    ek = (kelem(rk) or None) if kbase(rk) == K_DICT else K_UNK
                    return self.viewof([rv] + sv, kjoin(ek, stored[0][1] if stored else None) or K_UNK)
                return IMM, K_IMM
            if m in M_MUT_CONT:
                if rv != IMM:
                    self.emit("cmutate", rv)
                    self.stored_through.add(root_name(f.value) or "")
                if self.is_simple(f.value) and m in ("pop", "popitem"):
                    return self.elem_read(f.value.id)
                return self.viewof([rv], (kelem(rk) or K_UNK) if kbase(rk) in (K_LIST, K_DICT) and m == "pop" else K_UNK)
            if m in M_MUT_ARRAY:
                if rv != IMM:
                    self.emit("cmutate" if kbase(rk) == K_LIST and m in ("sort", "reverse") else "mutate", rv)
                return IMM, K_IMM
            if m in M_FILE:
                if rv != IMM:
                    self.emit("cmutate", rv)
                return self.fresh([], K_UNK)
            if m in M_IMM:
                return IMM, K_IMM
            if rv == IMM and m in (M_FRESH | M_COPY | M_ALIAS | M_VIEW):
                if m in ("split", "rsplit", "splitlines", "findall"):
                    return self.fresh([], K_LIST)
                return IMM, K_IMM
            if m == "astype" and "copy" in kws:
                return self.viewof([rv], K_ARR)              # astype(..., copy=False) may return the receiver
            if m in M_FRESH:
                return self.fresh([], K_LIST if m in ("split", "rsplit", "splitlines", "readlines", "tolist")
                                  else (K_ARR if rk in (K_ARR, "arr?") else "arr?"))
            if m in M_COPY:
                return self.fresh([] if rk == K_ARR else [rv], rk)
            if m == "values" and kbase(rk) == K_DICT:
                return self.viewof([rv], kmk(K_LIST, kelem(rk)) if "<" in rk else K_LIST)
            if m in M_ALIAS:
                return rv, rk
            if m == "keys":
                return self.fresh([], K_LIST)
            if m == "get" and self.is_simple(f.value):
                e1, k1 = self.elem_read(f.value.id)
                if len(pos) > 1 and pos[1][0] != IMM:
                    return self.choice([e1, pos[1][0]]), kjoin(k1, pos[1][1]) or K_UNK
                return e1, k1
            if m == "get":
                ek = (kelem(rk) or None) if kbase(rk) == K_DICT else K_UNK
                dk = pos[1][1] if len(pos) > 1 else None
                if (isinstance(f.value, ast.Name) and f.value.id == self.fi.kwarg and n.args
                        and isinstance(n.args[0], ast.Constant)):
                    # kwargs.get('name', default): documented type of the entry (A1)
                    doc = getattr(self.fi, "kwdoc", {}).get(n.args[0].value)
                    if doc is not None and self.kwarg_entry_overwritten(n.args[0].value, n):
                        doc = None
                    if doc == K_IMM and (len(pos) < 2 or pos[1][0] == IMM):
                        return IMM, K_IMM
                    if doc is not None and doc != K_IMM:
                        ek = doc
                if len(pos) > 1 and pos[1][0] != IMM:
                    return self.choice([self.viewof([rv], K_UNK)[0], pos[1][0]]), kjoin(ek, dk) or K_UNK
                return self.viewof([rv], kjoin(ek, dk) or K_UNK)
            if m in M_VIEW:
                return self.viewof([rv] + args)
            self.soft.append("%s (%s.py:%s): unclassified method .%s()" % (self.fi.qname, self.fi.module, n.lineno, m))
            return self.viewof([rv] + args)
        # ---- anything else that is called
        fs = self.funcs_of(f)
        args = self.eval_args(n)
        if fs:
            self.expr(f.slice) if isinstance(f, ast.Subscript) else None
            return self.emit_calls(n, fs, *args)
        if isinstance(f, ast.Call) and isinstance(f.func, ast.Name) and f.func.id == "type":
            self.expr(f)
            return self.fresh([], K_UNK)
        self.err(n, "unsupported callee expression")

    # -------------------------------------------------------- statements
    def assign_to(self, tgt, v, k, valnode=None):
        if isinstance(tgt, ast.Name):
            fs = self.funcs_of(valnode) if valnode is not None else None
            if fs:
                self.newlfuncs.setdefault(tgt.id, set()).update(fs)
            if valnode is not None and v != IMM and not isinstance(valnode, ast.Name):
                rn = root_name(valnode)
                if rn and rn in self.locals_ and rn != tgt.id:
                    self.parents.setdefault(tgt.id, set()).add(rn)
            elif isinstance(valnode, ast.Name) and valnode.id in self.locals_ and valnode.id != tgt.id:
                self.parents.setdefault(tgt.id, set()).add(valnode.id)
                self.parents.setdefault(valnode.id, set()).add(tgt.id)
            self.store_name(tgt.id, v, k)
        elif isinstance(tgt, (ast.Tuple, ast.List)):
            if isinstance(valnode, (ast.Tuple, ast.List)) and len(valnode.elts) == len(tgt.elts):
                self.err(tgt, "internal: pairwise assignment must be handled by the caller")
            for e in tgt.elts:
                e = e.value if isinstance(e, ast.Starred) else e
                x, kx = self.viewof([v], (kelem(k) or K_UNK) if kbase(k) in CONTAINER_BASES else K_UNK)
                self.assign_to(e, x, kx, valnode)
        elif isinstance(tgt, ast.Attribute):
            p = dotted(tgt)
            if p and p[0] == "self" and self.cls and len(p) == 2:
                self.emit("store", self.w.key("attr:%s.%s" % (self.cls, p[1])), v)
                return
            ov, ok = self.expr(tgt.value)
            cls = "core.AurelCore" if ok == K_CORE else (ok[4:] if isinstance(ok, str) and ok.startswith("obj:") else None)
            if cls:
                self.emit("store", self.w.key("attr:%s.%s" % (cls, tgt.attr)), v)
                return
            self.err(tgt, "attribute assignment on an object of unknown class")
        elif isinstance(tgt, ast.Subscript):
            self.store_subscript(tgt, v, k)
        else:
            self.err(tgt, "unsupported assignment target")

    def container_kind(self, node, k):
        return kbase(k) in (K_LIST, K_DICT, K_SET)

    def note_store(self, cont, kv):
        """a value of kind kv is stored into the container denoted by expression `cont`"""
        rn = root_name(cont)
        if rn is None or rn not in self.locals_:
            return
        self.stored_through.add(rn)
        depth, n = 0, cont
        while isinstance(n, ast.Subscript):
            depth, n = depth + 1, n.value
        if not isinstance(n, ast.Name):
            return     # reached through a method call / attribute: elements not tracked
        levels, k = [], self.name_kind(rn)
        for _ in range(depth + 1):
            if kbase(k) not in CONTAINER_BASES or "<" not in k:
                return                       # elements not tracked at this level
            levels.append(kbase(k))
            k = kelem(k)
        new = kv
        for b in reversed(levels):
            new = kmk(b, new)
        self.note_kind(rn, new)

    def store_subscript(self, tgt, v, k):
        """tgt.value[tgt.slice] = v"""
        if self.is_data_dict(tgt.value):
            sl = tgt.slice
            key = sl.value if isinstance(sl, ast.Constant) and isinstance(sl.value, str) else "<dynamic>"
            self.expr(sl)
            self.emit("store", self.w.key(key), v)
            return
        if self.is_bookkeeping(tgt.value):
            self.index(tgt.slice)
            if v != IMM:
                self.err(tgt, "A4: a value that is not an immutable scalar is stored in the bookkeeping dict .%s"
                         % tgt.value.attr)
            return                          # cache bookkeeping (A4): not an operation on a heap object of the model
        b, kb = self.expr(tgt.value)
        self.index(tgt.slice)
        if b == IMM:
            return
        if kb in (K_ARR, "arr?"):
            self.emit("mutate", b)          # the array's buffer is written; the value is copied
        elif self.container_kind(tgt.value, kb):
            self.emit("cmutate", b)
            if v != IMM:
                self.emit("absorb", b, v)
            self.note_store(tgt.value, k)
        else:
            self.emit("mutate", b)
            if v != IMM:
                self.emit("absorb", b, v)
            self.note_store(tgt.value, k)
        if self.is_simple(tgt.value) and not (kb in (K_ARR, "arr?")):
            if isinstance(tgt.slice, ast.Slice):
                self.weak(self.ev(tgt.value.id), self.viewof([v])[0])      # X[a:b] = elements of v
            else:
                self.weak(self.ev(tgt.value.id), v)

    def aug_assign(self, s):
        v, kv = self.expr(s.value)
        t = s.target
        if isinstance(t, ast.Name):
            k = self.name_kind(t.id) if t.id in self.locals_ else K_UNK
            if t.id not in self.locals_:
                self.err(s, "augmented assignment to a global")
            x = self.var(t.id)
            if self.is_simple(t) and kbase(k) not in (K_LIST, K_SET, K_DICT):
                k = K_LIST                  # every binding of a simple name is a new list / dict; dict += is an error
            if k == K_IMM:
                # number / string: rebinding, not mutation; the new value may be an array
                # number (op)= unknown: a number or an array (number + list raises)
                self.note_kind(t.id, K_IMM if kv == K_IMM else "arr?")
                if kv != K_IMM:
                    nv, nk = self.fresh([], K_ARR)
                    self.emit("alias", x, nv)
                return
            if k in (K_ARR,):
                self.note_kind(t.id, K_ARR)
                self.emit("mutate", x)
                return
            if k == "arr?":
                self.note_kind(t.id, "arr?")
                self.emit("mutate", x)
                nv, _ = self.fresh([], K_ARR)
                self.emit("ite", [("join", x, [])] if nv == FRESHV else [("alias", x, nv)], [])
                return
            if kbase(k) in (K_LIST, K_SET, K_DICT):
                self.note_kind(t.id, kjoin(k, kv) if kbase(kv) == kbase(k) else kbase(k))
                self.stored_through.add(t.id)
                self.emit("cmutate", x)
                if v != IMM and not holds_no_refs(kv):
                    self.emit("absorb", x, v)
                if self.is_simple(t) and v != IMM and not holds_no_refs(kv):
                    self.weak(self.ev(t.id), self.elems_of(s.value, v))
                return
            # (an augmented assignment does not change what kind of object the name holds)
            self.stored_through.add(t.id)
            self.emit("mutate", x)
            if v != IMM:
                self.emit("absorb", x, v)
            nv, _ = self.fresh([x, v], K_UNK)       # immutable left operand (tuple, number): rebinding
            self.emit("ite", [("join", x, [])] if nv == FRESHV else [("alias", x, nv)], [])
            return
        if isinstance(t, ast.Subscript):
            if self.is_data_dict(t.value):
                self.err(s, "augmented assignment on a cache entry")
            if self.is_bookkeeping(t.value):
                self.index(t.slice)
                if v != IMM:
                    self.err(s, "A4: augmented assignment of a non-scalar in the bookkeeping dict .%s" % t.value.attr)
                return
            b, kb = self.expr(t.value)
            self.index(t.slice)
            if b == IMM:
                return
            if kb in (K_ARR, "arr?"):
                self.emit("mutate", b)
                return
            ek = (kelem(kb) or K_UNK) if kbase(kb) in CONTAINER_BASES else K_UNK
            key = (self.fi.qname, ast.unparse(t))
            if key in EXPR_KINDS:
                self.used_expr_kinds.add(key)
                ek = EXPR_KINDS[key][0]
            if self.is_simple(t.value):
                e = self.tmp()
                self.emit("alias", e, self.ev(t.value.id))
            else:
                e, _ = self.viewof([b])
            # the element, if it is mutable, is updated in place ...
            if kbase(ek) in (K_LIST, K_SET, K_DICT):
                self.emit("cmutate", e)
            elif ek != K_IMM:
                self.emit("mutate", e)
            # ... and stored back
            self.emit("cmutate" if self.container_kind(t.value, kb) else "mutate", b)
            if v != IMM and not (holds_no_refs(kv) and kbase(ek) in (K_LIST, K_SET, K_DICT)):
                self.emit("absorb", b, v)
                self.emit("absorb", e, v)
            if self.is_simple(t.value) and kbase(ek) not in (K_LIST, K_SET, K_DICT) and ek not in (K_ARR, K_IMM):
                # an element that is not known to be updated in place may be replaced by a new object (tuple + tuple)
                nv, _ = self.fresh([e, v], K_UNK)
                self.weak(self.ev(t.value.id), nv)
            # the element keeps its base type (list stays list, array stays array; a number may become an array)
            rn = root_name(t.value)
            if rn:
                self.stored_through.add(rn)
            if kbase(ek) in CONTAINER_BASES and kbase(ek) == kbase(kv):
                self.note_store(t.value, kjoin(ek, kv))
            elif ek == K_IMM and kv != K_IMM:
                self.note_store(t.value, "arr?")
            return
        if isinstance(t, ast.Attribute):
            p = dotted(t)
            if p and p[0] == "self" and len(p) == 2 and self.w.attr_kinds.get((self.cls, p[1])) == K_IMM:
                return              # self.calculation_count += 1
            ov, ok = self.attribute(t)
            if ov == IMM:
                return
            self.emit("mutate", ov)
            if v != IMM:
                self.emit("absorb", ov, v)
            return
        self.err(s, "unsupported augmented assignment target")

    def stmt(self, s):
        """emit statement; returns True if it may leave the enclosing loop body early (break/continue)"""
        t = type(s)
        self.curline = getattr(s, "lineno", self.curline)
        if t is ast.Expr:
            if not (isinstance(s.value, ast.Constant)):
                self.expr(s.value)
            return False
        if t is ast.Assign:
            if (len(s.targets) == 1 and isinstance(s.targets[0], (ast.Tuple, ast.List))
                    and isinstance(s.value, (ast.Tuple, ast.List))
                    and len(s.value.elts) == len(s.targets[0].elts)
                    and not any(isinstance(e, ast.Starred) for e in s.value.elts + s.targets[0].elts)):
                vals = [self.expr(e) for e in s.value.elts]
                tmps = []
                for v, k in vals:
                    if v == IMM:
                        tmps.append((IMM, k))
                    else:
                        x = self.tmp()
                        self.emit("alias", x, v)
                        tmps.append((x, k))
                for tg, (v, k), e in zip(s.targets[0].elts, tmps, s.value.elts):
                    self.assign_to(tg, v, k, e)
                return False
            v, k = self.expr(s.value)
            if len(s.targets) == 1 and self.is_simple(s.targets[0]):
                self.bound_elems(s.targets[0].id, s.value, v)
            for tg in s.targets:
                self.assign_to(tg, v, k, s.value)
            return False
        if t is ast.AnnAssign:
            if s.value is not None:
                v, k = self.expr(s.value)
                self.assign_to(s.target, v, k, s.value)
            return False
        if t is ast.AugAssign:
            self.aug_assign(s)
            return False
        if t is ast.Return:
            if s.value is None:
                self.emit("ret", IMM)
            else:
                v, k = self.expr(s.value)
                self.retkind = kjoin(self.retkind, k)
                self.emit("ret", v)
            return False
        if t is ast.Raise:
            if s.exc is not None:
                self.expr(s.exc)
            self.emit("ret", IMM)
            return False
        if t is ast.If:
            self.expr(s.test)
            a, ea = self.sub(lambda: self.block(s.body))
            b, eb = self.sub(lambda: self.block(s.orelse))
            self.emit("ite", a, b)
            return ea or eb
        if t in (ast.For, ast.While):
            if t is ast.For:
                spec = self.iter_value(s.iter)

                def body():
                    self.bind_loop_target(s.target, spec)
                    self.block(s.body)
            else:
                def body():
                    self.expr(s.test)
                    self.block(s.body)
            b, _ = self.sub(body)
            self.emit("loop", b)
            if t is ast.While:
                self.expr(s.test)
            self.block(s.orelse)
            return False
        if t is ast.With:
            for it in s.items:
                v, k = self.expr(it.context_expr)
                if it.optional_vars is not None:
                    self.assign_to(it.optional_vars, v, k)
            return self.block(s.body)
        if t is ast.Try:
            ex = self.block(s.body, abortable=True)
            hs = []
            for h in s.handlers:
                def hb(h=h):
                    if h.type is not None:
                        self.expr(h.type) if not isinstance(h.type, ast.Tuple) else None
                    if h.name:
                        self.store_name(h.name, IMM, K_IMM)
                    return self.block(h.body)
                ir, e = self.sub(hb)
                ex = ex or e
                hs.append(ir)
            ir = []
            for h in reversed(hs):
                ir = [("ite", h, ir)]
            self.cur += ir
            ex = self.block(s.orelse) or ex
            ex = self.block(s.finalbody) or ex
            return ex
        if t is ast.Delete:
            for tg in s.targets:
                if isinstance(tg, ast.Name):
                    self.emit("alias", self.var(tg.id), IMM)
                elif isinstance(tg, ast.Subscript) and (self.is_data_dict(tg.value) or self.is_bookkeeping(tg.value)):
                    self.index(tg.slice)        # eviction of a cache entry / of its bookkeeping record (A4)
                elif isinstance(tg, ast.Subscript):
                    b, kb = self.expr(tg.value)
                    self.index(tg.slice)
                    if b != IMM:
                        self.emit("cmutate", b)
                elif isinstance(tg, ast.Tuple):
                    for e in tg.elts:
                        self.stmt(ast.Delete(targets=[e]))
                else:
                    self.err(s, "unsupported del target")
            return False
        if t in (ast.Break, ast.Continue):
            return True
        if t in (ast.Pass, ast.Import, ast.ImportFrom, ast.Global, ast.Nonlocal):
            return False
        if t is ast.Assert:
            self.expr(s.test)
            return False
        self.err(s, "unsupported statement %s" % t.__name__)

    def block(self, stmts, abortable=False):
        exits = False
        for i, s in enumerate(stmts):
            mark = self.nvars
            e = self.stmt(s)
            self.nvars = mark
            exits = exits or e
            if (e or abortable) and i + 1 < len(stmts):
                rest, e2 = self.sub(lambda: self.block(stmts[i + 1:], abortable))
                self.emit("ite", rest, [])
                return exits or e2
        return exits

    def run(self):
        fi = self.fi
        for i, p in enumerate(fi.params):
            if fi.fparams.get(p):
                continue
            if p in (fi.vararg, fi.kwarg):
                # Python builds a new tuple / dict for *args / **kwargs at every call:
                # the container is fresh, only its values come from the caller
                t = self.tmp()
                self.emit("param", t, i)
                self.emit("join", self.var(p), [t])
            else:
                self.emit("param", self.var(p), i)
        body = [s for s in fi.node.body]
        self.block(body)
        return self.cur


# ------------------------------------------------------------------ driver
ANYKEY = "core.AurelCore.<anykey>"


def docstring_kinds(fi):
    """Assumption A1: callers pass the types the numpy-style docstring declares.
    `name : str|int|float|bool` -> immutable; `dict` -> dict; `list [of str|int]` -> list."""
    import re
    doc = ast.get_docstring(fi.node) if isinstance(fi.node, ast.FunctionDef) else None
    out = {}
    fi.kwdoc = {}
    if not doc:
        return out
    # entries of **kwargs the function reads by a constant name: kwargs.get('name', ...) / kwargs['name']
    kwnames = set()
    if fi.kwarg:
        for n in ast.walk(fi.node):
            if (isinstance(n, ast.Call) and isinstance(n.func, ast.Attribute) and n.func.attr == "get"
                    and isinstance(n.func.value, ast.Name) and n.func.value.id == fi.kwarg and n.args
                    and isinstance(n.args[0], ast.Constant) and isinstance(n.args[0].value, str)):
                kwnames.add(n.args[0].value)
            if (isinstance(n, ast.Subscript) and isinstance(n.value, ast.Name) and n.value.id == fi.kwarg
                    and isinstance(n.slice, ast.Constant) and isinstance(n.slice.value, str)
                    and isinstance(n.ctx, ast.Load)):
                kwnames.add(n.slice.value)
    for line in doc.split("\n"):
        m = re.match(r"^\s*(\w+)\s*:\s*(.+?)\s*$", line)
        if not m or (m.group(1) not in fi.params and m.group(1) not in kwnames):
            continue
        ty = m.group(2).lower()
        k = None
        if re.match(r"^(str|string|int|float|bool)\b", ty) and " or " not in ty:
            k = K_IMM
        elif re.match(r"^dict\b", ty) and " or " not in ty:
            k = K_DICT
        elif re.match(r"^list\b", ty) and " or " not in ty:
            k = kmk(K_LIST, K_IMM) if re.match(r"^list of (str|int|float)", ty) else K_LIST
        if k is None:
            continue
        if m.group(1) in fi.params:
            out[m.group(1)] = k
        else:
            fi.kwdoc[m.group(1)] = k         # documented type of the keyword entry (assumption A1)
    for (q, p), (k, _) in PARAM_KINDS.items():
        if q == fi.qname:
            if p not in fi.params:
                raise TranslationError("PARAM_KINDS: %s has no parameter %s" % (q, p))
            out[p] = k
    return out



def translate_function(w, fi):
    """local fixed point on name kinds; returns IR list"""
    dk = docstring_kinds(fi)
    fi.dockinds = dk
    kinds = {p: dk.get(p, K_UNK) for p in fi.params}
    lfuncs = {}
    for _ in range(10):
        ft = FT(w, fi, kinds, lfuncs)
        fi.calls = set()
        ir = ft.run()
        new = dict(ft.newkinds)
        # a container whose element was taken out under another name and then stored through:
        # its element kinds are no longer known
        work, seen = list(ft.stored_through), set()
        while work:
            nm = work.pop()
            for par in ft.parents.get(nm, ()):
                if par not in seen:
                    seen.add(par)
                    work.append(par)
        for nm in seen:
            if nm in new and kbase(new[nm]) in CONTAINER_BASES and "<" in new[nm]:
                e = kelem(new[nm])
                new[nm] = kmk(kbase(new[nm]), kbase(e) if e else e)     # keep only "container of <base kind>"
        for p in fi.params:
            base = dk.get(p, K_UNK)
            new[p] = kjoin(base, new.get(p)) if p in new else base
        if new == kinds and ft.newlfuncs == lfuncs:
            if ft.soft:
                raise TranslationError(ft.soft[0])
            fi.nvars = ft.maxvars
            fi.callbacks = ft.callbacks
            fi.varline = ft.varline
            fi.used_expr_kinds = ft.used_expr_kinds
            fi.kinds = kinds
            fi.retkind_new = ft.retkind
            fi.varnames = dict(ft.vars)
            fi.simple = set(ft.simple)
            return ir
        kinds, lfuncs = new, ft.newlfuncs
    raise TranslationError("%s: name kinds do not stabilise" % fi.qname)


def prepass_attrs(w):
    """kinds / function candidates of instance attributes from `self.a = e`"""
    changed = False
    for fi in list(w.funcs.values()):
        if not fi.cls or not isinstance(fi.node, ast.FunctionDef):
            continue
        ft = FT(w, fi, {p: K_UNK for p in fi.params}, {})
        for n in ast.walk(fi.node):
            if isinstance(n, ast.Assign):
                for tg in n.targets:
                    tgs = tg.elts if isinstance(tg, ast.Tuple) else [tg]
                    for t1 in tgs:
                        p = dotted(t1) if isinstance(t1, ast.Attribute) else None
                        if p and p[0] == "self" and len(p) == 2:
                            key = (fi.cls, p[1])
                            fs = ft.funcs_of(n.value) if tg is t1 else None
                            if fs:
                                old = w.attr_funcs.get(key, set())
                                if not fs <= old:
                                    w.attr_funcs[key] = old | fs
                                    changed = True
                                continue
                            if tg is not t1:
                                k = K_UNK
                            else:
                                try:
                                    ft.cur = []
                                    k = ft.expr(n.value)[1]
                                except TranslationError:
                                    k = K_UNK
                            nk = kjoin(w.attr_kinds.get(key), k)
                            if nk != w.attr_kinds.get(key):
                                w.attr_kinds[key] = nk
                                changed = True
            if isinstance(n, ast.AugAssign) and isinstance(n.target, ast.Attribute):
                p = dotted(n.target)
                if p and p[0] == "self" and len(p) == 2:
                    key = (fi.cls, p[1])
                    # numbers stay numbers under += of numbers; otherwise unknown
                    if w.attr_kinds.get(key) not in (None, K_IMM):
                        pass
    # attributes that user kwargs may overwrite (setattr(self, key, value)) keep their declared kinds:
    # documented assumption A3.
    return changed


def prepass_fparams(w):
    changed = False
    for fi in list(w.funcs.values()):
        ft = FT(w, fi, {p: K_UNK for p in fi.params}, {})
        # local names bound to functions (func = est_functions[k])
        for n in ast.walk(fi.node):
            if isinstance(n, ast.Assign) and len(n.targets) == 1 and isinstance(n.targets[0], ast.Name):
                fs = ft.funcs_of(n.value)
                if fs:
                    ft.lfuncs.setdefault(n.targets[0].id, set()).update(fs)
        for n in ast.walk(fi.node):
            if not isinstance(n, ast.Call):
                continue
            fs = ft.funcs_of(n.func)
            if not fs:
                continue
            for q in fs:
                g = w.funcs.get(q)
                if g is None:
                    continue
                for i, a in enumerate(n.args):
                    if i < len(g.pos):
                        afs = ft.funcs_of(a)
                        if afs and not afs <= g.fparams.get(g.pos[i], set()):
                            g.fparams.setdefault(g.pos[i], set()).update(afs)
                            changed = True
                for kw in n.keywords:
                    if kw.arg in g.params:
                        afs = ft.funcs_of(kw.value)
                        if afs and not afs <= g.fparams.get(kw.arg, set()):
                            g.fparams.setdefault(kw.arg, set()).update(afs)
                            changed = True
    return changed


def check_bookkeeping(w):
    """side conditions of assumption A4 (see BOOKKEEPING_ATTRS); raises TranslationError when one fails"""
    created = set()
    for mod, rel in MODULES:
        tree = ast.parse(fw.src_text(rel))
        parent = {}
        for n in ast.walk(tree):
            for c in ast.iter_child_nodes(n):
                parent[c] = n
        for n in ast.walk(tree):
            if isinstance(n, ast.Call) and isinstance(n.func, ast.Name) and n.func.id in ("setattr", "delattr", "vars"):
                fn = n
                while fn in parent and not isinstance(fn, ast.FunctionDef):
                    fn = parent[fn]
                if not (isinstance(fn, ast.FunctionDef) and fn.name == "__init__" and mod == "core"):
                    raise TranslationError("A4: %s() outside AurelCore.__init__ (%s:%d)" % (n.func.id, rel, n.lineno))
            if not (isinstance(n, ast.Attribute) and n.attr in BOOKKEEPING_ATTRS):
                continue
            where = "%s:%d `%s`" % (rel, n.lineno, ast.unparse(parent.get(n, n)))
            par = parent.get(n)
            if isinstance(par, ast.Subscript) and par.value is n:
                continue                                   # x.attr[k]  (load / store / del; stored value checked at translation)
            if (isinstance(par, ast.Attribute) and par.value is n and par.attr in BOOKKEEPING_READ_METHODS
                    and isinstance(parent.get(par), ast.Call) and parent[par].func is par):
                continue                                   # x.attr.get(...) / .items() / .keys() / .values()
            if (isinstance(par, ast.Compare) and n in par.comparators
                    and all(isinstance(o, (ast.In, ast.NotIn)) for o in par.ops)):
                continue                                   # k in x.attr
            if isinstance(par, ast.Assign) and par.targets == [n] and isinstance(n.ctx, ast.Store):
                fn = parent.get(par)
                v = par.value
                fresh = (isinstance(v, ast.Dict) and not v.keys) or (
                    isinstance(v, ast.Call) and dotted(v.func) == ["dict", "fromkeys"] and len(v.args) == 2
                    and isinstance(v.args[1], ast.Constant) and not isinstance(v.args[1].value, (list, dict)))
                if (isinstance(fn, ast.FunctionDef) and fn.name == "__init__" and mod == "core" and fresh
                        and dotted(n) == ["self", n.attr]):
                    # created unconditionally, after every setattr(self, ...) of user keyword attributes
                    later = [c for c in ast.walk(fn) if isinstance(c, ast.Call) and isinstance(c.func, ast.Name)
                             and c.func.id == "setattr" and c.lineno > par.lineno]
                    if not later:
                        created.add(n.attr)
                        continue
            raise TranslationError("A4: bookkeeping dict used in a way that may let it escape or alias: " + where)
    missing = set(BOOKKEEPING_ATTRS) - created
    if missing:
        raise TranslationError("A4: AurelCore.__init__ does not create %s as a new dict" % sorted(missing))


def is_public(fi):
    name = fi.qname.split(".")[-1]
    return not name.startswith("_") or name == "__init__"


def build():
    w = load_world()
    check_bookkeeping(w)
    for fi in w.funcs.values():
        fi.retkind = None
    for _ in range(6):
        c1 = prepass_attrs(w)
        c2 = prepass_fparams(w)
        if not (c1 or c2):
            break
    # description keys: every zero-argument method of AurelCore can be requested as rel["name"]
    keyfns = {}
    for q, fi in w.funcs.items():
        if fi.cls == "core.AurelCore" and not fi.params and not q.split(".")[-1].startswith("__"):
            keyfns[q.split(".")[-1]] = q
    for k in sorted(keyfns):
        w.key(k)
    irs = {}
    for rnd in range(16):
        changed = False
        for q, fi in w.funcs.items():
            irs[q] = translate_function(w, fi)
            if fi.retkind_new != fi.retkind:
                fi.retkind = fi.retkind_new
                changed = True
        if not changed:
            break
    else:
        raise TranslationError("return kinds do not stabilise")
    # synthetic function: rel[<dynamic key>]
    ak = [("ret", 1)]
    chain = []
    for k in sorted(keyfns):
        chain = [("ite", [("cached", 1, w.keys[k])], chain)]
    irs[ANYKEY] = chain + ak
    anyfi = FuncInfo(ANYKEY, ast.parse("def f(): pass").body[0], "core", None, 0)
    anyfi.nvars, anyfi.calls, anyfi.retkind = 2, set(), K_UNK
    w.funcs[ANYKEY] = anyfi
    return w, irs, keyfns


def order_functions(w):
    """callees first (so that one Gauss-Seidel round propagates the summaries)"""
    seen, out = set(), []

    def visit(q, stack):
        if q in seen:
            return
        seen.add(q)
        for c in sorted(w.funcs[q].calls):
            if c in w.funcs and c not in stack:
                visit(c, stack | {q})
        out.append(q)
    for q in sorted(w.funcs, key=lambda q: (MODULE_ORDER.get(w.funcs[q].module, 9), w.funcs[q].lineno)):
        visit(q, frozenset())
    return out


MODULE_ORDER = {m: i for i, (m, _) in enumerate(MODULES)}


def lean_stmt(s, fid):
    tag = s[0]
    ls = lambda xs: "[" + ", ".join(str(x) for x in xs) + "]"
    if tag == "join":
        return "join %d %s" % (s[1], ls(s[2]))
    if tag == "view":
        return "view %d %s" % (s[1], ls(s[2]))
    if tag in ("alias", "param", "cached", "glob", "store", "absorb"):
        return "%s %d %d" % (tag, s[1], s[2])
    if tag == "call":
        return "call %d %d %s" % (s[1], fid[s[2]], ls(s[3]))
    if tag in ("mutate", "cmutate", "ret"):
        return "%s %d" % (tag, s[1])
    if tag == "ite":
        return "ite (%s) (%s)" % (lean_block(s[1], fid), lean_block(s[2], fid))
    if tag == "loop":
        return "loop (%s)" % lean_block(s[1], fid)
    raise TranslationError("internal: statement " + repr(s))


def lean_block(b, fid):
    if not b:
        return "skip"
    if len(b) == 1:
        return lean_stmt(b[0], fid)
    return "blk [" + ", ".join(lean_stmt(s, fid) for s in b) + "]"


def count_stmts(b):
    n = 0
    for s in b:
        n += 1
        if s[0] == "ite":
            n += count_stmts(s[1]) + count_stmts(s[2])
        elif s[0] == "loop":
            n += count_stmts(s[1])
    return n


def generate():
    w, irs, keyfns = build()
    order = order_functions(w)
    used = set()
    for q in order:
        used |= getattr(w.funcs[q], "used_expr_kinds", set())
    stale = set(EXPR_KINDS) - used
    if stale:
        raise TranslationError("EXPR_KINDS entries no longer match the source: %s" % sorted(stale))
    fid = {q: i for i, q in enumerate(order)}
    flags = {}
    for q in order:
        fi = w.funcs[q]
        claims = fi.module in CONTAINER_CLAIM_MODULES
        pub = is_public(fi) and q != ANYKEY
        cpub = claims and pub and q not in CPUB_EXEMPT and q not in NONSTRICT
        strict = claims and q not in NONSTRICT
        flags[q] = (pub, cpub, strict)
    out = ["-- GENERATED by tools/py2lean/aliasir.py from src/aurel/{core,maths,finitedifference,numerical,time,reading}.py",
           "-- do not edit.  One alias-IR body per function; see Model/Heap.lean for the statements.",
           "import AurelVerif.Model.Heap",
           "namespace AurelVerif.Gen.AliasIR",
           "open AurelVerif.Heap AurelVerif.Heap.Stmt", "",
           "def blk : List Stmt → Stmt", "  | [] => skip", "  | [s] => s", "  | s :: l => seq s (blk l)", ""]
    total = 0
    for q in order:
        fi = w.funcs[q]
        n = count_stmts(irs[q])
        total += n
        out.append("/-- `%s` (%s.py:%d), %d statements, %d variables -/" % (q, fi.module, fi.lineno, n, fi.nvars))
        out.append("def f%d : Stmt := %s" % (fid[q], lean_block(irs[q], fid)))
    out.append("")
    out.append("def fns : List Fn := [")
    out.append(",\n".join("  ⟨f%d, %s, %s, %s⟩" % ((fid[q],) + tuple(str(b).lower() for b in flags[q])) for q in order))
    out.append("]")
    out.append("")
    out.append("/-- description key ↦ method (every zero-argument method of AurelCore) -/")
    out.append("def keys : List (Key × FnId) := [%s]" % ", ".join(
        "(%d, %d)" % (w.keys[k], fid[keyfns[k]]) for k in sorted(keyfns)))
    out.append("")
    out.append("def program : Program := ⟨fns, keys⟩")
    out.append("")
    out.append("def fnNames : List String := [%s]" % ", ".join('"%s"' % q for q in order))
    out.append("")
    out.append("/-! indices of the functions Props/C02Containers.lean names -/")
    for q in NAMED_FUNCTIONS:
        if q not in fid:
            raise TranslationError("NAMED_FUNCTIONS: %s is not a function of the source" % q)
        out.append("def fid_%s : FnId := %d" % (q.replace(".", "_"), fid[q]))
    out.append("def keyNames : List String := [%s]" % ", ".join('"%s"' % k for k in w.key_names))
    out.append("")
    out.append("end AurelVerif.Gen.AliasIR")
    info = {"functions": len(order), "statements": total, "order": order, "flags": flags,
            "keys": dict(w.keys), "keyfns": keyfns,
            "callback_sites": [c for q in order for c in getattr(w.funcs[q], "callbacks", [])],
            "params": {q: w.funcs[q].params for q in order},
            "cost": {q: count_stmts(irs[q]) * w.funcs[q].nvars for q in order},
            "lines": {q: (w.funcs[q].module, w.funcs[q].lineno) for q in order},
            "fparams": {q: {k: sorted(v) for k, v in w.funcs[q].fparams.items() if v} for q in order
                        if any(w.funcs[q].fparams.values())},
            "exempt": {"cpub": CPUB_EXEMPT, "nonstrict": NONSTRICT, "skipped": SKIP_FUNCS,
                       "bookkeeping(A4)": BOOKKEEPING_ATTRS},
            "named": {q: fid[q] for q in NAMED_FUNCTIONS},
            "simple_locals": {q: sorted(getattr(w.funcs[q], "simple", ())) for q in order
                              if getattr(w.funcs[q], "simple", None)},
            # for diagnostics only (tools/py2lean/aliasdiag.py): the IR as Python tuples
            "diag": {"irs": irs, "keyfn_name": {w.keys[k]: q for k, q in keyfns.items()}}}
    return "\n".join(out) + "\n", info


# ------------------------------------------------ summary certificate + check modules
NCHUNKS = 12
GEN = os.path.join(fw.LEAN, "AurelVerif", "Gen")


def _lake_build(mods, timeout=1500):
    import fcntl
    import subprocess
    lock = open(os.path.join(fw.LEAN, ".build.lock"), "w")
    fcntl.flock(lock, fcntl.LOCK_EX)
    try:
        p = subprocess.run(["timeout", str(timeout), "lake", "build"] + mods, cwd=fw.LEAN,
                           capture_output=True, text=True)
    finally:
        fcntl.flock(lock, fcntl.LOCK_UN)
        lock.close()
    return p.returncode, p.stdout + p.stderr


def run_driver():
    """Summaries the (compiled, untrusted) Lean analysis computes for Gen/AliasIR.lean."""
    import re
    import subprocess
    rc, out = _lake_build(["AurelVerif.Gen.AliasIR"])
    if rc != 0:
        raise TranslationError("Gen/AliasIR.lean does not build: " + out[-800:])
    p = subprocess.run(["timeout", "900", "lake", "env", "lean", "--run", "Driver/C02.lean"], cwd=fw.LEAN,
                       capture_output=True, text=True)
    if p.returncode != 0:
        raise TranslationError("Driver/C02.lean failed: " + (p.stderr or p.stdout)[-800:])
    rows, check = [], None
    for line in p.stdout.split("\n"):
        if line.startswith("check "):
            check = line.split()[1] == "true"
        m = re.match(r"fn (\d+) (\S+) ok=(\w+) mutA=(\[.*?\]) mutC=(\[.*?\]) retOwn=(\[.*?\]) "
                     r"retReach=(\[.*?\]) esc=(\[.*?\]) fnOK=(\w+)", line)
        if m:
            rows.append({"index": int(m.group(1)), "name": m.group(2), "ok": m.group(3) == "true",
                         "mutA": eval(m.group(4)), "mutC": eval(m.group(5)), "retOwn": eval(m.group(6)),
                         "retReach": eval(m.group(7)), "esc": eval(m.group(8)), "fnOK": m.group(9) == "true"})
    return check, rows


def write_check_modules(info, rows, ir_sha):
    order = info["order"]
    n = len(order)
    if len(rows) != n:
        raise TranslationError("driver reported %d functions, IR has %d" % (len(rows), n))
    lit = lambda xs: "[" + ", ".join(str(x) for x in xs) + "]"
    summ = ["-- GENERATED by tools/py2lean/aliasir.py: the summary table computed by Driver/C02.lean for",
            "-- Gen/AliasIR.lean (ir-sha: %s).  It is only a certificate: `checkFn` re-checks every entry in the kernel." % ir_sha,
            "import AurelVerif.Gen.AliasIR", "namespace AurelVerif.Gen.AliasIR", "open AurelVerif.Heap", "",
            "def summaries : List Summ := ["]
    for i, r in enumerate(rows):
        summ.append("  /- %d %s -/ ⟨%s, %s, %s, %s, %s, %s⟩%s" % (
            r["index"], r["name"], str(r["ok"]).lower(), lit(r["mutA"]), lit(r["mutC"]), lit(r["retOwn"]),
            lit(r["retReach"]), lit(r["esc"]), "," if i + 1 < n else ""))
    summ += ["]", "", "end AurelVerif.Gen.AliasIR", ""]
    fw.write_if_changed(os.path.join(GEN, "AliasSumm.lean"), "\n".join(summ))
    # contiguous chunks of roughly equal cost (cost ~ statements x variables)
    cost = [max(1, info["cost"][q]) for q in order]
    total, bounds, acc = sum(cost), [0], 0
    for i, c in enumerate(cost):
        acc += c
        if acc >= total * len(bounds) / NCHUNKS and len(bounds) < NCHUNKS and i + 1 < n:
            bounds.append(i + 1)
    while len(bounds) < NCHUNKS:
        bounds.append(n)
    bounds.append(n)
    for k in range(NCHUNKS):
        lo, hi = bounds[k], bounds[k + 1]
        fw.write_if_changed(os.path.join(GEN, "AliasChk%d.lean" % k), "\n".join([
            "-- GENERATED by tools/py2lean/aliasir.py: functions %d..%d of Gen/AliasIR.lean pass `checkFn`." % (lo, hi - 1),
            "import AurelVerif.Gen.AliasSumm", "namespace AurelVerif.Gen.AliasIR", "open AurelVerif.Heap", "",
            "set_option maxRecDepth 100000 in",
            "theorem chunk%d : (List.range' %d %d).all (checkFn program summaries) = true := by decide +kernel" % (k, lo, hi - lo),
            "", "end AurelVerif.Gen.AliasIR", ""]))
    comb = ["-- GENERATED by tools/py2lean/aliasir.py: the chunks together are `checkWith program summaries`.",
            "import AurelVerif.Lemmas.Heap"] + ["import AurelVerif.Gen.AliasChk%d" % k for k in range(NCHUNKS)] + [
            "namespace AurelVerif.Gen.AliasIR", "open AurelVerif.Heap", "",
            "theorem fns_length : program.fns.length = %d := by decide +kernel" % n, "",
            "theorem program_checked : checkWith program summaries = true := by",
            "  apply checkWith_of_all", "  intro f hf", "  rw [fns_length] at hf"]
    for k in range(NCHUNKS):
        lo, hi = bounds[k], bounds[k + 1]
        if hi == lo:
            continue
        comb += ["  by_cases h%d : f < %d" % (k, hi),
                 "  · exact all_range' chunk%d f (by omega) (by omega)" % k]
    comb += ["  omega", "", "end AurelVerif.Gen.AliasIR", ""]
    fw.write_if_changed(os.path.join(GEN, "AliasCheck.lean"), "\n".join(comb))


def regen():
    """Regenerate Gen/AliasIR.lean and, when it changed, the summary certificate and check modules.
    Returns (changed, info); info["rows"] = the driver's per-function summaries."""
    import hashlib
    import json
    text, info = generate()
    path = os.path.join(GEN, "AliasIR.lean")
    changed = fw.write_if_changed(path, text)
    sha = hashlib.sha1(text.encode()).hexdigest()
    cache = os.path.join(GEN, ".aliasir_rows.json")
    rows = None
    if os.path.exists(cache) and os.path.exists(os.path.join(GEN, "AliasCheck.lean")):
        try:
            c = json.load(open(cache))
            if c.get("sha") == sha:
                rows, info["check"] = c["rows"], c["check"]
        except Exception:  # noqa
            rows = None
    if rows is None:
        info["check"], rows = run_driver()
        write_check_modules(info, rows, sha)
        json.dump({"sha": sha, "check": info["check"], "rows": rows}, open(cache, "w"))
    info["rows"] = rows
    info["sha"] = sha
    return changed, info
