"""py2lean: core.py (AurelCore) -> Gen/DepGraph.lean.

For every description key (zero-argument method listed in descriptions.yml)
and every helper method of AurelCore the translator derives from the AST a
*shape*: the decision tree of the method body with, in Python evaluation
order,

  read k      self["k"]           (request through __getitem__)
  peek k      self.data["k"]      (direct dictionary access)
  rep n ks    reads `ks` repeated n times (loops / comprehensions over a
              literal range or over self.extract_radii)
  test g t e  an `if` on a presence guard ('k' in self.data, all(...),
              self.vacuum, self.tetrad == "...", and/or/not of these) or on an
              opaque value test without reads (kept as a named flag)
  ret i       the i-th return site (the formula itself is not translated here)
  fail        raise

Helper methods (`self.s_covd(f, 'dd')`, `self.trace3(...)`, ...) are inlined at
their call sites with literal arguments bound, so that tests on `indexing`,
`rank`, `weight`, `direction` are decided statically.  The translator also
computes a rank certificate (longest chain of not-guaranteed reads) which
Props/C01.lean re-checks with `decide +kernel`.

Never guesses: every statement / expression form outside the recognised
subset raises TranslationError, which the check reports as a broken
obligation.
"""
import ast
import os

import yaml

from lib import fw


class TranslationError(Exception):
    pass


INFRA = {"__init__", "myprint", "__getitem__", "cleanup_cache", "load_data", "freeze_data"}

# helper specialisations emitted as stand-alone shapes (user-callable API).
# Every helper method of the class must be listed (else: refuse).
HELPER_SPECS = {
    "s_covd": [{"indexing": i} for i in ("", "u", "d", "uu", "dd", "ud", "du")],
    "st_covd": [{"indexing": i} for i in ("", "u", "d")],
    "s_div": [{"indexing": i} for i in ("u", "d", "uu", "ud", "du", "dd")],
    "s_curl": [{"indexing": "dd"}],
    "Lie_beta": [{"indexing": i, "weight": w} for i in ("", "s_u", "st_u", "s_d", "st_d", "s_uu", "s_ud", "s_du", "s_dd")
                 for w in (0, 1)],
    "s_to_st": [{}], "vector_inner_product4": [{}], "vector_inner_product3": [{}], "trace4": [{}], "trace3": [{}],
    "tracefree3": [{}], "magnitude4": [{}], "magnitude3": [{}], "norm4": [{}], "norm3": [{}],
    "kronecker_delta4": [{}], "kronecker_delta3": [{}], "levicivita_down4": [{}], "levicivita_down3": [{}],
    "levicivita_symbol_down4": [{}], "levicivita_symbol_down3": [{}],
    "null_ray_expansion": [{"direction": "out"}, {"direction": "in"}],
    "null_vector_base": [{}], "tetrad_base": [{}],
}

UNKNOWN = object()
SAFE_FUNCS = {"len": len, "range": range, "abs": abs, "int": int, "float": float}


def load_description_keys():
    data = yaml.safe_load(open(os.path.join(fw.SRC, "data", "descriptions.yml")))
    out = []
    for _, cat in data.items():
        if isinstance(cat, dict):
            for key, value in cat.items():
                if key in ("category", "subcategory", "note"):
                    continue
                if isinstance(value, dict):
                    out += [k for k in value if k not in ("category", "subcategory", "note")]
                elif isinstance(value, str):
                    out.append(key)
    return out


def src(node):
    try:
        return ast.unparse(node)
    except Exception:  # noqa
        return "<%s>" % type(node).__name__


def is_self_attr(node, attr=None):
    return (isinstance(node, ast.Attribute) and isinstance(node.value, ast.Name) and node.value.id == "self"
            and (attr is None or node.attr == attr))


def is_self_data(node):
    """self.data or self.data.keys()"""
    if is_self_attr(node, "data"):
        return True
    return (isinstance(node, ast.Call) and not node.args and isinstance(node.func, ast.Attribute)
            and node.func.attr == "keys" and is_self_attr(node.func.value, "data"))


class Translator:
    def __init__(self):
        tree = ast.parse(fw.src_text("core.py"))
        cls = [n for n in tree.body if isinstance(n, ast.ClassDef) and n.name == "AurelCore"]
        if len(cls) != 1:
            raise TranslationError("class AurelCore not found")
        self.methods = {}
        for n in cls[0].body:
            if isinstance(n, ast.FunctionDef):
                self.methods[n.name] = n
            elif not (isinstance(n, ast.Expr) and isinstance(n.value, ast.Constant)):
                raise TranslationError("unexpected class-level statement at line %d" % n.lineno)
        self.desc = load_description_keys()
        self.keys = [k for k in self.desc]
        for k in self.keys:
            if k not in self.methods:
                raise TranslationError("description key %s has no method" % k)
            a = self.methods[k].args
            if [x.arg for x in a.args] != ["self"] or a.vararg or a.kwarg or a.kwonlyargs:
                raise TranslationError("description key %s takes arguments" % k)
        self.helpers = [m for m in self.methods if m not in self.keys and m not in INFRA]
        for h in self.helpers:
            if h not in HELPER_SPECS:
                raise TranslationError("helper method %s is not in HELPER_SPECS" % h)
        for m in INFRA:
            if m not in self.methods:
                raise TranslationError("infrastructure method %s missing" % m)
        self.options = {}          # method -> set of self.<attr> options read
        self.flags = set()
        self.guards = {}           # guard text -> set of methods
        self.depth = 0
        self.cur = None
        self.leaf = 0
        self.leaves = []           # (leaf id, line) of the method being translated

    # ------------------------------------------------------------------ const eval
    def const_eval(self, node, env):
        """Value of a constant expression under env, or UNKNOWN."""
        for n in ast.walk(node):
            if isinstance(n, ast.Name):
                if n.id in SAFE_FUNCS:
                    continue
                if n.id not in env or env[n.id] is UNKNOWN:
                    return UNKNOWN
            elif isinstance(n, ast.Attribute):
                # only methods of constant strings/lists: .count .split
                if n.attr not in ("count", "split"):
                    return UNKNOWN
            elif isinstance(n, ast.Call):
                f = n.func
                if isinstance(f, ast.Name) and f.id in SAFE_FUNCS:
                    continue
                if isinstance(f, ast.Attribute) and f.attr in ("count", "split"):
                    continue
                return UNKNOWN
            elif isinstance(n, (ast.Lambda, ast.ListComp, ast.GeneratorExp, ast.DictComp, ast.SetComp, ast.Await,
                                ast.Yield, ast.YieldFrom, ast.NamedExpr, ast.Starred, ast.JoinedStr)):
                return UNKNOWN
        try:
            code = compile(ast.fix_missing_locations(ast.Expression(body=node)), "<const>", "eval")
            return eval(code, {"__builtins__": {}}, dict(SAFE_FUNCS, **{k: v for k, v in env.items()}))  # noqa
        except Exception:  # noqa
            return UNKNOWN

    # ------------------------------------------------------------------ guards
    def guard(self, node, env):
        """('static', bool) | ('guard', G).  G: ('pres',k) ('flag',text) ('not',g) ('and',g,h) ('or',g,h)"""
        v = self.const_eval(node, env)
        if v is not UNKNOWN:
            return ("static", bool(v))
        g = self.presence(node)
        if g is not None:
            self.guards.setdefault(src(node), set()).add(self.cur)
            return ("guard", g)
        if isinstance(node, ast.BoolOp):
            parts = [self.guard(v, env) for v in node.values]
            return self.combine(isinstance(node.op, ast.And), parts)
        if isinstance(node, ast.UnaryOp) and isinstance(node.op, ast.Not):
            k, g = self.guard(node.operand, env)
            return (k, not g) if k == "static" else ("guard", ("not", g))
        if self.atoms(node, env):
            raise TranslationError("%s: test with cache reads: %s" % (self.cur, src(node)))
        # opaque, value-dependent test without reads: named flag (physical option or argument check)
        txt = src(node)
        self.flags.add(txt)
        return ("guard", ("flag", txt))

    @staticmethod
    def combine(is_and, parts):
        out = None
        for k, g in parts:
            if k == "static":
                if g != is_and:           # False in and / True in or: decides
                    return ("static", g)
                continue
            out = g if out is None else (("and" if is_and else "or"), out, g)
        return ("static", is_and) if out is None else ("guard", out)

    def presence(self, node):
        """Pure presence formula or None."""
        if isinstance(node, ast.Compare) and len(node.ops) == 1 and is_self_data(node.comparators[0]) \
                and isinstance(node.left, ast.Constant) and isinstance(node.left.value, str):
            if isinstance(node.ops[0], ast.In):
                return ("pres", node.left.value)
            if isinstance(node.ops[0], ast.NotIn):
                return ("not", ("pres", node.left.value))
        if isinstance(node, ast.BoolOp):
            ps = [self.presence(v) for v in node.values]
            if all(p is not None for p in ps):
                out = ps[0]
                for p in ps[1:]:
                    out = ("and" if isinstance(node.op, ast.And) else "or", out, p)
                return out
        if isinstance(node, ast.UnaryOp) and isinstance(node.op, ast.Not):
            p = self.presence(node.operand)
            return None if p is None else ("not", p)
        # all(k in self.data.keys() for k in ("a", "b", ...)) / any(k in self.data for k in (...))
        if isinstance(node, ast.Call) and isinstance(node.func, ast.Name) and node.func.id in ("all", "any") \
                and len(node.args) == 1 and isinstance(node.args[0], ast.GeneratorExp):
            ge = node.args[0]
            if len(ge.generators) == 1 and not ge.generators[0].ifs and isinstance(ge.generators[0].target, ast.Name):
                var = ge.generators[0].target.id
                it = ge.generators[0].iter
                e = ge.elt
                if isinstance(it, (ast.Tuple, ast.List)) and all(isinstance(x, ast.Constant) and isinstance(x.value, str)
                                                               for x in it.elts) and it.elts \
                        and isinstance(e, ast.Compare) and len(e.ops) == 1 and isinstance(e.ops[0], ast.In) \
                        and isinstance(e.left, ast.Name) and e.left.id == var and is_self_data(e.comparators[0]):
                    out = ("pres", it.elts[0].value)
                    for x in it.elts[1:]:
                        out = ("and" if node.func.id == "all" else "or", out, ("pres", x.value))
                    return out
        if is_self_attr(node, "vacuum"):
            return ("flag", "self.vacuum")
        if isinstance(node, ast.Compare) and len(node.ops) == 1 and isinstance(node.ops[0], (ast.Eq, ast.NotEq)) \
                and is_self_attr(node.left) and isinstance(node.comparators[0], ast.Constant):
            g = ("flag", "self.%s == %r" % (node.left.attr, node.comparators[0].value))
            return g if isinstance(node.ops[0], ast.Eq) else ("not", g)
        return None

    # ------------------------------------------------------------------ expressions -> ordered atoms
    def atoms(self, node, env):
        """Cache accesses of an expression in Python evaluation order:
        ('read',k) ('peek',k) ('call',method,bindings) ('rep',count,[atoms])"""
        if node is None or isinstance(node, (ast.Constant, ast.Name)):
            return []
        if isinstance(node, ast.Attribute):
            if is_self_attr(node):
                if node.attr == "data":
                    raise TranslationError("%s: bare use of self.data: line %d" % (self.cur, node.lineno))
                if node.attr in self.methods:
                    raise TranslationError("%s: method object self.%s used as a value" % (self.cur, node.attr))
                self.options.setdefault(self.cur, set()).add(node.attr)
                return []
            return self.atoms(node.value, env)
        if isinstance(node, ast.Subscript):
            if isinstance(node.value, ast.Name) and node.value.id == "self":
                if isinstance(node.slice, ast.Constant) and isinstance(node.slice.value, str):
                    return [("read", node.slice.value)]
                raise TranslationError("%s: self[<non-literal>] at line %d" % (self.cur, node.lineno))
            if is_self_attr(node.value, "data"):
                if isinstance(node.slice, ast.Constant) and isinstance(node.slice.value, str):
                    return [("peek", node.slice.value)]
                raise TranslationError("%s: self.data[<non-literal>] at line %d" % (self.cur, node.lineno))
            return self.atoms(node.value, env) + self.atoms(node.slice, env)
        if isinstance(node, ast.Call):
            f = node.func
            if is_self_attr(f) and f.attr in self.methods:
                out = []
                for a in node.args:
                    out += self.atoms(a, env)
                for kw in node.keywords:
                    if kw.arg is None:
                        raise TranslationError("%s: **kwargs call" % self.cur)
                    out += self.atoms(kw.value, env)
                if f.attr == "myprint":
                    return out
                if f.attr in INFRA:
                    raise TranslationError("%s calls infrastructure method %s" % (self.cur, f.attr))
                m = self.methods[f.attr]
                params = [a.arg for a in m.args.args][1:]
                defaults = m.args.defaults
                bind = {}
                for i, p in enumerate(params):
                    j = i - (len(params) - len(defaults))
                    if j >= 0:
                        bind[p] = self.const_eval(defaults[j], {})
                if len(node.args) > len(params):
                    raise TranslationError("%s: too many arguments to %s" % (self.cur, f.attr))
                for p, a in zip(params, node.args):
                    bind[p] = self.const_eval(a, env)
                for kw in node.keywords:
                    if kw.arg not in params:
                        raise TranslationError("%s: unknown keyword %s" % (self.cur, kw.arg))
                    bind[kw.arg] = self.const_eval(kw.value, env)
                for p in params:
                    bind.setdefault(p, UNKNOWN)
                return out + [("call", f.attr, bind)]
            if is_self_attr(f):
                raise TranslationError("%s: call of unknown self.%s" % (self.cur, f.attr))
            out = self.atoms(f, env)
            for a in node.args:
                if isinstance(a, ast.Starred):
                    raise TranslationError("%s: *args call" % self.cur)
                out += self.atoms(a, env)
            for kw in node.keywords:
                out += self.atoms(kw.value, env)
            return out
        if isinstance(node, ast.BinOp):
            return self.atoms(node.left, env) + self.atoms(node.right, env)
        if isinstance(node, ast.UnaryOp):
            return self.atoms(node.operand, env)
        if isinstance(node, ast.Compare):
            if any(is_self_data(c) for c in node.comparators):
                return self.atoms(node.left, env)
            out = self.atoms(node.left, env)
            for c in node.comparators:
                out += self.atoms(c, env)
            return out
        if isinstance(node, ast.BoolOp):
            first = self.atoms(node.values[0], env)
            for v in node.values[1:]:
                if self.atoms(v, env):
                    raise TranslationError("%s: cache read under short-circuit at line %d" % (self.cur, node.lineno))
            return first
        if isinstance(node, (ast.Tuple, ast.List)):
            out = []
            for e in node.elts:
                out += self.atoms(e, env)
            return out
        if isinstance(node, ast.ListComp):
            if len(node.generators) != 1 or node.generators[0].ifs or node.generators[0].is_async:
                raise TranslationError("%s: unsupported comprehension at line %d" % (self.cur, node.lineno))
            g = node.generators[0]
            pre = self.atoms(g.iter, env)
            cnt = self.iter_count(g.iter, env)
            inner_env = dict(env)
            for n in ast.walk(g.target):
                if isinstance(n, ast.Name):
                    inner_env[n.id] = UNKNOWN
            body = self.atoms(node.elt, inner_env)
            return pre + ([("rep", cnt, body)] if body else [])
        if isinstance(node, ast.GeneratorExp):
            if self.presence(ast.Call(func=ast.Name(id="all"), args=[node], keywords=[])) is not None:   # inside all()/any()
                return []
            raise TranslationError("%s: generator expression at line %d" % (self.cur, node.lineno))
        if isinstance(node, ast.JoinedStr):
            out = []
            for v in node.values:
                out += self.atoms(v, env)
            return out
        if isinstance(node, ast.FormattedValue):
            return self.atoms(node.value, env)
        if isinstance(node, ast.Slice):
            return self.atoms(node.lower, env) + self.atoms(node.upper, env) + self.atoms(node.step, env)
        if isinstance(node, ast.Dict):
            out = []
            for k, v in zip(node.keys, node.values):
                out += self.atoms(k, env) + self.atoms(v, env)
            return out
        if isinstance(node, ast.Starred):
            return self.atoms(node.value, env)
        raise TranslationError("%s: unsupported expression %s at line %d" % (self.cur, type(node).__name__,
                                                                           getattr(node, "lineno", 0)))

    def iter_count(self, it, env):
        v = self.const_eval(it, env)
        if v is not UNKNOWN:
            try:
                return ("lit", len(list(v)))
            except TypeError:
                pass
        if is_self_attr(it):
            self.options.setdefault(self.cur, set()).add(it.attr)
            return ("opt", "len(self.%s)" % it.attr)
        raise TranslationError("%s: loop over %s with cache reads in the body" % (self.cur, src(it)))

    # ------------------------------------------------------------------ shapes (CPS)
    def chain(self, atoms, cont, stack=()):
        if not atoms:
            return cont()
        a = atoms[0]

        def rest():
            return self.chain(atoms[1:], cont, stack)
        if a[0] == "read":
            return ("read", a[1], rest())
        if a[0] == "peek":
            return ("peek", a[1], rest())
        if a[0] == "rep":
            cnt, keys = self.flatten_rep(a)
            return ("rep", cnt, keys, rest()) if keys else rest()
        if a[0] == "call":
            return self.inline(a[1], a[2], rest, stack)
        raise TranslationError("bad atom %r" % (a,))

    def flatten_rep(self, a):
        _, cnt, body = a
        if all(b[0] == "read" for b in body):
            return cnt, [b[1] for b in body]
        if len(body) == 1 and body[0][0] == "rep":
            c2, keys = self.flatten_rep(body[0])
            if cnt[0] == "lit" and c2[0] == "lit":
                return ("lit", cnt[1] * c2[1]), keys
        raise TranslationError("%s: loop body with helper calls / direct accesses: %r" % (self.cur, body[:3]))

    def inline(self, name, bind, cont, stack):
        if name in stack:
            raise TranslationError("helper recursion through %s" % name)
        env = dict(bind)
        return self.block(self.methods[name].body, env, lambda env2: cont(), lambda: cont(), stack + (name,))

    def block(self, stmts, env, fall, ret, stack=()):
        """Shape of executing `stmts`; `fall(env)` continues after the block,
        `ret()` is the continuation of a `return`."""
        if not stmts:
            return fall(env)
        s, rest = stmts[0], stmts[1:]

        def after(env2):
            return self.block(rest, env2, fall, ret, stack)
        if isinstance(s, ast.Expr):
            if isinstance(s.value, ast.Constant):
                return after(env)
            return self.chain(self.atoms(s.value, env), lambda: after(env), stack)
        if isinstance(s, ast.Assign):
            at = self.atoms(s.value, env)
            env2 = dict(env)
            v = self.const_eval(s.value, env) if not at else UNKNOWN
            for t in s.targets:
                if isinstance(t, ast.Name):
                    env2[t.id] = v
                elif isinstance(t, (ast.Tuple, ast.List)):
                    for n in ast.walk(t):
                        if isinstance(n, ast.Name):
                            env2[n.id] = UNKNOWN
                elif isinstance(t, ast.Subscript):
                    if is_self_attr(t.value) or (isinstance(t.value, ast.Name) and t.value.id == "self"):
                        raise TranslationError("%s: assignment into self at line %d" % (self.cur, s.lineno))
                    at = at + self.atoms(t.value, env) + self.atoms(t.slice, env)
                    if isinstance(t.value, ast.Name):
                        env2[t.value.id] = UNKNOWN
                else:
                    raise TranslationError("%s: unsupported assignment target at line %d" % (self.cur, s.lineno))
            return self.chain(at, lambda: after(env2), stack)
        if isinstance(s, ast.AugAssign):
            t = s.target
            at = []
            env2 = dict(env)
            if isinstance(t, ast.Name):
                env2[t.id] = UNKNOWN
            elif isinstance(t, ast.Subscript) and isinstance(t.value, ast.Name) and t.value.id != "self":
                at += self.atoms(t.slice, env)
                env2[t.value.id] = UNKNOWN
            else:
                raise TranslationError("%s: unsupported augmented assignment at line %d" % (self.cur, s.lineno))
            at += self.atoms(s.value, env)
            return self.chain(at, lambda: after(env2), stack)
        if isinstance(s, ast.Return):
            return self.chain(self.atoms(s.value, env), ret, stack)
        if isinstance(s, ast.Raise):
            return ("fail",)
        if isinstance(s, ast.If):
            kind, g = self.guard(s.test, env)
            if kind == "static":
                return self.block((s.body if g else s.orelse) + rest, env, fall, ret, stack)
            return ("test", g, self.block(s.body + rest, env, fall, ret, stack),
                    self.block(s.orelse + rest, env, fall, ret, stack))
        if isinstance(s, ast.For):
            if s.orelse:
                raise TranslationError("%s: for/else at line %d" % (self.cur, s.lineno))
            pre = self.atoms(s.iter, env)
            has_ctrl = any(isinstance(n, (ast.Return, ast.If, ast.Raise, ast.Break, ast.Continue, ast.While))
                           for b in s.body for n in ast.walk(b))
            v = self.const_eval(s.iter, env)
            names = [n.id for n in ast.walk(s.target) if isinstance(n, ast.Name)]
            if has_ctrl:
                # unroll over a constant iterable
                if v is UNKNOWN or not isinstance(s.target, ast.Name):
                    raise TranslationError("%s: loop with control flow over non-constant %s" % (self.cur, src(s.iter)))
                items = list(v)
                if len(items) > 16:
                    raise TranslationError("%s: loop too long to unroll" % self.cur)
                body = []
                for it in items:
                    body.append(ast.Assign(targets=[ast.Name(id=s.target.id, ctx=ast.Store())],
                                           value=ast.Constant(value=it), lineno=s.lineno))
                    body += s.body
                return self.chain(pre, lambda: self.block(body + rest, env, fall, ret, stack), stack)
            # straight-line body: collect its reads
            env_in = dict(env)
            for n in names:
                env_in[n] = UNKNOWN
            body_atoms = self.straight(s.body, env_in)
            env2 = dict(env)
            for n in names:
                env2[n] = UNKNOWN
            for b in s.body:
                for n in ast.walk(b):
                    if isinstance(n, (ast.Assign, ast.AugAssign)):
                        for t in (n.targets if isinstance(n, ast.Assign) else [n.target]):
                            for m in ast.walk(t):
                                if isinstance(m, ast.Name):
                                    env2[m.id] = UNKNOWN
            if not body_atoms:
                return self.chain(pre, lambda: after(env2), stack)
            cnt = self.iter_count(s.iter, env)
            return self.chain(pre + [("rep", cnt, body_atoms)], lambda: after(env2), stack)
        if isinstance(s, ast.Pass):
            return after(env)
        raise TranslationError("%s: unsupported statement %s at line %d" % (self.cur, type(s).__name__, s.lineno))

    def straight(self, stmts, env):
        """atoms of a loop body without control flow (nested loops become nested reps)"""
        out = []
        for s in stmts:
            if isinstance(s, ast.Expr):
                out += self.atoms(s.value, env)
            elif isinstance(s, ast.Assign):
                out += self.atoms(s.value, env)
                for t in s.targets:
                    if isinstance(t, ast.Subscript):
                        out += self.atoms(t.value, env) + self.atoms(t.slice, env)
            elif isinstance(s, ast.AugAssign):
                if isinstance(s.target, ast.Subscript):
                    out += self.atoms(s.target.slice, env)
                out += self.atoms(s.value, env)
            elif isinstance(s, ast.For):
                env_in = dict(env)
                for n in ast.walk(s.target):
                    if isinstance(n, ast.Name):
                        env_in[n.id] = UNKNOWN
                inner = self.straight(s.body, env_in)
                out += self.atoms(s.iter, env)
                if inner:
                    out.append(("rep", self.iter_count(s.iter, env), inner))
            elif isinstance(s, ast.Pass):
                pass
            else:
                raise TranslationError("%s: unsupported statement in loop body: %s" % (self.cur, type(s).__name__))
        return out

    def method_shape(self, name, bind):
        self.cur = name
        self.leaf = 0
        self.leaves = []

        def ret():
            i = self.leaf
            self.leaf += 1
            return ("ret", i)

        def fall(env):          # falling off the end: return None
            return ret()
        m = self.methods[name]
        env = dict(bind)
        for a in m.args.args[1:]:
            env.setdefault(a.arg, UNKNOWN)
        return self.block(m.body, env, fall, ret, (name,))


# ---------------------------------------------------------------------- analysis on shapes
def implied(g, b):
    """keys certainly present when guard g evaluates to b"""
    if g[0] == "pres":
        return [g[1]] if b else []
    if g[0] == "not":
        return implied(g[1], not b)
    if g[0] == "and":
        return implied(g[1], True) + implied(g[2], True) if b else []
    if g[0] == "or":
        return [] if b else implied(g[1], False) + implied(g[2], False)
    return []


def walk_shape(sh, G, on_read, on_peek):
    """mirror of Lean `shapeOK`: G = keys guaranteed present"""
    while True:
        if sh[0] in ("ret", "fail"):
            return
        if sh[0] == "read":
            k = sh[1]
            if k in G:
                on_read(k, True)
            else:
                on_read(k, False)
                G = [k]
            sh = sh[2]
        elif sh[0] == "peek":
            on_peek(sh[1], sh[1] in G)
            sh = sh[2]
        elif sh[0] == "rep":
            allg = all(k in G for k in sh[2])
            for k in sh[2]:
                on_read(k, allg)
            if not allg:
                G = []
            sh = sh[3]
        elif sh[0] == "test":
            walk_shape(sh[2], G + implied(sh[1], True), on_read, on_peek)
            walk_shape(sh[3], G + implied(sh[1], False), on_read, on_peek)
            return
        else:
            raise TranslationError("bad shape %r" % (sh[:1],))


def shape_stats(sh):
    n = {"nodes": 0, "leaves": 0, "tests": 0, "reads": 0, "peeks": 0, "fails": 0}

    def rec(s):
        n["nodes"] += 1
        if s[0] == "ret":
            n["leaves"] += 1
        elif s[0] == "fail":
            n["fails"] += 1
        elif s[0] == "read":
            n["reads"] += 1
            rec(s[2])
        elif s[0] == "peek":
            n["peeks"] += 1
            rec(s[2])
        elif s[0] == "rep":
            n["reads"] += len(s[2])
            rec(s[3])
        elif s[0] == "test":
            n["tests"] += 1
            rec(s[2])
            rec(s[3])
    rec(sh)
    return n


def paths(sh, pre=()):
    """all root-to-leaf paths as lists of events (for the harness: predicted child requests)"""
    if sh[0] == "ret":
        return [list(pre) + [("ret", sh[1])]]
    if sh[0] == "fail":
        return [list(pre) + [("fail",)]]
    if sh[0] == "read":
        return paths(sh[2], pre + (("read", sh[1]),))
    if sh[0] == "peek":
        return paths(sh[2], pre + (("peek", sh[1]),))
    if sh[0] == "rep":
        return paths(sh[3], pre + (("rep", sh[1], tuple(sh[2])),))
    if sh[0] == "test":
        return paths(sh[2], pre + (("assume", sh[1], True),)) + paths(sh[3], pre + (("assume", sh[1], False),))
    raise TranslationError("bad shape")


def analyse():
    """Returns dict with shapes, ranks, names...; raises TranslationError."""
    tr = Translator()
    shapes = {}
    for k in tr.keys:
        shapes[k] = tr.method_shape(k, {})
    helper_shapes = {}
    for h in tr.helpers:
        for spec in HELPER_SPECS[h]:
            nm = h + "".join("[%s=%r]" % kv for kv in sorted(spec.items()))
            helper_shapes[nm] = tr.method_shape(h, spec)
    # names: description keys first, then names read but never defined (input-only)
    names = list(tr.keys)
    extra = []

    def note(k, *_):
        if k not in shapes and k not in extra:
            extra.append(k)
    for sh in list(shapes.values()) + list(helper_shapes.values()):
        walk_shape(sh, [], note, note)

        def gk(g):
            if g[0] == "pres":
                note(g[1])
            elif g[0] in ("not",):
                gk(g[1])
            elif g[0] in ("and", "or"):
                gk(g[1])
                gk(g[2])

        def rec(s):
            if s[0] == "test":
                gk(s[1])
                rec(s[2])
                rec(s[3])
            elif s[0] in ("read", "peek"):
                rec(s[2])
            elif s[0] == "rep":
                rec(s[3])
        rec(sh)
    names += extra
    # dependency edges through not-guaranteed reads; unguarded peeks
    edges = {k: [] for k in shapes}
    bad_peeks = []
    for k, sh in shapes.items():
        walk_shape(sh, [], lambda r, g, k=k: (None if g or r in edges[k] else edges[k].append(r)),
                   lambda p, g, k=k: (None if g else bad_peeks.append((k, p))))
    # rank = longest chain; cycle detection
    rank, state, cycles = {}, {}, []

    def visit(k, stack):
        if k not in shapes:
            rank[k] = 0
            return 0
        if state.get(k) == 1:
            cycles.append(stack[stack.index(k):] + [k])
            return 0
        if state.get(k) == 2:
            return rank[k]
        state[k] = 1
        r = 0
        for d in edges[k]:
            r = max(r, visit(d, stack + [k]) + 1)
        state[k] = 2
        rank[k] = r
        return r
    import sys
    sys.setrecursionlimit(max(sys.getrecursionlimit(), 5000))
    for k in shapes:
        visit(k, [])
    for k in extra:
        rank.setdefault(k, 0)
    return {"tr": tr, "shapes": shapes, "helper_shapes": helper_shapes, "names": names, "extra": extra,
            "edges": edges, "rank": rank, "cycles": cycles, "bad_peeks": bad_peeks,
            "guards": {g: sorted(ms) for g, ms in tr.guards.items()}, "flags": sorted(tr.flags),
            "options": {k: sorted(v) for k, v in tr.options.items()}}


# ---------------------------------------------------------------------- Lean emission
def lean_str(s):
    return '"' + s.replace("\\", "\\\\").replace('"', '\\"') + '"'


def emit_guard(g, idx):
    if g[0] == "pres":
        return "(.pres %d)" % idx[g[1]]
    if g[0] == "flag":
        return "(.flag %s)" % lean_str(g[1])
    if g[0] == "not":
        return "(.not %s)" % emit_guard(g[1], idx)
    return "(.%s %s %s)" % (g[0], emit_guard(g[1], idx), emit_guard(g[2], idx))


def emit_shape(sh, idx):
    if sh[0] == "ret":
        return "(.ret %d)" % sh[1]
    if sh[0] == "fail":
        return ".fail"
    if sh[0] == "read":
        return "(.read %d %s)" % (idx[sh[1]], emit_shape(sh[2], idx))
    if sh[0] == "peek":
        return "(.peek %d %s)" % (idx[sh[1]], emit_shape(sh[2], idx))
    if sh[0] == "rep":
        c = "(.lit %d)" % sh[1][1] if sh[1][0] == "lit" else "(.opt %s)" % lean_str(sh[1][1])
        return "(.rep %s [%s] %s)" % (c, ", ".join(str(idx[k]) for k in sh[2]), emit_shape(sh[3], idx))
    if sh[0] == "test":
        return "(.test %s %s %s)" % (emit_guard(sh[1], idx), emit_shape(sh[2], idx), emit_shape(sh[3], idx))
    raise TranslationError("bad shape")


def generate():
    info = analyse()
    names, shapes, rank = info["names"], info["shapes"], info["rank"]
    idx = {k: i for i, k in enumerate(names)}
    out = ["-- GENERATED by tools/py2lean/depgraph.py from src/aurel/core.py and data/descriptions.yml — do not edit.",
           "import AurelVerif.Model.CacheGet",
           "namespace AurelVerif.Gen.DepGraph",
           "open AurelVerif.CacheGet", "",
           "/-- key names; a key is its index in this list.  The first `nKeys` are the description keys,",
           "the others are names that are read or tested but have no method (input-only). -/",
           "def names : List String := [%s]" % ", ".join(lean_str(n) for n in names),
           "def nKeys : Nat := %d" % len(shapes), "",
           "/-- rank certificate computed by the translator (longest chain of not-guaranteed reads) -/",
           "def ranks : List Nat := [%s]" % ", ".join(str(rank[n]) for n in names), ""]
    for k in names[:len(shapes)]:
        out.append("def sh_%d : Shape Nat := -- %s  (core.py:%d)" % (idx[k], k, info["tr"].methods[k].lineno))
        out.append("  " + emit_shape(shapes[k], idx))
    out.append("")
    out.append("/-- the definition table: key index ↦ shape of its method -/")
    out.append("def shapes : List (Nat × Shape Nat) := [%s]" % ", ".join("(%d, sh_%d)" % (idx[k], idx[k]) for k in shapes))
    out.append("")
    out.append("/-- shapes of the helper methods for each literal argument pattern (user-callable API) -/")
    out.append("def helperShapes : List (String × Shape Nat) := [")
    hs = info["helper_shapes"]
    out.append(",\n".join("  (%s, %s)" % (lean_str(n), emit_shape(s, idx)) for n, s in hs.items()))
    out.append("]")
    out.append("")
    out.append("/-- the presence / option guards found in the source, with the methods that test them;")
    out.append("each is a branch-coherence obligation (H2) assumed by Props/C01 and proven / validated elsewhere -/")
    out.append("def guards : List (String × List String) := [")
    out.append(",\n".join("  (%s, [%s])" % (lean_str(g), ", ".join(lean_str(m) for m in ms))
                          for g, ms in sorted(info["guards"].items())))
    out.append("]")
    out.append("")
    out.append("/-- value-dependent tests without cache reads (kept as opaque flags) -/")
    out.append("def opaqueFlags : List String := [%s]" % ", ".join(lean_str(f) for f in info["flags"]))
    out.append("")
    out.append("end AurelVerif.Gen.DepGraph")
    return "\n".join(out) + "\n", info


def regen():
    text, info = generate()
    path = os.path.join(fw.LEAN, "AurelVerif", "Gen", "DepGraph.lean")
    changed = fw.write_if_changed(path, text)
    return changed, info
