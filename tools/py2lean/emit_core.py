"""Emit Gen/CoreFormulas*.lean from the traced alternatives of coretrace."""
import os
from fractions import Fraction

import numpy as np

from lib import fw
from . import coretrace
from . import trace as T

NO_EMIT_PREFIX = ("tetrad_",)          # Gram-Schmidt: expression trees explode without sharing
HELPER_ARGS = {"f", "dtf", "a", "b", "weight", "Rssss", "Rssst", "Rstst"} | {"c%d" % i for i in range(10)}
SCALARS = ("kappa", "Lambda", "coord_x", "coord_y", "coord_z")


def fin_lit(i, n):
    return "(%d : Fin %d)" % (i, n)


class Printer:
    def __init__(self, shapes, argshapes, defname="", share=True):
        self.shapes = shapes
        self.argshapes = argshapes
        self.memo = {}
        self.defname = defname
        self.share = share
        self.shared = {}       # Expr -> aux name
        self.aux = []          # emitted aux defs (text), topological order
        self.callargs = "".join(" " + a for a in argshapes)

    def plan(self, roots):
        """Decide which sub-expressions become auxiliary definitions: used at
        least twice in this definition and not tiny."""
        if not self.share:
            return
        refs, size, order = {}, {}, []
        stack = [(r, False) for r in roots]
        for r in roots:
            refs[r] = refs.get(r, 0) + 1
        seen = set()
        while stack:
            x, ready = stack.pop()
            if ready:
                size[x] = 1 + sum(size[a] for a in x.args if isinstance(a, T.Expr))
                order.append(x)
                continue
            if x in seen:
                continue
            seen.add(x)
            stack.append((x, True))
            for a in x.args:
                if isinstance(a, T.Expr):
                    refs[a] = refs.get(a, 0) + 1
                    if a not in seen:
                        stack.append((a, False))
        k = 0
        for x in order:
            if refs.get(x, 0) >= 2 and size[x] >= 6 and x.op not in ("const", "sym"):
                self.shared[x] = "%s_s%d" % (self.defname, k)
                k += 1
        # emit aux defs in topological order (children first)
        for x in order:
            if x in self.shared:
                nm = self.shared.pop(x)      # print its own body un-shared
                body = self.p(x)
                self.memo.pop(x, None)
                self.shared[x] = nm
                self.aux.append((nm, body))
                self.memo[x] = "(%s e%s)" % (nm, self.callargs)

    def sym(self, base, idx):
        if base in SCALARS:
            return "e." + base
        if base in self.argshapes:
            shp = self.argshapes[base]
            return "(" + " ".join([base] + [fin_lit(i, n) for i, n in zip(idx, shp)]) + ")" if idx else base
        # tuple-valued key component  e.g. dtconserved_2
        shp = self.shapes.get(base)
        if shp is None and base.rsplit("_", 1)[0] in self.shapes and isinstance(self.shapes[base.rsplit("_", 1)[0]], list):
            shp = self.shapes[base.rsplit("_", 1)[0]][int(base.rsplit("_", 1)[1])]
        if shp is None:
            raise T.TraceError("unknown symbol " + base)
        if not idx:
            return "e." + base
        return "(" + " ".join(["e." + base] + [fin_lit(i, n) for i, n in zip(idx, shp)]) + ")"

    def const(self, fr):
        if fr.denominator == 1:
            return "(%d : K)" % fr.numerator if fr.numerator >= 0 else "(-(%d : K))" % -fr.numerator
        if fr.numerator >= 0:
            return "((%d : K) / %d)" % (fr.numerator, fr.denominator)
        return "(-((%d : K) / %d))" % (-fr.numerator, fr.denominator)

    def p(self, e):
        r = self.memo.get(e)
        if r is not None:
            return r
        if e in self.shared:
            r = "(%s e%s)" % (self.shared[e], self.callargs)
            self.memo[e] = r
            return r
        op = e.op
        if op == "const":
            r = self.const(e.args[0])
        elif op == "sym":
            r = self.sym(e.args[0], e.args[1])
        elif op in ("add", "sub", "mul", "div", "sdiv"):
            s = {"add": "+", "sub": "-", "mul": "*", "div": "/", "sdiv": "/"}[op]
            r = "(%s %s %s)" % (self.p(e.args[0]), s, self.p(e.args[1]))
        elif op == "neg":
            r = "(-%s)" % self.p(e.args[0])
        elif op == "pow":
            n = e.args[1]
            r = "(%s ^ (%d : Nat))" % (self.p(e.args[0]), n) if n >= 0 else "((%s ^ (%d : Nat))⁻¹)" % (self.p(e.args[0]), -n)
        elif op == "rpow":
            fr = e.args[1]
            r = "(e.rpowF %s (%d) %d)" % (self.p(e.args[0]), fr.numerator, fr.denominator)
        elif op == "fn":
            r = "(e.%sF %s)" % (e.args[0], self.p(e.args[1]))
        elif op == "D":
            r = "(e.D %s %s)" % (fin_lit(e.args[0], 3), self.p(e.args[1]))
        else:
            raise T.TraceError(op)
        self.memo[e] = r
        return r


def tensor_type(shape):
    return " → ".join(["Fin %d" % n for n in shape] + ["K"])


def vec(comps, pr):
    if not isinstance(comps, np.ndarray):
        return pr.p(comps)
    n = comps.shape[0]
    if n not in (3, 4):
        raise T.TraceError("tensor dimension %d" % n)
    if comps.ndim == 1:
        return "(vec%d " % n + " ".join(pr.p(c) for c in comps) + ")"
    return "(vec%d\n  " % n + "\n  ".join(vec(c, pr) for c in comps) + ")"


def alt_suffix(a, n_alts):
    if n_alts == 1:
        return ""
    s = "__" + ("_and_".join(a["present_sets"][0]) if a["present_sets"][0] else "dflt")
    if a["vacuum"] is not None:
        s += "_vacuum" if a["vacuum"] else "_matter"
    return s


def arg_shapes_of(a):
    """helper argument symbols occurring in the alternative -> shapes (from indices seen)."""
    shp = {}
    comps = a["comps"]
    seen = set()
    stack = list(np.ravel(comps)) if isinstance(comps, np.ndarray) else [comps]
    while stack:
        x = stack.pop()
        if id(x) in seen:
            continue
        seen.add(id(x))
        if x.op == "sym" and x.args[0] in HELPER_ARGS:
            shp.setdefault(x.args[0], set()).add(x.args[1])
        for y in x.args:
            if isinstance(y, T.Expr):
                stack.append(y)
    return shp


HELPER_SIG = {  # declared argument shapes of helper calls (dimension from the call pattern)
}


def helper_arg_shapes(name):
    coretrace.register_helpers()
    if name not in dict(coretrace.HELPERS):
        return {}
    d3 = {"": (), "scalar": (), "u": (3,), "d": (3,), "uu": (3, 3), "dd": (3, 3), "ud": (3, 3), "du": (3, 3)}
    if name.startswith("s_covd_") or name.startswith("s_div_"):
        return {"f": d3[name.split("_")[-1]]}
    if name.startswith("st_covd_"):
        k = name.split("_")[-1]
        shp = () if k == "scalar" else (4,)
        return {"f": shp, "dtf": shp}
    if name == "s_curl_dd":
        return {"f": (3, 3)}
    if name.startswith("Lie_beta_"):
        w = name.startswith("Lie_beta_w_")
        ix = name[len("Lie_beta_w_" if w else "Lie_beta_"):]
        if ix == "scalar":
            shp = ()
        else:
            dim = 4 if ix.startswith("st_") else 3
            shp = (dim,) * len(ix.split("_")[1])
        d = {"f": shp}
        if w:
            d["weight"] = ()
        return d
    if name in ("s_to_st", "trace3", "tracefree3", "magnitude3"):
        return {"f": (3, 3)}
    if name in ("trace4", "magnitude4"):
        return {"f": (4, 4)}
    if name in ("vector_inner_product3", "vector_inner_product4"):
        return {"a": (int(name[-1]),), "b": (int(name[-1]),)}
    if name in ("norm3", "norm4"):
        return {"a": (int(name[-1]),)}
    if name in ("maths_determinant3", "maths_inverse3"):
        return {"f": (3, 3)}
    if name in ("maths_determinant4", "maths_inverse4", "maths_symmetrise_tensor", "maths_antisymmetrise_tensor"):
        return {"f": (4, 4)}
    if name == "maths_format_rank2_3":
        return {"c%d" % i: () for i in range(6)}
    if name == "maths_format_rank2_4":
        return {"c%d" % i: () for i in range(10)}
    if name == "maths_populate_4Riemann":
        return {"Rssss": (3, 3, 3, 3), "Rssst": (3, 3, 3), "Rstst": (3, 3)}
    return {}


HEADER = """-- GENERATED by tools/py2lean (symbolic execution of src/aurel/core.py, maths.py) — do not edit.
import Mathlib.Algebra.Field.Defs
import AurelVerif.Model.Tensor
set_option linter.unusedVariables false
set_option maxRecDepth 100000
set_option linter.style.nameCheck false
namespace AurelVerif.Gen.Core
open AurelVerif.Tensor
"""


def env_structure(shapes):
    out = ["/-- One point of the grid: every description key the code can look up is a field",
           "(a value of `K`, or a tensor `Fin d → … → K`); `D` is the abstract finite-difference",
           "operator along each axis; sqrt/log/exp/abs/fractional powers are opaque symbols. -/",
           "structure Env (K : Type) where",
           "  kappa : K", "  Lambda : K", "  coord_x : K", "  coord_y : K", "  coord_z : K",
           "  D : Fin 3 → K → K",
           "  sqrtF : K → K", "  logF : K → K", "  expF : K → K", "  absF : K → K",
           "  rpowF : K → Int → Nat → K"]
    for k in sorted(shapes):
        shp = shapes[k]
        if isinstance(shp, list):
            for i, s in enumerate(shp):
                out.append("  %s_%d : %s" % (k, i, tensor_type(s)))
        else:
            out.append("  %s : %s" % (k, tensor_type(shp)))
    # an all-zero environment to build concrete (non-vacuity) instances from
    out.append("")
    out.append("/-- the environment with every entry 0 (for building concrete instances with `{ Env.zero with … }`). -/")
    out.append("def Env.zero {K : Type} [Field K] : Env K where")
    for nm in ("kappa", "Lambda", "coord_x", "coord_y", "coord_z"):
        out.append("  %s := 0" % nm)
    out.append("  D := fun _ _ => 0")
    for nm in ("sqrtF", "logF", "expF", "absF"):
        out.append("  %s := fun x => x" % nm)
    out.append("  rpowF := fun x _ _ => x")
    for k in sorted(shapes):
        shp = shapes[k]
        for nm, s_ in ([("%s_%d" % (k, i), s_) for i, s_ in enumerate(shp)] if isinstance(shp, list) else [(k, shp)]):
            out.append("  %s := %s0" % (nm, "fun " + " ".join("_" for _ in s_) + " => " if s_ else ""))
    return "\n".join(out) + "\n"


def generate(results, shapes, split=None):
    """Returns {filename: text}, index (list of dict describing each emitted def)."""
    files = {}
    index = []
    body_by_group = {}
    for name in results:
        if name.startswith(NO_EMIT_PREFIX):
            continue
        alts = results[name]
        for a in alts:
            argsh = helper_arg_shapes(name)
            dn = name + alt_suffix(a, len(alts))
            pr = Printer(shapes, argsh, defname=dn)
            args = "".join(" (%s : %s)" % (an, tensor_type(s)) for an, s in argsh.items())
            try:
                roots = list(np.ravel(a["comps"])) if isinstance(a["comps"], np.ndarray) else [a["comps"]]
                pr.plan(roots)
                term = vec(a["comps"], pr)
            except T.TraceError as ex:
                index.append({"name": dn, "key": name, "status": "not emitted: %s" % ex})
                continue
            ty = tensor_type(a["shape"])
            auxtxt = "".join("@[core_unfold] def %s {K : Type} [Field K] (e : Env K)%s : K :=\n  %s\n" % (nm, args, body)
                             for nm, body in pr.aux)
            txt = auxtxt + ("/-- `%s`%s%s; looks up: %s -/\n@[core_unfold] def %s {K : Type} [Field K] (e : Env K)%s : %s :=\n  %s\n"
                   % (name,
                      " when " + " / ".join("{" + ", ".join(p) + "} present" for p in a["present_sets"]) if len(alts) > 1 else "",
                      "" if a["vacuum"] is None else (", vacuum = %s" % a["vacuum"]),
                      ", ".join(a["deps"]) or "nothing", dn, args, ty, term))
            grp = group_of(name)
            body_by_group.setdefault(grp, []).append(txt)
            index.append({"name": dn, "key": name, "status": "ok", "group": grp, "shape": list(a["shape"]),
                          "present_sets": a["present_sets"], "vacuum": a["vacuum"], "deps": a["deps"],
                          "guard_keys": a["guard_keys"], "size": len(term) + len(auxtxt),
                          "aux": [nm for nm, _ in pr.aux]})
    files["Env.lean"] = HEADER + "\n" + env_structure(shapes) + "\nend AurelVerif.Gen.Core\n"
    for grp, parts in body_by_group.items():
        files["Core%s.lean" % grp] = (HEADER.replace("import Mathlib.Algebra.Field.Defs", "import AurelVerif.Gen.Env\nimport Mathlib.Algebra.Field.Defs")
                                      + "\nvariable {K : Type}\n\n" + "\n".join(parts) + "\nend AurelVerif.Gen.Core\n")
    return files, index


BIG = {"st_Riemann_down4", "st_Riemann_uudd4", "st_Riemann_uddd4", "st_Weyl_down4", "bweyl_u_down4", "eweyl_u_down4",
       "Kretschmann", "maths_populate_4Riemann"}
CURV3 = {"s_Gamma_udd3", "s_Riemann_uddd3", "s_Riemann_down3", "s_Ricci_down3", "s_RicciS", "s_Gamma_udd3_bssnok",
         "s_Gamma_bssnok", "dts_Gamma_bssnok", "s_Ricci_down3_bssnok", "s_RicciS_bssnok", "s_Ricci_down3_phi",
         "bweyl_n_down3", "eweyl_n_down3", "Momentum_Escale", "s_curl_dd", "st_Gamma_udd4"}


def group_of(name):
    coretrace.register_helpers()
    if name not in dict(coretrace.HELPERS) and name not in BIG and name not in CURV3:
        return "Keys"
    if name in BIG:
        return "Big_" + name
    if name in CURV3:
        return "Curv"
    if name.startswith(("s_covd", "st_covd", "s_div", "Lie_beta", "s_to_st", "trace", "magnitude", "vector_inner",
                        "norm", "levicivita", "kronecker", "maths_", "dtconserved")):
        return "Helpers"
    return "Keys"


QHEADER = """-- GENERATED by tools/py2lean/emit_core.py — the SAME definition bodies as Gen/%s.lean,
-- specialised to core `Rat` (no Mathlib) so that they can be executed: printer validation. Do not edit.
%s
set_option linter.unusedVariables false
set_option maxRecDepth 100000
namespace AurelVerif.Gen.CoreQ
open AurelVerif.Tensor
%s
"""


def q_rendering(fn, text):
    """Gen/Q<fn>: identical definition bodies, `[Field K]` binder dropped, K := Rat."""
    body = text.split("namespace AurelVerif.Gen.Core\nopen AurelVerif.Tensor\n", 1)[1]
    body = body.rsplit("end AurelVerif.Gen.Core", 1)[0]
    body = body.replace("\nvariable {K : Type}\n", "\n")
    if fn == "Env.lean":
        body = body.split("/-- the environment with every entry 0", 1)[0]
        imports = "import AurelVerif.Model.TensorDefs"
    else:
        imports = "import AurelVerif.Gen.QEnv"
    n_defs = body.count("{K : Type} [Field K] ")
    body = body.replace("{K : Type} [Field K] ", "").replace("@[core_unfold] ", "")
    return QHEADER % (fn[:-5], imports, "abbrev K := Rat" if fn == "Env.lean" else "") + body + "\nend AurelVerif.Gen.CoreQ\n", n_defs


def q_env(shapes):
    """Executable stand-in for `Env`: one array field plus accessor functions with the
    field names (a Lean 4.33 runtime limit crashes on constructors with > 126 fields),
    so `e.gammaup3 i j` in the definition bodies resolves unchanged."""
    lay, n = env_layout(shapes)
    out = [QHEADER % ("Env", "import AurelVerif.Model.TensorDefs", "abbrev K := Rat"),
           "structure Env (K : Type) where", "  arr : Array Rat", ""]
    for nm, (off, shp) in lay.items():
        ty = " → ".join(["Fin %d" % k for k in shp] + ["Rat"])
        out.append("def Env.%s (e : Env K) : %s := %s" % (nm, ty, _acc(off, shp, "e.arr")))
    out += ["def Env.D (e : Env K) (i : Fin 3) (x : Rat) : Rat := ((i.val : Nat) : Rat) * x + 2 * x",
            "def Env.sqrtF (e : Env K) (x : Rat) : Rat := x * x + 1",
            "def Env.logF (e : Env K) (x : Rat) : Rat := x + 3",
            "def Env.expF (e : Env K) (x : Rat) : Rat := 2 * x - 1",
            "def Env.absF (e : Env K) (x : Rat) : Rat := x * x",
            "def Env.rpowF (e : Env K) (x : Rat) (n : Int) (d : Nat) : Rat := x * ((n : Rat) / (d : Rat)) + 1",
            "", "end AurelVerif.Gen.CoreQ", ""]
    return "\n".join(out)


ARG_ORDER = ["f", "dtf", "a", "b", "weight", "Rssss", "Rssst", "Rstst"] + ["c%d" % i for i in range(10)]
ARG_STRIDE = 256


def env_layout(shapes):
    """flat input layout of an Env: name -> (offset, shape)."""
    lay, off = {}, 0
    for nm in SCALARS:
        lay[nm] = (off, ())
        off += 1
    for k in sorted(shapes):
        shp = shapes[k]
        for nm, s_ in ([("%s_%d" % (k, i), s_) for i, s_ in enumerate(shp)] if isinstance(shp, list) else [(k, shp)]):
            lay[nm] = (off, tuple(s_))
            off += int(np.prod(s_)) if s_ else 1
    return lay, off


def _acc(off, shape, arr="a"):
    if not shape:
        return "%s[%d]!" % (arr, off)
    names = ["i%d" % k for k in range(len(shape))]
    idx, stride = [], 1
    for k in reversed(range(len(shape))):
        idx.append("%s.val * %d" % (names[k], stride))
        stride *= shape[k]
    return "fun %s => %s[%d + %s]!" % (" ".join(names), arr, off, " + ".join(reversed(idx)))


def generate_eval(index, shapes, gen_modules):
    """Gen/CoreEval.lean: evaluates every emitted definition over ℚ on a flat
    input array (printer validation; D and the opaque functions are fixed
    stand-ins that the Python side mirrors)."""
    lay, n = env_layout(shapes)
    out = ["-- GENERATED by tools/py2lean/emit_core.py — evaluation harness for printer validation. Do not edit."]
    out += ["import AurelVerif.Gen.Q%s" % m for m in gen_modules]
    out += ["set_option maxRecDepth 100000", "set_option linter.unusedVariables false", "namespace AurelVerif.Gen.CoreEval",
            "open AurelVerif.Gen.CoreQ AurelVerif.Tensor", "local notation \"ℚ\" => Rat", "",
            "def mkEnv (a : Array ℚ) : Env ℚ := { arr := a }", ""]
    evs = []
    for k, i in enumerate(x for x in index if x["status"] == "ok"):
        argsh = helper_arg_shapes(i["key"])
        args = ""
        for an, shp in argsh.items():
            args += " (%s)" % _acc(ARG_ORDER.index(an) * ARG_STRIDE, tuple(shp), "g")
        comps = []
        for idx in np.ndindex(*i["shape"]) if i["shape"] else [()]:
            comps.append("%s e%s %s" % (i["name"], args, " ".join(fin_lit(kk, n_) for kk, n_ in zip(idx, i["shape"]))))
        # chunks of 64 components keep each definition cheap to elaborate
        parts = []
        for c0 in range(0, len(comps), 64):
            nm = "ev%d_%d" % (k, c0 // 64)
            out.append("def %s (e : Env ℚ) (g : Array ℚ) : List ℚ := [%s]" % (nm, ", ".join(comps[c0:c0 + 64])))
            parts.append("%s e g" % nm)
        evs.append('("%s", %s)' % (i["name"], " ++ ".join(parts)))
    out.append("")
    out.append("def evalAll (a g : Array ℚ) : List (String × List ℚ) :=")
    out.append("  let e := mkEnv a")
    for c0 in range(0, len(evs), 40):
        out.append("  let l%d : List (String × List ℚ) := [%s]" % (c0 // 40, ", ".join(evs[c0:c0 + 40])))
    out.append("  " + " ++ ".join("l%d" % (c0 // 40) for c0 in range(0, len(evs), 40)))
    out += ["", "def parseRat (s : String) : ℚ :=",
            "  match s.splitOn \"/\" with",
            "  | [n, d] => (n.toInt?.getD 0 : ℚ) / (d.toInt?.getD 1 : ℚ)",
            "  | [n] => (n.toInt?.getD 0 : ℚ)",
            "  | _ => 0", "",
            "def showRat (q : ℚ) : String := s!\"{q.num}/{q.den}\"", "",
            "end AurelVerif.Gen.CoreEval", "", "open AurelVerif.Gen.CoreEval in",
            "def main : IO Unit := do",
            "  let h ← IO.getStdin",
            "  let l1 ← h.getLine",
            "  let l2 ← h.getLine",
            "  let a := ((l1.trimAscii.toString.splitOn \" \").map parseRat).toArray",
            "  let g := ((l2.trimAscii.toString.splitOn \" \").map parseRat).toArray",
            "  for (nm, vs) in evalAll a g do",
            "    IO.println (nm ++ \" \" ++ \" \".intercalate (vs.map showRat))",
            "  IO.println \"END\"",
            "  (← IO.getStdout).flush"]
    return "\n".join(out) + "\n"


def regen():
    results, failures, shapes = coretrace.trace_all()
    files, index = generate(results, shapes)
    mods = sorted(fn[:-5] for fn in files if fn != "Env.lean")
    for fn in list(files):
        if fn == "Env.lean":
            files["QEnv.lean"] = q_env(shapes)
        else:
            files["Q" + fn], _n = q_rendering(fn, files[fn])
    files["CoreEval.lean"] = generate_eval(index, shapes, mods)
    gen_dir = os.path.join(fw.LEAN, "AurelVerif", "Gen")
    changed = []
    for fn, text in files.items():
        if fw.write_if_changed(os.path.join(gen_dir, fn), text):
            changed.append(fn)
    return results, failures, shapes, index, changed
