"""C02: construct tests of the alias-IR translator (tools/py2lean/aliasir.py).

A table of small Python functions, one per way in which Python / numpy code can change an argument in
place or hand out a reference to it: augmented assignment, `out=` / positional out / `overwrite_input=`,
in-place ndarray methods, writes through views (slices, `.T`, `reshape`, `np.asarray`, `np.flip`,
`x.conj()` of a real array ...), list and dict mutators, unbound builtin methods, nested containers,
element variables of simple local containers.  For every entry

  1. the function is RUN for real on fresh arguments; which argument objects (and nested objects) changed
     and which of them the result shares memory / identity with is observed (ground truth);
  2. the function is translated by the SAME translator that produces Gen/AliasIR.lean; the IR body is run
     in a Python port of the concrete semantics of Model/Heap.lean over every oracle; every object that really
     changed must have its version counter bumped by some run (arrays: `aver`, anything: `cver`), and everything
     the result really aliases must be reachable from the IR's return value;
  3. the entry's expected class (mutating / aliasing / pure) must agree with both, so the table also documents
     that the translator does not flag the non-mutating twin (`a = a + b`, `np.array(a)`, `sorted(l)` ...);
  4. the IR goes into Gen/AliasConstructs.lean as a one-function program with all flags set, and the KERNEL
     decides `aliasCheck = false` for every mutating entry and `= true` for every other one
     (Props/C02Constructs.lean).

An entry whose `refused` is set must make the translator raise TranslationError (closed world: a construct that
is not classified is not silently accepted).
"""
import os

import numpy as np

from lib import fw
from py2lean import aliasdiag, aliasir

# argument specs: A = 2-d float array (4, 3), V = 1-d float array (6,), W = 1-d float array (3,), C = 1-d complex array, L = list of ints,
# LA = list of arrays, LL = list of lists, D = dict str -> list, DA = dict str -> array, DLA = dict str -> list of arrays, N = number
M, AL, P, IMP = "mutating", "aliasing", "pure", "pure-but-flagged"
CONSTRUCTS = [
    # ---- augmented assignment on arrays
    ("iadd", "A A", "a += b\nreturn None", M),
    ("imul", "A A", "a *= b\nreturn None", M),
    ("imatmul_like", "A N", "a /= b\nreturn None", M),
    ("rebind_add", "A A", "a = a + b\nreturn a", P),
    ("alias_then_iadd", "A A", "c = a\nc += b\nreturn None", M),
    ("cond_alias_iadd", "A A N", "d = a if c else b\nd -= 1\nreturn None", M),
    ("tuple_swap_iadd", "A A", "x, y = b, a\ny += 1\nreturn None", M),
    ("subscript_assign", "A A", "a[0] = b[1]\nreturn None", M),
    ("ellipsis_assign", "A A", "a[...] = a + b\nreturn None", M),
    ("subscript_iadd", "A A", "a[1, 2] += 5.0\nreturn None", M),
    # ---- out= / positional out / overwrite_input / in-place numpy functions
    ("out_kw", "A A", "np.add(a, b, out=a)\nreturn None", M),
    ("out_kw_returned", "A A", "c = np.multiply(a, b, out=b)\nreturn c", M),
    ("out_kw_tuple", "A", "np.sqrt(a, out=(a,))\nreturn None", M),
    ("out_positional_ufunc", "A", "np.sqrt(a, a)\nreturn None", M),
    ("out_positional_binary", "A A", "np.maximum(a, b, b)\nreturn None", M),
    ("out_positional_reduce", "A W", "np.sum(a, 0, None, b)\nreturn None", M),
    ("out_none", "A A", "c = np.add(a, b, out=None)\nreturn c", P),
    ("einsum_out", "A A", "np.einsum('ij,ij->ij', a, b, out=a)\nreturn None", M),
    ("einsum_contract", "A A", "c = np.einsum('ij,kj->ik', a, b)\nreturn c", P),
    ("einsum_view", "A", "c = np.einsum('ij->ji', a)\nreturn c", AL),
    ("einsum_view_write", "A", "c = np.einsum('ij->ji', a)\nc[0, 0] = 7.0\nreturn None", M),
    ("clip_out", "A", "np.clip(a, 0.0, 1.0, out=a)\nreturn None", M),
    ("method_out", "A W", "a.sum(axis=0, out=b)\nreturn None", M),
    ("method_clip_out", "A", "a.clip(0.0, 1.0, out=a)\nreturn None", M),
    ("percentile_overwrite", "A", "q = np.percentile(a, 25, overwrite_input=True)\nreturn q", M),
    ("median_overwrite", "A", "q = np.median(a, overwrite_input=True)\nreturn q", M),
    ("percentile_overwrite_positional", "A", "q = np.percentile(a, 25, None, None, True)\nreturn q", M),
    ("percentile_plain", "A", "q = np.percentile(a, 25)\nreturn q", P),
    ("percentile_overwrite_false", "A", "q = np.percentile(a, 25, overwrite_input=False)\nreturn q", P),
    ("percentile_of_abs_overwrite", "A", "q = np.percentile(np.abs(a), 25, overwrite_input=True)\nreturn q", P),
    ("np_copyto", "A A", "np.copyto(a, b)\nreturn None", M),
    ("np_put", "V", "np.put(a, [0, 1], [9.0, 8.0])\nreturn None", M),
    ("np_place", "V", "np.place(a, a > 0, 0.0)\nreturn None", M),
    ("np_fill_diagonal", "A", "np.fill_diagonal(a, 0.0)\nreturn None", M),
    ("np_partition_copy", "V", "c = np.partition(a, 2)\nreturn c", P),
    ("np_sort_copy", "V", "c = np.sort(a)\nreturn c", P),
    # ---- in-place ndarray methods
    ("method_sort", "V", "a.sort()\nreturn None", M),
    ("method_partition", "V", "a.partition(2)\nreturn None", M),
    ("method_fill", "A", "a.fill(0.0)\nreturn None", M),
    ("method_put", "V", "a.put([0], [5.0])\nreturn None", M),
    ("method_resize", "V", "a.resize((3,), refcheck=False)\nreturn None", M),
    ("method_setflags", "V", "a.setflags(write=False)\nreturn None", M),
    ("method_byteswap_inplace", "V", "a.byteswap(True)\nreturn None", M),
    ("dunder_iadd", "A A", "a.__iadd__(b)\nreturn None", M),
    ("dunder_setitem", "V", "a.__setitem__(0, 3.0)\nreturn None", M),
    # ---- writes through views
    ("slice_view_write", "V", "b = a[1:]\nb[...] = 0.0\nreturn None", M),
    ("slice_view_returned", "V", "b = a[1:]\nreturn b", AL),
    ("T_write", "A", "b = a.T\nb[0, 0] = 3.0\nreturn None", M),
    ("T_returned", "A", "return a.T", AL),
    ("reshape_write", "A", "b = a.reshape(-1)\nb[0] = 3.0\nreturn None", M),
    ("np_reshape_write", "A", "b = np.reshape(a, (-1,))\nb[0] = 3.0\nreturn None", M),
    ("ravel_write", "A", "b = a.ravel()\nb[0] = 3.0\nreturn None", M),
    ("flatten_write", "A", "b = a.flatten()\nb[0] = 3.0\nreturn b", P),
    ("asarray_write", "A", "b = np.asarray(a)\nb[0, 0] = 3.0\nreturn None", M),
    ("asarray_returned", "A", "return np.asarray(a)", AL),
    ("array_copy_write", "A", "b = np.array(a)\nb[0, 0] = 3.0\nreturn b", P),
    ("array_copy_false", "A", "b = np.array(a, copy=False)\nb[0, 0] = 3.0\nreturn None", M),
    ("copy_method_write", "A", "b = a.copy()\nb += 1\nreturn b", P),
    ("np_copy_write", "A", "b = np.copy(a)\nb += 1\nreturn b", P),
    ("flip_write", "V", "b = np.flip(a)\nb[0] = 3.0\nreturn None", M),
    ("flip_returned", "V", "return np.flip(a)", AL),
    ("conj_method_real", "V", "b = a.conj()\nb[0] = 3.0\nreturn None", M),
    ("np_conj_copy", "V", "b = np.conj(a)\nb[0] = 3.0\nreturn b", P),
    ("real_attr_write", "C", "b = a.real\nb[0] = 3.0\nreturn None", M),
    ("np_real_write", "C", "b = np.real(a)\nb[0] = 3.0\nreturn None", M),
    ("flat_write", "A", "a.flat[0] = 3.0\nreturn None", M),
    ("transpose_fn_write", "A", "b = np.transpose(a)\nb[0, 0] = 3.0\nreturn None", M),
    ("squeeze_swapaxes_write", "A", "b = np.swapaxes(np.squeeze(a), 0, 1)\nb[0, 0] = 3.0\nreturn None", M),
    ("astype_copy_false", "A", "b = a.astype(float, copy=False)\nb[0, 0] = 3.0\nreturn None", M),
    ("astype_copy", "A", "b = a.astype(float)\nb[0, 0] = 3.0\nreturn b", P),
    ("view_method_write", "A", "b = a.view()\nb[0, 0] = 3.0\nreturn None", M),
    ("row_iteration_write", "A", "for row in a:\n    row[...] = 0.0\nreturn None", M),
    ("chained_views_write", "A", "a.reshape(-1).T[0:4][1:][0] = 3.0\nreturn None", M),
    ("reshape_of_transpose_copies", "A", "b = a.T.reshape(-1)\nb[0] = 3.0\nreturn b", IMP),
    ("arithmetic_result_write", "A A", "c = a * b\nc[0, 0] = 3.0\nreturn c", P),
    ("where_result", "A A", "c = np.where(a > 0, a, b)\nreturn c", P),
    # ---- lists
    ("list_sort", "L", "a.sort()\nreturn None", M),
    ("list_sorted", "L", "b = sorted(a)\nreturn b", P),
    ("list_append", "L", "a.append(1)\nreturn None", M),
    ("list_extend", "L L", "a.extend(b)\nreturn None", M),
    ("list_pop", "L", "a.pop()\nreturn None", M),
    ("list_remove", "L", "a.remove(a[0])\nreturn None", M),
    ("list_insert", "L", "a.insert(0, 5)\nreturn None", M),
    ("list_iadd", "L", "a += ['t']\nreturn None", M),
    ("list_add_rebind", "L", "a = a + ['t']\nreturn a", P),
    ("list_imul", "L", "a *= 2\nreturn None", M),
    ("list_setitem", "L", "a[0] = 7\nreturn None", M),
    ("list_slice_assign", "L", "a[:] = [1, 2]\nreturn None", M),
    ("list_delitem", "L", "del a[0]\nreturn None", M),
    ("list_clear", "L", "a.clear()\nreturn None", M),
    ("list_reverse", "L", "a.reverse()\nreturn None", M),
    ("list_copy_append", "L", "b = list(a)\nb.append(1)\nreturn b", P),
    ("list_slice_copy_append", "L", "b = a[:]\nb += [1]\nreturn b", IMP),   # a list slice is modelled as a view
    ("list_unbound_sort", "L", "list.sort(a)\nreturn None", M),
    ("list_unbound_append", "L", "list.append(a, 3)\nreturn None", M),
    ("list_returned", "L", "return a", AL),
    # ---- dicts
    ("dict_setitem", "D", "a['new'] = [1]\nreturn None", M),
    ("dict_update", "D D", "a.update(b)\nreturn None", M),
    ("dict_pop", "D", "a.pop('k0')\nreturn None", M),
    ("dict_setdefault", "D", "a.setdefault('zz', [])\nreturn None", M),
    ("dict_delitem", "D", "del a['k0']\nreturn None", M),
    ("dict_popitem", "D", "a.popitem()\nreturn None", M),
    ("dict_clear", "D", "a.clear()\nreturn None", M),
    ("dict_ior", "D D", "a |= b\nreturn None", M),
    ("dict_unbound_update", "D D", "dict.update(a, b)\nreturn None", M),
    ("dict_copy_setitem", "D", "b = dict(a)\nb['new'] = [1]\nreturn None", P),
    ("dict_display_spread", "D", "b = {**a, 'new': [1]}\nb['k0'] = []\nreturn None", P),
    ("dict_nested_append", "D", "a['k0'].append(1)\nreturn None", M),
    ("dict_nested_via_copy", "D", "b = dict(a)\nb['k0'].append(1)\nreturn None", M),
    ("dict_values_iter_append", "D", "for v in a.values():\n    v.append(1)\nreturn None", M),
    ("dict_items_iter_append", "D", "for k, v in a.items():\n    v += [1]\nreturn None", M),
    ("dict_get_append", "D", "a.get('k0', []).append(1)\nreturn None", M),
    ("dict_array_elem_iadd", "DA", "a['k0'] += 1.0\nreturn None", M),
    ("dict_array_elem_rebind", "DA", "b = dict(a)\nb['k0'] = b['k0'] + 1.0\nreturn b", P),
    # ---- nested containers / element variables of simple locals
    ("local_group_of_callers", "DA", "g = {}\nfor k in a.keys():\n    g[k] = {0: a[k]}\nfor k in g.keys():\n    g[k][1] = 0\nreturn None", P),
    ("local_group_aliases_caller", "D", "g = {}\nfor k in a.keys():\n    g[k] = a[k]\nfor k in g.keys():\n    g[k].append(1)\nreturn None", M),
    ("local_list_of_callers_dicts", "D D", "l = [a]\nl += [b]\nl[0]['x'] = [1]\nreturn None", M),
    ("local_list_elem_write", "LA", "l = [x for x in a]\nl[0][...] = 0.0\nreturn None", M),
    ("local_list_of_copies_write", "LA", "l = [np.array(x) for x in a]\nl[0][...] = 0.0\nreturn l", P),
    ("local_sorted_copy_elem_append", "LL", "l = sorted(a)\nl[0].append(1)\nreturn None", M),
    ("local_dict_setdefault_caller", "L", "d = {}\nd.setdefault('k', a).append(1)\nreturn None", M),
    ("local_dict_setdefault_fresh", "L", "d = {}\nd.setdefault('k', []).append(a)\nreturn None", P),
    ("local_two_elements_interact", "L", "o1 = []\nx = [o1, a]\nx[0].append(x[1])\nx[0][0].append(5)\nreturn None", M),
    ("local_elem_extracted_then_mutated", "LL", "x = []\nx.append(a)\ne = x[0]\ne[0].append(1)\nreturn None", M),
    ("local_rebound_in_loop", "LL", "for i in range(2):\n    x = []\n    x.append(a[i])\n    x[0].append(1)\nreturn None", M),
    ("local_pop_elem", "LL", "x = list(a)\ne = x.pop()\ne.append(1)\nreturn None", M),
    ("simple_copy_then_elem", "L", "x = {}\nx['a'] = a\ny = x.copy()\ny['a'].append(1)\nreturn None", M),
    ("simple_slice_then_elem", "L", "x = [a]\ny = x[:]\ny[0].append(1)\nreturn None", M),
    ("simple_iadd_display", "L", "x = []\nx += [a]\nx[0].append(1)\nreturn None", M),
    ("simple_extend_display", "L", "x = []\nx.extend([a])\nx[0].append(1)\nreturn None", M),
    ("simple_extend_other", "LL", "x = []\nx.extend(a)\nx[0].append(1)\nreturn None", M),
    ("simple_insert", "L", "x = []\nx.insert(0, a)\nx[0].append(1)\nreturn None", M),
    ("simple_update_display", "L", "x = dict()\nx.update({'k': a})\nx['k'].append(1)\nreturn None", M),
    ("simple_update_kw", "L", "x = {}\nx.update(k=a)\nx['k'].append(1)\nreturn None", M),
    ("simple_comprehension_iter", "L", "x = [a]\n[e.append(1) for e in x]\nreturn None", M),
    ("simple_get", "L", "x = {'k': a}\nx.get('k').append(1)\nreturn None", M),
    ("simple_get_default", "L", "x = {}\nx.get('k', a).append(1)\nreturn None", M),
    ("simple_pop", "L", "x = {'k': a}\nx.pop('k').append(1)\nreturn None", M),
    ("simple_items_iter", "L", "x = {'k': a}\nfor k, v in x.items():\n    v.append(1)\nreturn None", M),
    ("simple_values_iter", "L", "x = {'k': a}\nfor v in x.values():\n    v.append(1)\nreturn None", M),
    ("simple_values_list", "L", "x = {'k': a}\nlist(x.values())[0].append(1)\nreturn None", M),
    ("simple_enumerate", "L", "x = [a]\nfor i, e in enumerate(x):\n    e.append(i)\nreturn None", M),
    ("simple_zip", "L L", "x = [a]\ny = [b]\nfor e, f in zip(x, y):\n    f.append(1)\nreturn None", M),
    ("simple_reversed_sorted_slice", "LL", "x = [a[0], a[1]]\nfor e in reversed(sorted(x[0:])):\n    e.append(1)\nreturn None", M),
    ("simple_nested_display", "L", "x = {'k': {'j': a}}\nx['k']['j'].append(1)\nreturn None", M),
    ("simple_tuple_element", "L", "x = [(a,)]\nx[0][0].append(1)\nreturn None", M),
    ("simple_elem_iadd_list", "L", "x = [a]\nx[0] += [1]\nreturn None", M),
    ("simple_elem_iadd_array", "V", "x = [a]\nx[0] += 1.0\nreturn None", M),
    ("simple_elem_moved", "L", "x = [a]\ny = []\ny.append(x[0])\ny[0].append(1)\nreturn None", M),
    ("simple_elem_of_elem", "LL", "x = [a]\nx[0][1].append(1)\nreturn None", M),
    ("simple_comprehension_of_params", "LL", "x = [e for e in a]\nx[2].append(1)\nreturn None", M),
    ("simple_dictcomp_of_params", "D", "x = {k: v for k, v in a.items()}\nx['k1'].append(1)\nreturn None", M),
    ("simple_dictcomp_fresh", "D", "x = {k: list(v) for k, v in a.items()}\nx['k1'].append(1)\nreturn x", P),
    ("simple_setdefault_chain", "DA", "x = {}\nfor k in a.keys():\n    x.setdefault(k, {})[0] = a[k]\nfor k in x.keys():\n    x[k][1] = None\nreturn None", P),
    ("simple_store_then_whole_alias", "L", "x = [[]]\nx[0] = a\nx[0].append(1)\nreturn None", M),
    ("simple_slice_store", "LL", "x = [[], []]\nx[0:2] = a\nx[1].append(1)\nreturn None", M),
    ("tuple_pack_elem_write", "V V", "t = (a, b)\nt[0][...] = 0.0\nreturn None", M),
    ("starred_display_elem", "LL", "x = [*a]\nx[0].append(1)\nreturn None", M),
    ("callers_list_in_local_dict_returned", "L", "x = {'k': a}\nreturn x", AL),
    ("del_param_then_rebuild", "D", "ks = list(a.keys())\ndel a\na = {k: [] for k in ks}\nfor k in ks:\n    a[k].append(1)\nreturn a", P),
    ("del_param_then_alias", "D D", "del a\na = b\na['x'] = [1]\nreturn None", M),
    ("list_of_arrays_elem_iadd", "LA", "a[0] += 1.0\nreturn None", M),
    ("list_of_arrays_stack", "LA", "c = np.array(a)\nc += 1.0\nreturn c", P),
    ("zip_transpose_dict", "DLA", "l = [dict(zip(a.keys(), v)) for v in zip(*a.values())]\nl[0]['n'] = 1\nreturn None", P),
    ("zip_transpose_elem_write", "DLA", "l = [dict(zip(a.keys(), v)) for v in zip(*a.values())]\nl[0]['k0'][...] = 0.0\nreturn None", M),
]
# constructs the translator must refuse (closed world)
REFUSED = [
    ("ufunc_at", "V", "np.add.at(a, [0], 1.0)\nreturn None"),
    ("shape_assign", "A", "a.shape = (12,)\nreturn None"),
    ("np_kwargs_spread", "A D", "np.add(a, a, **b)\nreturn None"),
    ("operator_iadd", "A A", "import operator\noperator.iadd(a, b)\nreturn None"),
    ("exec_string", "A", "exec('a += 1')\nreturn None"),
    ("unknown_np_function", "A", "np.nan_to_num(a, copy=False)\nreturn None"),
    ("unknown_method", "A", "a.__imul__(2.0)\nreturn None"),
    ("method_positional_out", "A W", "a.sum(0, None, b)\nreturn None"),
    ("walrus", "L", "(b := a).append(1)\nreturn None"),
    ("nested_def", "L", "def g():\n    a.append(1)\ng()\nreturn None"),
]


def make_arg(spec, seed):
    rng = np.random.RandomState(seed)
    if spec == "A":
        return rng.uniform(0.5, 2.0, size=(4, 3))
    if spec == "V":
        return rng.uniform(0.5, 2.0, size=(6,))
    if spec == "W":
        return rng.uniform(0.5, 2.0, size=(3,))
    if spec == "C":
        return rng.uniform(0.5, 2.0, size=(6,)) + 1j * rng.uniform(0.5, 2.0, size=(6,))
    if spec == "L":
        return [int(x) for x in rng.randint(0, 100, size=5)]
    if spec == "LA":
        return [rng.uniform(0.5, 2.0, size=(3,)) for _ in range(3)]
    if spec == "LL":
        return [[int(x) for x in rng.randint(0, 100, size=3)] for _ in range(3)]
    if spec == "D":
        return {"k%d" % i: [int(x) for x in rng.randint(0, 100, size=3)] for i in range(3)}
    if spec == "DA":
        return {"k%d" % i: rng.uniform(0.5, 2.0, size=(3,)) for i in range(3)}
    if spec == "DLA":
        return {"k%d" % i: [rng.uniform(0.5, 2.0, size=(2, 2)) for _ in range(3)] for i in range(2)}
    if spec == "N":
        return 2.0
    raise ValueError(spec)


def source_of(name, specs, body):
    params = ["a", "b", "c", "d"][:len(specs)]
    return "def %s(%s):\n%s\n" % (name, ", ".join(params), "\n".join("    " + l for l in body.split("\n")))


# ------------------------------------------------------------------ ground truth
def objects_of(args):
    """[(arg index, depth, object)] for the argument objects and the mutable objects inside them (two levels)"""
    out = []

    def walk(i, depth, a):
        if isinstance(a, (np.ndarray, list, dict)):
            out.append((i, depth, a))
            if depth < 2:
                inner = a.values() if isinstance(a, dict) else (a if isinstance(a, list) else [])
                for e in inner:
                    walk(i, depth + 1, e)
    for i, a in enumerate(args):
        walk(i, 0, a)
    return out


def state_of(o):
    if isinstance(o, np.ndarray):
        return ("arr", o.shape, o.dtype.str, o.tobytes(), o.flags.writeable)
    if isinstance(o, list):
        return ("list", [id(e) if isinstance(e, (np.ndarray, list, dict)) else repr(e) for e in o])
    if isinstance(o, dict):
        return ("dict", [(repr(k), id(v) if isinstance(v, (np.ndarray, list, dict)) else repr(v)) for k, v in o.items()])
    return ("val", repr(o))


def result_aliases(res, objs):
    """indices into objs of the objects the result is, contains or shares memory with"""
    hits = set()

    def walk(r, depth):
        for j, (_, _, o) in enumerate(objs):
            if r is o:
                hits.add(j)
            elif isinstance(r, np.ndarray) and isinstance(o, np.ndarray) and r.size and o.size and np.shares_memory(r, o):
                hits.add(j)
        if depth < 2:
            if isinstance(r, (list, tuple)):
                for e in r:
                    walk(e, depth + 1)
            elif isinstance(r, dict):
                for e in r.values():
                    walk(e, depth + 1)
    walk(res, 0)
    return hits


def ground_truth(name, specs, body):
    env = {"np": np}
    exec(compile(source_of(name, specs, body), "<construct %s>" % name, "exec"), env)
    args = [make_arg(s, 11 + 7 * i) for i, s in enumerate(specs)]
    objs = objects_of(args)
    before = [state_of(o) for _, _, o in objs]
    res = env[name](*args)
    changed = {j for j, (_, _, o) in enumerate(objs) if state_of(o) != before[j]}
    return objs, changed, result_aliases(res, objs)


# ------------------------------------------------------------------ translation
def translate(entries):
    """entries: [(name, specs, body)] -> {name: IR list} using the production translator on a synthetic module"""
    text = "import numpy as np\n\n" + "\n".join(source_of(n, s.split(), b) for n, s, b in entries)
    w = aliasir.load_world([("snip", text)])
    for fi in w.funcs.values():
        fi.retkind = None
    for _ in range(4):
        if not (aliasir.prepass_attrs(w) | aliasir.prepass_fparams(w)):
            break
    irs = {}
    for _ in range(4):
        changed = False
        for q, fi in w.funcs.items():
            irs[q] = aliasir.translate_function(w, fi)
            if fi.retkind_new != fi.retkind:
                fi.retkind, changed = fi.retkind_new, True
        if not changed:
            break
    return {q.split(".", 1)[1]: ir for q, ir in irs.items()}, w


def check_entry(name, specs, body, expect, ir):
    """-> list of problems (strings)"""
    problems = []
    objs, changed, aliased = ground_truth(name, specs, body)
    # roots: one per object of objs; parameter i: own = its root, reach = its root + roots of its inner objects
    params = []
    nargs = len(specs)
    for i in range(nargs):
        own = [j for j, (ai, d, _) in enumerate(objs) if ai == i and d == 0]
        reach = [j for j, (ai, d, _) in enumerate(objs) if ai == i]
        params.append((own, reach))
    ba, bc, ro, rr = aliasdiag.all_runs(ir, params, len(objs), max_bits=12)
    ba, bc = {r for r in ba if r < len(objs)}, {r for r in bc if r < len(objs)}    # pre-existing roots only
    for j in changed:
        _, _, o = objs[j]
        if isinstance(o, np.ndarray) and j not in ba:
            problems.append("array object #%d (arg %d, depth %d) really changed but no IR run bumps its aver"
                            % (j, objs[j][0], objs[j][1]))
        if j not in bc:
            problems.append("object #%d (arg %d, depth %d) really changed but no IR run bumps its cver"
                            % (j, objs[j][0], objs[j][1]))
    for j in aliased:
        if j not in rr:
            problems.append("result really aliases object #%d (arg %d) but the IR return value cannot reach it"
                            % (j, objs[j][0]))
    ir_mut = bool(bc)
    if expect == M and not changed:
        problems.append("table says mutating but the real run changed no argument object")
    if expect != M and changed:
        problems.append("table says %s but the real run changed an argument object" % expect)
    if expect in (M, IMP) and not ir_mut:
        problems.append("%s construct: no IR run bumps a pre-existing root" % expect)
    if expect in (AL, P) and ir_mut:
        problems.append("%s construct is flagged as mutating by the IR (precision)" % expect)
    if expect == AL and not aliased:
        problems.append("table says aliasing but the real result shares nothing with the arguments")
    if expect == AL and not rr:
        problems.append("aliasing construct: the IR return value reaches no argument")
    return problems


def lean_module(irs, names_m, names_o, names_i):
    fid = {}
    out = ["-- GENERATED by tools/py2lean/alias_constructs.py from its CONSTRUCTS table: the alias IR the production",
           "-- translator (tools/py2lean/aliasir.py) emits for one small Python function per construct, as a",
           "-- one-function program with every flag set (pub, cpub, strict).  Do not edit.",
           "import AurelVerif.Model.Heap", "namespace AurelVerif.Gen.AliasConstructs",
           "open AurelVerif.Heap AurelVerif.Heap.Stmt", "",
           "def blk : List Stmt → Stmt", "  | [] => skip", "  | [s] => s", "  | s :: l => seq s (blk l)", ""]
    for nm in names_m + names_o + names_i:
        out.append("def c_%s : Program := ⟨[⟨%s, true, true, true⟩], []⟩" % (nm, aliasir.lean_block(irs[nm], fid)))
    out += ["", "/-- constructs that really change an argument in place (observed on the real code) -/",
            "def mutating : List Program := [%s]" % ", ".join("c_" + n for n in names_m), "",
            "/-- their non-mutating twins and the aliasing-only constructs -/",
            "def harmless : List Program := [%s]" % ", ".join("c_" + n for n in names_o), "",
            "/-- really pure, but the model is deliberately coarser (a list slice / a reshape that happens to copy is a view) -/",
            "def conservative : List Program := [%s]" % ", ".join("c_" + n for n in names_i), "",
            "def mutatingNames : List String := [%s]" % ", ".join('"%s"' % n for n in names_m),
            "def harmlessNames : List String := [%s]" % ", ".join('"%s"' % n for n in names_o), "",
            "set_option maxRecDepth 100000 in",
            "theorem mutating_rejected : mutating.all (fun p => !aliasCheck p) = true := by decide +kernel", "",
            "set_option maxRecDepth 100000 in",
            "theorem harmless_accepted : harmless.all aliasCheck = true := by decide +kernel", "",
            "theorem conservative_rejected : conservative.all (fun p => !aliasCheck p) = true := by decide +kernel", "",
            "end AurelVerif.Gen.AliasConstructs", ""]
    return "\n".join(out)


def run():
    """-> dict(problems=[...], refused_ok=[...], refused_bad=[...], counts=..., lean_changed=bool)"""
    entries = [(n, s, b) for n, s, b, _ in CONSTRUCTS]
    irs, _ = translate(entries)
    problems = []
    for n, s, b, e in CONSTRUCTS:
        for p in check_entry(n, s.split(), b, e, irs[n]):
            problems.append("%s: %s" % (n, p))
    refused_ok, refused_bad = [], []
    for n, s, b in REFUSED:
        try:
            translate([(n, s, b)])
            refused_bad.append(n)
        except aliasir.TranslationError as ex:
            refused_ok.append((n, str(ex)[:100]))
        except SyntaxError:
            refused_bad.append(n + " (syntax)")
    names_m = [n for n, _, _, e in CONSTRUCTS if e == M]
    names_o = [n for n, _, _, e in CONSTRUCTS if e in (AL, P)]
    names_i = [n for n, _, _, e in CONSTRUCTS if e == IMP]
    path = os.path.join(fw.LEAN, "AurelVerif", "Gen", "AliasConstructs.lean")
    changed = fw.write_if_changed(path, lean_module(irs, names_m, names_o, names_i))
    return {"problems": problems, "refused_ok": refused_ok, "refused_bad": refused_bad,
            "counts": {"mutating": len(names_m), "aliasing": sum(1 for c in CONSTRUCTS if c[3] == AL),
                       "pure": sum(1 for c in CONSTRUCTS if c[3] == P), "pure-but-flagged": len(names_i),
                       "refused": len(REFUSED)},
            "lean_changed": changed}
