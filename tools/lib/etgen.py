"""etgen — generator of Carpet-style Einstein Toolkit output directories with
identity-encoded fields, and the ground truth for them.

A simulation is described by a plain (JSON-able) dict::

    {"name": str,
     "per_proc": bool,          # one file per process (x.file_<c>.h5) or one file
     "grouped": bool,           # one group per file (admbase-metric.h5) or one variable
     "m0": bool,                # dataset names carry ' m=0'
     "vars": [aurel scalar names written],
     "levels": [{"shape": [nx, ny, nz],      # interior grid of the level
                 "ghost": [gx, gy, gz],      # cctk_nghostzones (>= 1 for valid output)
                 "base":  [bx, by, bz],      # iorigin of the first chunk
                 "decomp": [[zl, [[yl, [xl, ...]], ...]], ...],   # hierarchical:
                      # z-slabs, each cut in y at its own positions, each strip
                      # cut in x at its own positions (all lengths > 0)
                 "order": [c of canonical chunk 0, c of chunk 1, ...]}, ...],
     "restarts": [{"number": r, "its": [iterations written],
                   # optional: this restart ran on another process count (as in
                   # aurel's own fixtures): its own cuts / file layout, same grids
                   "levels": [{"decomp": ..., "order": ...}, ...], "per_proc": bool,
                   # optional: a Carpet regrid inside this restart: from iteration `it` on the levels are
                   # cut differently (other number of components allowed in the one-file layouts; the
                   # dataset names ` c=<k>` and the iorigins follow; the grids themselves do not change)
                   "regrid": {"it": N, "levels": [{"decomp": ..., "order": ...}, ...]},
                   # optional: variables this restart did NOT output (their file / group file is absent)
                   "skip_vars": [aurel scalar names],
                   # optional: Carpet checkpoint files written by this restart
                   # (checkpoint.chkpt.it_<it>[.file_<c>].h5; all levels, all written
                   # variables, `ntl` time levels of which only tl=0 is the state)
                   "checkpoints": {"its": [...], "per_proc": bool, "ntl": 1..3,
                                   "extra": bool}}, ...],   # extra: unrelated datasets
     "par_in": r}               # restart directory that holds the .par file

Every interior value of every dataset is an exact integer-valued float that
encodes (variable, iteration, level, restart, x, y, z); ghost layers hold
distinct negative junk.  `Sim.truth(var, it, rl, restart)` is the array that a
correct reader returns, in (x, y, z) order.  Checkpoint files hold the same
fields with the restart digit shifted by `CHK` (so that data taken from a
checkpoint can be told from 3D output) and the time shifted by `CHK_TIME`.

The variable table below is written by hand from the Einstein Toolkit thorn
documentation, *not* read from aurel's var_mappings.yml: it is the independent
statement of what the names mean.
"""
import json
import os
import shutil

import h5py
import numpy as np

# aurel scalar name -> (THORN, ET variable, group file base name)
VARS = {}
for _c in ("xx", "xy", "xz", "yy", "yz", "zz"):
    VARS["g" + _c] = ("ADMBASE", "g" + _c, "admbase-metric")
    VARS["k" + _c] = ("ADMBASE", "k" + _c, "admbase-curv")
for _i, _c in enumerate("xyz"):
    VARS["beta" + _c] = ("ADMBASE", "beta" + _c, "admbase-shift")
    VARS["dtbeta" + _c] = ("ADMBASE", "dtbeta" + _c, "admbase-dtshift")
    VARS["vel" + _c] = ("HYDROBASE", "vel[%d]" % _i, "hydrobase-vel")
    VARS["Momentum" + _c] = ("ML_BSSN", "M%d" % (_i + 1), "ml_bssn-ml_mom")
VARS.update({
    "alpha": ("ADMBASE", "alp", "admbase-lapse"),
    "dtalpha": ("ADMBASE", "dtalp", "admbase-dtlapse"),
    "rho0": ("HYDROBASE", "rho", "hydrobase-rho"),
    "eps": ("HYDROBASE", "eps", "hydrobase-eps"),
    "press": ("HYDROBASE", "press", "hydrobase-press"),
    "w_lorentz": ("HYDROBASE", "w_lorentz", "hydrobase-w_lorentz"),
    "Ktrace": ("ML_BSSN", "trK", "ml_bssn-ml_trace_curv"),
    "Hamiltonian": ("ML_BSSN", "H", "ml_bssn-ml_ham"),
    "Weyl_Psi4r": ("WEYLSCAL4", "Psi4r", "weylscal4-psi4r_group"),
    "Weyl_Psi4i": ("WEYLSCAL4", "Psi4i", "weylscal4-psi4i_group"),
})
VAR_ID = {v: i + 1 for i, v in enumerate(sorted(VARS))}
ID_VAR = {i: v for v, i in VAR_ID.items()}
# aurel tensor name -> its scalar components, in aurel's documented order
TENSORS = {
    "gammadown3": ["gxx", "gxy", "gxz", "gyy", "gyz", "gzz"],
    "Kdown3": ["kxx", "kxy", "kxz", "kyy", "kyz", "kzz"],
    "betaup3": ["betax", "betay", "betaz"],
    "dtbetaup3": ["dtbetax", "dtbetay", "dtbetaz"],
    "velup3": ["velx", "vely", "velz"],
    "Momentumup3": ["Momentumx", "Momentumy", "Momentumz"],
    "Weyl_Psi": ["Weyl_Psi4r", "Weyl_Psi4i"],
}
GROUP_MEMBERS = {}
for _v, (_t, _e, _g) in VARS.items():
    GROUP_MEMBERS.setdefault(_g, []).append(_v)

NX = 64          # radix of the coordinates
NIT = 4096       # radix of the iteration
NR = 8           # radix of the restart number
NRL = 16         # radix of the refinement level
CHK = 4          # restart digit of checkpoint data = restart + CHK (restarts < 4)
CHK_TIME = 500.0


def components(name):
    """aurel request name -> scalar components"""
    return list(TENSORS.get(name, [name]))


def code(var, it, rl, restart, x, y, z):
    """identity of one grid value (exact in float64: < 2**44)"""
    return (((((VAR_ID[var] * NIT + it) * NRL + rl) * NR + restart) * NX + x) * NX + y) * NX + z


def decode(c):
    if c != int(c) or c < 0:
        return {"junk": float(c)}
    c = int(c)
    c, z = divmod(c, NX)
    c, y = divmod(c, NX)
    c, x = divmod(c, NX)
    c, restart = divmod(c, NR)
    c, rl = divmod(c, NRL)
    vid, it = divmod(c, NIT)
    return {"var": ID_VAR.get(vid, vid), "it": it, "rl": rl, "restart": restart, "x": x, "y": y, "z": z}


def canonical_chunks(decomp):
    """[(ox, oy, oz, xl, yl, zl)] in the canonical enumeration order
    (z-slab major, then y strip, then x piece)."""
    out = []
    oz = 0
    for zl, ys in decomp:
        oy = 0
        for yl, xs in ys:
            ox = 0
            for xl in xs:
                out.append((ox, oy, oz, xl, yl, zl))
                ox += xl
            oy += yl
        oz += zl
    return out


def decomp_str(decomp):
    """the line-protocol form used by the Lean drivers"""
    return "/".join("%d:%s" % (zl, ";".join("%d=%s" % (yl, ",".join(map(str, xs))) for yl, xs in ys))
                    for zl, ys in decomp)


def _cuts(rng, n, k):
    """k positive lengths summing to n at random positions"""
    k = max(1, min(k, n))
    pos = sorted(rng.sample(range(1, n), k - 1)) if k > 1 else []
    edges = [0] + pos + [n]
    return [b - a for a, b in zip(edges, edges[1:])]


def random_decomp(rng, nx, ny, nz, kmax=(3, 3, 3), uniform_prob=0.2):
    """random hierarchical decomposition of an (nx, ny, nz) grid; every strip
    and slab gets its own cut positions unless `uniform` is drawn (tensor
    product, the layout Carpet produces for power-of-two process counts)."""
    if rng.random() < uniform_prob:
        xs = _cuts(rng, nx, rng.randint(1, kmax[0]))
        ysl = _cuts(rng, ny, rng.randint(1, kmax[1]))
        return [[zl, [[yl, list(xs)] for yl in ysl]] for zl in _cuts(rng, nz, rng.randint(1, kmax[2]))]
    return [[zl, [[yl, _cuts(rng, nx, rng.randint(1, kmax[0]))]
                  for yl in _cuts(rng, ny, rng.randint(1, kmax[1]))]]
            for zl in _cuts(rng, nz, rng.randint(1, kmax[2]))]


def nchunks(decomp):
    return len(canonical_chunks(decomp))


class Sim:
    def __init__(self, root, desc):
        self.root = root if root.endswith("/") else root + "/"
        self.desc = desc
        self.name = desc["name"]
        self.simdir = os.path.join(self.root, self.name)

    # ---------------------------------------------------------------- truth
    def truth(self, var, it, rl, restart, checkpoint=False):
        nx, ny, nz = self.desc["levels"][rl]["shape"]
        x, y, z = np.meshgrid(np.arange(nx), np.arange(ny), np.arange(nz), indexing="ij")
        return code(var, it, rl, restart + (CHK if checkpoint else 0), x, y, z).astype(np.float64)

    @staticmethod
    def time(it, restart, checkpoint=False):
        return it / 4.0 + 1000.0 * restart + (CHK_TIME if checkpoint else 0.0)

    def checkpoint_its(self, restart):
        for r in self.desc["restarts"]:
            if r["number"] == restart:
                return list(r.get("checkpoints", {}).get("its", []))
        return []

    def checkpoint_restart_of(self, it, skip_last=False):
        """the restart a reader must take checkpoint iteration `it` from with
        restart=-1: the latest one that wrote a checkpoint at it (None if none)."""
        best = None
        for n in self.restart_numbers(skip_last):
            if it in self.checkpoint_its(n) and (best is None or n > best):
                best = n
        return best

    def restart_numbers(self, skip_last=False):
        rs = sorted(r["number"] for r in self.desc["restarts"])
        return rs[:-1] if skip_last else rs

    def restart_of(self, it, skip_last=False):
        """the restart a reader must take `it` from with restart=-1: the latest
        one whose [first, last] iteration range contains it (None if none)."""
        best = None
        for r in self.desc["restarts"]:
            if r["number"] in self.restart_numbers(skip_last) and min(r["its"]) <= it <= max(r["its"]):
                if best is None or r["number"] > best:
                    best = r["number"]
        return best

    def its_of(self, restart):
        for r in self.desc["restarts"]:
            if r["number"] == restart:
                return list(r["its"])
        return []

    def all_its(self):
        return sorted({i for r in self.desc["restarts"] for i in r["its"]})

    def outdir(self, restart):
        return os.path.join(self.simdir, "output-%04d" % restart, self.name)

    def cachedir(self, restart):
        return os.path.join(self.outdir(restart), "all_iterations")

    # ---------------------------------------------------------------- write
    def files_for(self, r=None):
        """{file base name: [aurel scalar names it holds]} (of restart dict `r` if given)"""
        d = self.desc
        skip = set((r or {}).get("skip_vars", ()))
        if d["grouped"]:
            groups = {}
            for v in d["vars"]:
                g = VARS[v][2]
                groups[g] = list(GROUP_MEMBERS[g])    # Carpet writes whole groups
            return {g: m for g, m in groups.items() if not (skip & set(m))}
        return {VARS[v][1]: [v] for v in d["vars"] if v not in skip}

    def written_vars(self, r=None):
        return sorted({v for vs in self.files_for(r).values() for v in vs})

    def has_var(self, var, restart):
        """did restart number `restart` output the scalar `var`?"""
        for r in self.desc["restarts"]:
            if r["number"] == restart:
                return var in self.written_vars(r)
        return False

    def raw_block(self, var, it, rl, restart, chunk, c):
        """ghost-padded block of one chunk in file order [z][y][x]"""
        lev = self.desc["levels"][rl]
        gx, gy, gz = lev["ghost"]
        ox, oy, oz, xl, yl, zl = chunk
        blk = -(1.0 + 1000.0 * c + np.arange((zl + 2 * gz) * (yl + 2 * gy) * (xl + 2 * gx), dtype=np.float64))
        blk = blk.reshape(zl + 2 * gz, yl + 2 * gy, xl + 2 * gx)
        z, y, x = np.meshgrid(np.arange(oz, oz + zl), np.arange(oy, oy + yl), np.arange(ox, ox + xl),
                              indexing="ij")
        blk[gz:gz + zl, gy:gy + yl, gx:gx + xl] = code(var, it, rl, restart, x, y, z)
        return blk

    def write(self):
        d = self.desc
        os.makedirs(self.simdir, exist_ok=True)
        for r in d["restarts"]:
            out = self.outdir(r["number"])
            os.makedirs(out, exist_ok=True)
            if r["number"] == d["par_in"]:
                with open(os.path.join(self.simdir, "output-%04d" % r["number"], self.name + ".par"), "w") as f:
                    f.write(self.parfile())
            handles = {}
            per_proc = r.get("per_proc", d["per_proc"])
            try:
                for base, members in self.files_for(r).items():
                    for rl, its_of_epoch in ((rl, its) for rl in range(len(d["levels"]))
                                             for its in self.epochs(r)):
                        lev = self.level_at(r, rl, its_of_epoch[0])
                        chunks = canonical_chunks(lev["decomp"])
                        n = len(chunks)
                        for j, ch in enumerate(chunks):
                            c = lev["order"][j]
                            fn = os.path.join(out, base + (".file_%d" % c if per_proc else "") + ".h5")
                            if fn not in handles:
                                handles[fn] = h5py.File(fn, "w")
                                handles[fn].create_group("Parameters and Global Attributes")
                            f = handles[fn]
                            for v in members:
                                thorn, ev, _ = VARS[v]
                                for it in its_of_epoch:
                                    key = "%s::%s it=%d tl=0%s rl=%d%s" % (
                                        thorn, ev, it, " m=0" if d["m0"] else "", rl, " c=%d" % c if n > 1 else "")
                                    ds = f.create_dataset(key, data=self.raw_block(v, it, rl, r["number"], ch, c))
                                    ds.attrs["cctk_nghostzones"] = np.array(lev["ghost"], dtype=np.int32)
                                    ds.attrs["iorigin"] = np.array(
                                        [lev["base"][0] + ch[0], lev["base"][1] + ch[1], lev["base"][2] + ch[2]],
                                        dtype=np.int32)
                                    ds.attrs["time"] = np.float64(self.time(it, r["number"]))
                                    ds.attrs["level"] = np.int32(rl)
                                    ds.attrs["timestep"] = np.int32(it)
                                    ds.attrs["name"] = np.bytes_("%s::%s" % (thorn, ev))
            finally:
                for f in handles.values():
                    f.close()
            if r.get("checkpoints"):
                self.write_checkpoints(r)
        return self

    def level_of(self, r, rl):
        lev = self.desc["levels"][rl]
        if "levels" in r:
            lev = dict(lev, **r["levels"][rl])
        return lev

    def level_at(self, r, rl, it):
        """the level as restart `r` had it cut at iteration `it` (after a regrid: the new cuts)"""
        lev = self.level_of(r, rl)
        rg = r.get("regrid")
        if rg and it >= rg["it"]:
            lev = dict(lev, **rg["levels"][rl])
        return lev

    @staticmethod
    def epochs(r):
        """the iterations of restart `r` grouped by the decomposition in force"""
        rg = r.get("regrid")
        if not rg:
            return [list(r["its"])]
        return [e for e in ([i for i in r["its"] if i < rg["it"]], [i for i in r["its"] if i >= rg["it"]]) if e]

    def checkpoint_datasets(self, r, it):
        """{file name: [(key, block, attrs)]} of the checkpoint restart `r` wrote at `it`"""
        d = self.desc
        ck = r["checkpoints"]
        per_proc = ck.get("per_proc", r.get("per_proc", d["per_proc"]))
        out = {}
        for rl in range(len(d["levels"])):
            lev = self.level_at(r, rl, it)
            chunks = canonical_chunks(lev["decomp"])
            n = len(chunks)
            for j, ch in enumerate(chunks):
                c = lev["order"][j]
                fn = "checkpoint.chkpt.it_%d%s.h5" % (it, ".file_%d" % c if per_proc else "")
                lst = out.setdefault(fn, [])
                tail = "%s rl=%d%s" % (" m=0" if d["m0"] else "", rl, " c=%d" % c if n > 1 else "")
                iorigin = [lev["base"][0] + ch[0], lev["base"][1] + ch[1], lev["base"][2] + ch[2]]
                names = [VARS[v][:2] + (v,) for v in self.written_vars(r)]
                if ck.get("extra"):
                    # evolved variables of other thorns that aurel is not asked for
                    names += [("ML_BSSN", "phi", None), ("GRHYDRO", "dens", None)]
                for thorn, ev, v in names:
                    for tl in range(ck.get("ntl", 1)):
                        if v is not None and tl == 0:
                            blk = self.raw_block(v, it, rl, r["number"] + CHK, ch, c)
                        else:
                            # past time levels / other variables: distinct junk of the same shape
                            blk = -(7.0e8 + 1.0e6 * tl + self.raw_block(self.written_vars(r)[0], it, rl, 0, ch, c) % 1.0e6)
                        attrs = {"cctk_nghostzones": np.array(lev["ghost"], dtype=np.int32),
                                 "iorigin": np.array(iorigin, dtype=np.int32),
                                 "time": np.float64(self.time(it, r["number"], True) - 0.25 * tl),
                                 "level": np.int32(rl), "timestep": np.int32(it),
                                 "name": np.bytes_("%s::%s" % (thorn, ev))}
                        lst.append(("%s::%s it=%d tl=%d%s" % (thorn, ev, it, tl, tail), blk, attrs))
        if ck.get("extra"):
            # a grid scalar (no rl=, no c=) in the file of process 0 / the single file
            first = sorted(out)[0]
            out[first].append(("CARPET::timing_total it=%d tl=0" % it, np.array([1.5]), {"time": np.float64(-1.0)}))
        return out

    def write_checkpoints(self, r):
        out = self.outdir(r["number"])
        for it in r["checkpoints"]["its"]:
            for fn, dsets in self.checkpoint_datasets(r, it).items():
                with h5py.File(os.path.join(out, fn), "w") as f:
                    f.create_group("Parameters and Global Attributes")
                    for key, blk, attrs in dsets:
                        ds = f.create_dataset(key, data=blk)
                        for a, val in attrs.items():
                            ds.attrs[a] = val

    def parfile(self):
        d = self.desc
        nx, ny, nz = d["levels"][0]["shape"]
        lines = ['ActiveThorns = "CoordBase Carpet CarpetIOHDF5 ADMBase HydroBase ML_BSSN"']
        for c, n in zip("xyz", (nx, ny, nz)):
            lines += ["CoordBase::%smin = 0.0" % c, "CoordBase::%smax = %d.0" % (c, n), "CoordBase::d%s = 1.0" % c,
                      "CoordBase::boundary_shiftout_%s_lower = 1" % c]
        lines += ["Carpet::max_refinement_levels = %d" % len(d["levels"]),
                  "driver::ghost_size = %d" % d["levels"][0]["ghost"][0],
                  'IO::out_mode = "%s"' % ("proc" if d["per_proc"] else "onefile"),
                  "IOHDF5::one_file_per_group = %s" % ("yes" if d["grouped"] else "no"),
                  "IOHDF5::out_every = 1"]
        return "\n".join(lines) + "\n"

    def remove(self):
        shutil.rmtree(self.simdir, ignore_errors=True)

    def clear_caches(self):
        """remove everything aurel itself wrote (iterations.txt, content.txt, all_iterations/)"""
        p = os.path.join(self.simdir, "iterations.txt")
        if os.path.exists(p):
            os.remove(p)
        for r in self.desc["restarts"]:
            p = os.path.join(self.outdir(r["number"]), "content.txt")
            if os.path.exists(p):
                os.remove(p)
            shutil.rmtree(self.cachedir(r["number"]), ignore_errors=True)

    def param(self):
        """aurel.parameters(simname) with SIMLOC pointing at the root"""
        import aurel
        old = os.environ.get("SIMLOC")
        os.environ["SIMLOC"] = self.root
        try:
            return aurel.parameters(self.name)
        finally:
            if old is None:
                del os.environ["SIMLOC"]
            else:
                os.environ["SIMLOC"] = old

    def describe(self):
        return json.loads(json.dumps(self.desc))


def random_level(rng, nmax, kmax, gmax, base_max=0, uniform_prob=0.2):
    nx, ny, nz = (rng.randint(1, nmax) for _ in range(3))
    dec = random_decomp(rng, nx, ny, nz, kmax, uniform_prob)
    n = nchunks(dec)
    order = list(range(n))
    rng.shuffle(order)
    g = rng.randint(1, gmax)
    ghost = [g, g, g] if rng.random() < 0.6 else [rng.randint(1, gmax) for _ in range(3)]
    return {"shape": [nx, ny, nz], "ghost": ghost,
            "base": [rng.randint(0, base_max) for _ in range(3)], "decomp": dec, "order": order}


def _redraw(rng, lev, kmax):
    nx, ny, nz = lev["shape"]
    dec = random_decomp(rng, nx, ny, nz, kmax)
    order = list(range(nchunks(dec)))
    rng.shuffle(order)
    return dec, order


def random_restarts(rng, nrest, every, nits):
    """restart r writes `nits`-ish iterations; a restart starts from a checkpoint
    inside the previous one, so the iteration ranges overlap."""
    out = []
    start = 0
    for r in range(nrest):
        n = rng.randint(2, nits)
        its = [start + every * k for k in range(n)]
        out.append({"number": r, "its": its})
        start = its[rng.randint(1 if n > 1 else 0, n - 1)] if rng.random() < 0.8 else its[-1] + every
    return out


def random_desc(rng, name, per_proc=None, grouped=None, nlevels=None, nrest=None, nmax=8, kmax=(3, 3, 3),
                gmax=3, nvars=None, nits=4):
    per_proc = rng.random() < 0.5 if per_proc is None else per_proc
    grouped = rng.random() < 0.5 if grouped is None else grouped
    nlevels = rng.choice((1, 2)) if nlevels is None else nlevels
    nrest = rng.randint(1, 3) if nrest is None else nrest
    while True:
        levels = [random_level(rng, nmax, kmax, gmax, base_max=(0 if i == 0 else 5)) for i in range(nlevels)]
        counts = [nchunks(lv["decomp"]) for lv in levels]
        if per_proc and (counts[0] < 2 or len(set(counts)) != 1):
            # Carpet distributes every level over all processes; x.file_<c>.h5 holds c on each level
            continue
        break
    # pick requests first (tensors and scalars), write what they need
    names = list(TENSORS) + [v for v in VARS]
    req = rng.sample(names, nvars or rng.randint(1, 3))
    vars_ = sorted({c for n in req for c in components(n)})
    every = rng.choice((1, 2, 8, 16))
    restarts = random_restarts(rng, nrest, every, nits)
    for r in restarts[1:]:
        if rng.random() < 0.4:
            # this restart ran on a different number of processes
            for _ in range(50):
                lv = [dict(zip(("decomp", "order"), _redraw(rng, lev, kmax))) for lev in levels]
                counts = [len(x["order"]) for x in lv]
                if not per_proc or (len(set(counts)) == 1 and counts[0] >= 2):
                    r["levels"] = lv
                    break
                if per_proc and set(counts) == {1}:
                    r["levels"], r["per_proc"] = lv, False    # one process: Carpet drops '.file_0' and ' c='
                    break
    return {"name": name, "per_proc": per_proc, "grouped": grouped, "m0": rng.random() < 0.3, "vars": vars_,
            "levels": levels, "restarts": restarts, "par_in": rng.choice([r["number"] for r in restarts]),
            "requests": req}


def add_random_checkpoints(rng, desc, prob=0.8):
    """give (most) restarts checkpoint files: a random subset of their iterations plus,
    often, the iteration the next restart starts from (so that the same checkpoint
    iteration can exist in two restarts)."""
    for r in desc["restarts"]:
        if rng.random() >= prob:
            continue
        its = sorted(rng.sample(r["its"], rng.randint(1, len(r["its"]))))
        counts = {len(x["order"]) for x in r["levels"]} if "levels" in r else \
            {nchunks(lv["decomp"]) for lv in desc["levels"]}
        if "regrid" in r:
            counts = counts | {len(x["order"]) for x in r["regrid"]["levels"]}
        multi = len(counts) == 1 and min(counts) >= 2
        r["checkpoints"] = {"its": its, "per_proc": multi and rng.random() < 0.6, "ntl": rng.randint(1, 3),
                            "extra": rng.random() < 0.5}
    return desc


def add_random_skips(rng, desc, prob=1.0):
    """make one restart (of at least two) not output one of the requested variables (its file,
    or the file of its group, is absent).  Restarts with checkpoints are left alone."""
    cand = [r for r in desc["restarts"] if not r.get("checkpoints")]
    if len(desc["restarts"]) < 2 or not cand or rng.random() >= prob:
        return desc
    r = rng.choice(cand)
    comps = sorted({c for n in desc["requests"] for c in components(n)})
    rng.shuffle(comps)
    for c in comps:
        # the restart must still output something (an empty restart directory is another matter)
        if desc["grouped"]:
            left = [v for v in desc["vars"] if VARS[v][2] != VARS[c][2]]
        else:
            left = [v for v in desc["vars"] if v != c]
        if left:
            r["skip_vars"] = [c]
            break
    return desc


def add_random_regrid(rng, desc, kmax=(3, 2, 2), prob=1.0, single_to_many=False):
    """give one restart a regrid at one of its iterations (not the first): from there on every level
    is cut anew.  One file per process: the number of components stays what it was.  Unless
    `single_to_many`, a level keeps having one component (names without ` c=`) or several."""
    cand = [r for r in desc["restarts"] if len(r["its"]) >= 2 and "regrid" not in r]
    if not cand or rng.random() >= prob:
        return desc
    r = rng.choice(cand)
    per_proc = r.get("per_proc", desc["per_proc"])
    for _ in range(60):
        lv = []
        for rl, lev in enumerate(desc["levels"]):
            dec, order = _redraw(rng, lev, kmax)
            lv.append({"decomp": dec, "order": order})
        old = [len((r["levels"][rl] if "levels" in r else desc["levels"][rl])["order"])
               for rl in range(len(desc["levels"]))]
        new = [len(x["order"]) for x in lv]
        if per_proc and new != old:
            continue
        if not single_to_many and [n == 1 for n in new] != [n == 1 for n in old]:
            continue
        r["regrid"] = {"it": rng.choice(r["its"][1:]), "levels": lv}
        break
    return desc
