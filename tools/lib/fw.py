"""Shared framework for the aurel Lean-4 proof checks.

One check = one run of ``./check Cxx --tier T``.  A property module
(tools/props/Cxx.py) defines ``run(ctx)`` and uses the helpers below:

  ctx.regen(...)            regenerate Gen/*.lean from /repo (tie A)
  ctx.lean_build(mods)      lake build under flock + timeout; failing decls
  ctx.audit(mod, thms)      #print axioms of every registered theorem
  ctx.forbidden_scan(files) sorry/admit/axiom/native_decide/... grep
  ctx.run_driver(file, lines)  line-protocol model driver (tie B)
  ctx.obligation(name, ok, detail)  record one proof/correspondence obligation
  ctx.violation(replay_obj) / ctx.unproved(...)  report per the interface
  ctx.finish()              write evidence, exit code

Exit codes: 0 property held on everything explored; 1 VIOLATION printed;
2 internal error / timeout (never a verdict).
"""
import fcntl
import hashlib
import json
import os
import random
import re
import subprocess
import sys
import time
import traceback

VERIF = os.path.dirname(os.path.dirname(os.path.dirname(os.path.abspath(__file__))))
LEAN = os.path.join(VERIF, "lean")
REPO = os.environ.get("AUREL_REPO", "/repo")
SRC = os.path.join(REPO, "src", "aurel")
STD_AXIOMS = {"propext", "Classical.choice", "Quot.sound"}
FORBIDDEN = re.compile(
    r"\bsorry\b|\badmit\b|^\s*axiom\s|native_decide|bv_decide|implemented_by"
    r"|\bunsafe\s|maxHeartbeats\s+0\b|\bopaque\b\s+\w+\s*:.*:=\s*sorry")


def strip_lean_comments(text):
    """Remove /- -/ (nested) and -- comments so greps ignore prose."""
    out, i, depth, n = [], 0, 0, len(text)
    while i < n:
        if text.startswith("/-", i):
            depth += 1
            i += 2
        elif depth and text.startswith("-/", i):
            depth -= 1
            i += 2
        elif depth:
            if text[i] == "\n":
                out.append("\n")
            i += 1
        elif text.startswith("--", i):
            while i < n and text[i] != "\n":
                i += 1
        else:
            out.append(text[i])
            i += 1
    return "".join(out)


# ---------------------------------------------------------------------------
# source fingerprint: which of the files a property is anchored in differ from the tree the models were last
# reconciled with (tools/pins.json, written by tools/pins.py).  A difference is NOT an obligation and never a
# verdict — it only makes the quick tier spend more on correspondence and search (budget x3, capped by the
# thorough budget), because a changed file is where a model can have gone stale.
_CORE = ["core.py", "maths.py", "finitedifference.py"]
SOURCES = {"C01": ["core.py"], "C02": _CORE + ["time.py", "reading.py", "numerical.py"], "C03": ["core.py", "time.py"],
           "C04": _CORE, "C05": _CORE, "C06": _CORE, "C07": ["finitedifference.py"], "C08": _CORE, "C09": _CORE,
           "C10": _CORE, "C11": ["reading.py"], "C12": ["reading.py"], "C13": ["reading.py"], "C14": ["time.py", "core.py"],
           "C15": ["coresymbolic.py"], "C16": ["finitedifference.py"], "C17": ["solutions/*.py"], "C18": ["reading.py"],
           "C19": _CORE, "C20": ["maths.py", "numerical.py", "core.py"]}


def source_digests(pid=None):
    import glob as _glob
    import hashlib
    pats = SOURCES.get(pid) if pid else sorted({p for v in SOURCES.values() for p in v})
    out = {}
    for pat in pats or []:
        for f in sorted(_glob.glob(os.path.join(SRC, pat))):
            out[os.path.relpath(f, SRC)] = hashlib.sha256(open(f, "rb").read()).hexdigest()
    return out


def changed_sources(pid):
    try:
        pins = json.load(open(os.path.join(VERIF, "tools", "pins.json")))
    except Exception:  # noqa
        return ["<no pins.json>"]
    now = source_digests(pid)
    return sorted(f for f in set(now) | {k for k in pins if any(k == p or (p.endswith("*.py") and k.startswith(p[:-4])) for p in SOURCES.get(pid, []))}
                  if now.get(f) != pins.get(f))


class Ctx:
    def __init__(self, pid, tier, seed, level="proof"):
        self.pid, self.tier, self.seed, self.level = pid, tier, seed, level
        self.changed_sources = changed_sources(pid)
        self.rng = random.Random(seed)
        self.t0 = time.time()
        self.obligs = []          # {name, kind, ok, detail}
        self.violations = []      # replay paths
        self.known = []           # KNOWN-FINDING lines
        self.samples = []
        self.cov = {}             # extra coverage keys
        self.assumptions = []
        self.trusted = []
        self.checker_cmds = []
        self.axioms_seen = {}
        self.notes = []
        self.findings = load_known_findings()

    # ------------------------------------------------------------------ util
    def log(self, *a):
        print("[%s %6.1fs]" % (self.pid, time.time() - self.t0), *a, flush=True)

    def budget(self, quick, thorough):
        if self.tier == "thorough":
            return thorough
        if self.changed_sources and isinstance(quick, (int, float)) and isinstance(thorough, (int, float)):
            return min(thorough, 3 * quick) if thorough >= quick else quick
        return quick

    def sample(self, s):
        if len(self.samples) < 12:
            self.samples.append(s)

    def count(self, key, n=1):
        self.cov[key] = self.cov.get(key, 0) + n

    # ------------------------------------------------------------ obligations
    def obligation(self, name, ok, detail="", kind="theorem"):
        self.obligs.append({"name": name, "kind": kind, "ok": bool(ok),
                            "detail": str(detail)[:2000]})
        if not ok:
            self.log("BROKEN obligation", name, "::", str(detail)[:300])

    def broken(self):
        return [o for o in self.obligs if not o["ok"]]

    # ------------------------------------------------------------------ lean
    def _lake(self, args, timeout):
        lock = open(os.path.join(LEAN, ".build.lock"), "w")
        fcntl.flock(lock, fcntl.LOCK_EX)
        try:
            p = subprocess.run(["timeout", str(timeout), "lake"] + args, cwd=LEAN,
                               capture_output=True, text=True)
        finally:
            fcntl.flock(lock, fcntl.LOCK_UN)
            lock.close()
        return p.returncode, p.stdout + p.stderr

    def lean_build(self, modules, timeout=1500):
        """Build modules.  Returns (ok, {file: [(line, msg)]}, log)."""
        rc, out = self._lake(["build"] + list(modules), timeout)
        self.checker_cmds.append("cd lean && lake build " + " ".join(modules))
        errs = {}
        for m in re.finditer(r"error: ([\w/\.]+\.lean):(\d+):(\d+): (.*)", out):
            errs.setdefault(m.group(1), []).append((int(m.group(2)), m.group(4)))
        if rc == 124:
            errs.setdefault("<timeout>", []).append((0, "lake build timed out"))
        elif rc != 0 and not errs:
            errs.setdefault("<build>", []).append((0, out[-1500:]))
        return rc == 0, errs, out

    @staticmethod
    def decl_at(path, line):
        """Name of the theorem/def enclosing a 1-based line of a Lean file."""
        try:
            lines = open(os.path.join(LEAN, path)).read().split("\n")
        except OSError:
            return None
        for i in range(min(line, len(lines)) - 1, -1, -1):
            m = re.match(r"\s*(?:@\[.*\]\s*)?(?:private |protected |noncomputable )*"
                         r"(theorem|lemma|def|example|instance|abbrev)\s+([^\s:({\[]+)?", lines[i])
            if m:
                return m.group(2) or "example@%d" % (i + 1)
        return None

    def prove(self, module, theorems, extra_modules=(), timeout=1500):
        """Build `module`, then audit axioms of `theorems` (fully qualified).
        Records one obligation per theorem.  Returns True iff all discharged."""
        ok, errs, out = self.lean_build([module] + list(extra_modules), timeout)
        path = module.replace(".", "/") + ".lean"
        bad_decls = {}
        other = []
        for f, lst in errs.items():
            for (ln, msg) in lst:
                d = self.decl_at(f, ln) if f.endswith(".lean") else None
                if f == path and d:
                    bad_decls.setdefault(d, []).append("%s:%d %s" % (f, ln, msg))
                else:
                    other.append("%s:%d %s %s" % (f, ln, d or "", msg))
        axioms = {}
        if ok:
            axioms = self.audit(module, theorems)
        all_ok = True
        for t in theorems:
            short = t.split(".")[-1]
            if short in bad_decls or t in bad_decls:
                self.obligation(t, False, "; ".join(bad_decls.get(short) or bad_decls.get(t)))
                all_ok = False
            elif not ok:
                self.obligation(t, False, "module did not build: " + "; ".join(other)[:600]
                                if other else "module did not build (error in another declaration: %s)"
                                % ", ".join(bad_decls))
                all_ok = False
            else:
                ax = axioms.get(t)
                if ax is None:
                    self.obligation(t, False, "theorem not found by #print axioms")
                    all_ok = False
                elif not set(ax) <= STD_AXIOMS:
                    self.obligation(t, False, "non-standard axioms: %s" % sorted(set(ax) - STD_AXIOMS))
                    all_ok = False
                else:
                    self.obligation(t, True, "axioms: " + (", ".join(sorted(ax)) or "none"))
        self.build_errors = errs
        return all_ok

    def audit(self, module, theorems):
        """#print axioms for each theorem; returns {thm: [axioms]}."""
        os.makedirs(os.path.join(LEAN, ".audit"), exist_ok=True)
        fn = os.path.join(LEAN, ".audit", "Audit_%s_%d.lean" % (self.pid, os.getpid()))
        with open(fn, "w") as f:
            f.write("import %s\n" % module)
            for t in theorems:
                f.write("#print axioms %s\n" % t)
        try:
            p = subprocess.run(["timeout", "600", "lake", "env", "lean", fn], cwd=LEAN,
                               capture_output=True, text=True)
        finally:
            os.unlink(fn)
        self.checker_cmds.append("lake env lean <#print axioms of %d theorems>" % len(theorems))
        res = {}
        txt = p.stdout + p.stderr
        for m in re.finditer(r"'([^']+)' depends on axioms: \[([^\]]*)\]", txt):
            res[m.group(1)] = [a.strip() for a in m.group(2).replace("\n", " ").split(",") if a.strip()]
        for m in re.finditer(r"'([^']+)' does not depend on any axioms", txt):
            res[m.group(1)] = []
        for t, ax in res.items():
            self.axioms_seen[t] = ax
        return res

    def forbidden_scan(self, relpaths):
        """grep for sorry/axiom/native_decide/... (comments stripped)."""
        hits = []
        for rp in relpaths:
            p = os.path.join(LEAN, rp)
            files = []
            if os.path.isdir(p):
                for r, _, fs in os.walk(p):
                    files += [os.path.join(r, x) for x in fs if x.endswith(".lean")]
            elif os.path.exists(p):
                files = [p]
            for fn in files:
                txt = strip_lean_comments(open(fn).read())
                for i, l in enumerate(txt.split("\n")):
                    if FORBIDDEN.search(l):
                        hits.append("%s:%d: %s" % (os.path.relpath(fn, LEAN), i + 1, l.strip()))
        self.obligation("no sorry/axiom/native_decide in " + ",".join(relpaths),
                        not hits, "; ".join(hits), kind="audit")
        return not hits

    def leanchecker(self, modules, timeout=1200):
        p = subprocess.run(["timeout", str(timeout), "lake", "env", "leanchecker"] + list(modules),
                           cwd=LEAN, capture_output=True, text=True)
        self.checker_cmds.append("lake env leanchecker " + " ".join(modules))
        self.obligation("leanchecker " + " ".join(modules), p.returncode == 0,
                        (p.stdout + p.stderr)[-800:], kind="audit")
        return p.returncode == 0

    def run_driver(self, driver_rel, lines, timeout=900, args=()):
        """Pipe `lines` to `lake env lean --run driver`; returns output lines."""
        inp = "\n".join(lines) + "\n"
        p = subprocess.run(["timeout", str(timeout), "lake", "env", "lean", "--run", driver_rel] + list(args),
                           cwd=LEAN, input=inp, capture_output=True, text=True)
        if p.returncode != 0:
            raise RuntimeError("driver %s failed rc=%s: %s" % (driver_rel, p.returncode, (p.stderr or p.stdout)[-1500:]))
        return p.stdout.split("\n")[:-1] if p.stdout.endswith("\n") else p.stdout.split("\n")

    # -------------------------------------------------------------- reporting
    def _replay_path(self, obj):
        os.makedirs(os.path.join(VERIF, "replays"), exist_ok=True)
        blob = json.dumps(obj, sort_keys=True, default=str)
        h = hashlib.sha1(blob.encode()).hexdigest()[:12]
        path = os.path.join(VERIF, "replays", "%s_%s.json" % (self.pid, h))
        with open(path, "w") as f:
            json.dump(obj, f, indent=1, sort_keys=True, default=str)
        return path

    def match_known(self, fingerprint):
        """fingerprint: dict; a known finding matches if all of its `match`
        items are equal in the fingerprint."""
        for e in self.findings:
            if e.get("property") != self.pid or e.get("status") != "known":
                continue
            if all(fingerprint.get(k) == v for k, v in e.get("match", {}).items()):
                return e
        return None

    def violation(self, what, replay, fingerprint=None):
        """A concrete failing input on the real code."""
        fp = fingerprint or {}
        if fp:
            key = json.dumps(fp, sort_keys=True, default=str)
            if key in getattr(self, "_seen_fp", set()):
                self.count("duplicate_violations_suppressed")
                return False
            self.__dict__.setdefault("_seen_fp", set()).add(key)
        e = self.match_known(fp) if fp else None
        if e is not None:
            line = "KNOWN-FINDING: property=%s %s" % (self.pid, e["what"])
            if line not in self.known:
                self.known.append(line)
                print(line, flush=True)
            return False
        obj = {"property": self.pid, "kind": replay.get("kind", "input"), "seed": self.seed,
               "tier": self.tier, "what": what, "fingerprint": fp}
        obj.update(replay)
        path = self._replay_path(obj)
        self.violations.append(path)
        print("VIOLATION property=%s replay=%s" % (self.pid, path), flush=True)
        self.log("violation:", what)
        return True

    def unproved(self, detail=None):
        """Broken obligations and no failing input found."""
        br = self.broken()
        obj = {"property": self.pid, "kind": "unproved", "seed": self.seed, "tier": self.tier,
               "what": "proof obligation / correspondence no longer checks; search found no failing input",
               "broken": br, "detail": detail}
        path = self._replay_path(obj)
        self.violations.append(path)
        print("VIOLATION property=%s replay=%s no-failing-input-found" % (self.pid, path), flush=True)

    def finish(self):
        br = self.broken()
        if br and not self.violations:
            self.unproved()
        n_obl = len(self.obligs)
        n_ok = sum(1 for o in self.obligs if o["ok"])
        cov = {
            "obligations": max(n_obl, 0),
            "discharged": n_ok,
            "checker_cmd": "; ".join(dict.fromkeys(self.checker_cmds)) or "none",
            "trusted_base": self.trusted,
            "obligation_list": [{"name": o["name"], "kind": o["kind"], "ok": o["ok"],
                                 "detail": o["detail"][:300]} for o in self.obligs],
            "axioms": self.axioms_seen,
            "samples": self.samples or ["(no samples recorded)"],
            "known_findings_reported": self.known,
            "notes": self.notes,
        }
        cov.update(self.cov)
        cov["source_fingerprint"] = {"files": sorted(source_digests(self.pid)),
                                     "changed_since_models_were_reconciled": self.changed_sources,
                                     "effect": "quick budgets x3 (capped by thorough)" if self.changed_sources else "none"}
        ev = {"property_id": self.pid, "tier": self.tier, "seed": self.seed, "level": self.level,
              "coverage": cov, "assumptions": self.assumptions,
              "wall_s": round(time.time() - self.t0, 2), "violations": len(self.violations)}
        os.makedirs(os.path.join(VERIF, "evidence"), exist_ok=True)
        with open(os.path.join(VERIF, "evidence", self.pid + ".json"), "w") as f:
            json.dump(ev, f, indent=1, default=str)
        self.log("obligations %d discharged %d violations %d known %d wall %.1fs" %
                 (n_obl, n_ok, len(self.violations), len(self.known), time.time() - self.t0))
        return 1 if self.violations else 0


def load_known_findings():
    p = os.path.join(VERIF, "known_findings.json")
    out = []
    if os.path.exists(p):
        out += json.load(open(p)).get("findings", [])
    return out


def write_if_changed(path, text):
    os.makedirs(os.path.dirname(path), exist_ok=True)
    if os.path.exists(path) and open(path).read() == text:
        return False
    with open(path, "w") as f:
        f.write(text)
    return True


def src_text(rel):
    return open(os.path.join(SRC, rel)).read()


def frac_lean(fr):
    """fractions.Fraction -> Lean Rat literal."""
    if fr.denominator == 1:
        return "(%d : Rat)" % fr.numerator if fr.numerator >= 0 else "(-%d : Rat)" % -fr.numerator
    if fr.numerator >= 0:
        return "((%d : Rat) / %d)" % (fr.numerator, fr.denominator)
    return "(-(%d : Rat) / %d)" % (-fr.numerator, fr.denominator)


def main(argv=None):
    import argparse
    import importlib
    ap = argparse.ArgumentParser()
    ap.add_argument("pid")
    ap.add_argument("--tier", default=os.environ.get("VERIF_TIER", "quick"))
    ap.add_argument("--replay")
    a = ap.parse_args(argv)
    seed = int(os.environ.get("VERIF_SEED", "20260929"))
    sys.path.insert(0, os.path.join(VERIF, "tools"))
    try:
        mod = importlib.import_module("props." + a.pid)
    except ModuleNotFoundError:
        print("no check for", a.pid)
        return 2
    ctx = Ctx(a.pid, a.tier, seed, level=getattr(mod, "LEVEL", "proof"))
    try:
        if a.replay:
            return mod.replay(ctx, json.load(open(a.replay)))
        mod.run(ctx)
        return ctx.finish()
    except Exception as ex:
        traceback.print_exc()
        # Safety net.  If the implementation itself raised (a frame of the traceback lies in the checked source tree)
        # and that tree differs from the sources the models were last reconciled with, the correspondence run no
        # longer completes: that is a broken correspondence, reported as the brief prescribes (VIOLATION ...
        # no-failing-input-found unless the property module already recorded a failing input).  On the pinned
        # sources a crash stays what it is: a broken check, exit 2.
        frames = [f for f in traceback.extract_tb(ex.__traceback__)
                  if os.path.realpath(f.filename).startswith(os.path.realpath(SRC) + os.sep)]
        changed = sorted({f for p in SOURCES for f in changed_sources(p)})
        if frames and changed:
            try:
                where = "%s:%d in %s" % (os.path.relpath(frames[-1].filename, SRC), frames[-1].lineno, frames[-1].name)
                ctx.obligation("correspondence:harness-run-completes", False,
                               "%s: %s raised at %s while the check was driving the implementation; sources changed "
                               "since the models were reconciled: %s" % (type(ex).__name__, str(ex)[:200], where,
                                                                          ", ".join(changed)[:300]),
                               kind="correspondence")
                return ctx.finish()
            except Exception:  # noqa
                traceback.print_exc()
        return 2
