"""Shared steps of the checks whose model is generated from core.py/maths.py by
symbolic execution (C04-C06, C08-C10, C19, coherence part of C01)."""
import os

import numpy as np

from lib import fw

GEN_FILES = ["AurelVerif/Gen/Env.lean", "AurelVerif/Gen/CoreKeys.lean", "AurelVerif/Gen/CoreHelpers.lean",
             "AurelVerif/Gen/CoreCurv.lean"]
TRUSTED = [
    "Lean 4.33 kernel; axioms propext, Classical.choice, Quot.sound",
    "py2lean tracer (tools/py2lean/trace.py, coretrace.py, emit_core.py): symbolic execution of the current core.py/maths.py on numpy object arrays; "
    "validated on every run by translation validation (traced expression vs real method on the same random inputs, whole grid, real FD operators)",
    "numpy einsum/broadcast/slicing semantics (used unchanged by the tracer); exact-field arithmetic in place of IEEE-754",
    "the printer from the traced expression DAG to Lean text: validated each run by executing the printed definition bodies over Q (Gen/Q*.lean, byte-identical bodies, native executable `coreeval`) against exact evaluation of the DAG",
]


def regen_and_validate(ctx, needed):
    """Regenerate Gen/Core*.lean from the current source; record one translation
    obligation per needed definition and one translation-validation obligation.
    Returns (results, shapes, index) or None when regeneration failed."""
    from py2lean import emit_core, tv
    try:
        results, failures, shapes, index, changed = emit_core.regen()
    except Exception as ex:  # noqa
        ctx.obligation("py2lean:core", False, "symbolic execution failed: %r" % ex, kind="translation")
        return None
    ctx.cov["generated_definitions"] = len(index)
    ctx.cov["regenerated_files_changed"] = changed
    emitted = {i["key"] for i in index if i["status"] == "ok"}
    missing = [k for k in needed if k not in emitted]
    ctx.obligation("py2lean:core definitions %s" % ",".join(sorted(needed))[:200], not missing,
                   "; ".join("%s: %s" % (k, failures.get(k, "not emitted")) for k in missing), kind="translation")
    # translation validation of the needed definitions (and everything they are traced with)
    seeds = [ctx.seed % 1000, ctx.seed % 1000 + 1] if ctx.tier == "quick" else [ctx.seed % 1000 + i for i in range(6)]
    tot, bad = 0, []
    with np.errstate(all="ignore"):
        for s in seeds:
            checked, mism, skipped = tv.validate(results, shapes, seed=s, names=None if ctx.tier == "thorough" else set(needed))
            tot += checked
            bad += ["%s alt %d: %s" % m for m in mism]
    ctx.cov["translation_validation_cases"] = tot
    ctx.obligation("translation validation: traced formulas vs real methods (%d alternative-runs)" % tot,
                   not bad and tot > 0, "; ".join(bad[:6]), kind="translation-validation")
    # printer validation: the generated Lean TEXT (same bodies, K := Rat) is executed natively and
    # compared exactly with the evaluation of the traced DAG
    try:
        ndefs, pm = tv.validate_printer(results, shapes, index, seed=ctx.seed % 1000)
    except Exception as ex:  # noqa
        ndefs, pm = 0, ["printer validation crashed: %r" % ex]
    ctx.cov["printer_validation_definitions"] = ndefs
    ctx.obligation("printer validation: generated Lean text evaluated over Q == traced DAG (%d definitions)" % ndefs,
                   not pm and ndefs > 0, "; ".join(pm[:5]), kind="translation-validation")
    for i in index:
        if i["key"] in needed and i["status"] == "ok":
            ctx.sample({"generated": i["name"], "looks_up": i["deps"][:8], "present_sets": i["present_sets"], "vacuum": i["vacuum"]})
            break
    return results, shapes, index


def make_rel(rng, N=8, order=4, vacuum=False, Lambda=0.0, shift=True, fluid=False, extra=None, **kw):
    """A real AurelCore on a small grid with smooth, strongly non-trivial inputs
    (non-unit lapse, non-zero shift, non-diagonal metric), frozen."""
    import aurel
    L = 1.0
    param = {"Nx": N, "Ny": N + 1, "Nz": N + 2, "xmin": -0.4, "ymin": -0.3, "zmin": -0.5,
             "dx": L / N, "dy": L / (N + 1), "dz": L / (N + 2)}
    fd = aurel.FiniteDifference(param, fd_order=order, verbose=False)
    x, y, z = fd.x, fd.y, fd.z
    a = rng.uniform(0.2, 0.6, size=12)
    ph = rng.uniform(0, 2 * np.pi, size=12)

    def w(i, s=1.0):
        return s * a[i] * np.sin(1.3 * x + 0.7 * y - 0.9 * z + ph[i])
    g = np.array([[1.5 + w(0), 0.4 + w(1, .5), -0.3 + w(2, .5)],
                  [0.4 + w(1, .5), 1.8 + w(3), 0.35 + w(4, .5)],
                  [-0.3 + w(2, .5), 0.35 + w(4, .5), 1.4 + w(5)]])
    K = np.array([[w(6), w(7), w(8)], [w(7), w(9), w(10)], [w(8), w(10), w(11)]])
    rel = aurel.AurelCore(fd, verbose=False, vacuum=vacuum, Lambda=Lambda, **kw)
    rel.data["gammadown3"] = g
    rel.data["Kdown3"] = K
    rel.data["alpha"] = 1.3 + 0.3 * np.cos(0.8 * x - 0.5 * y + 0.3 * z)
    if shift:
        rel.data["betaup3"] = np.array([0.3 + w(2, .3), -0.2 + w(5, .3), 0.25 + w(9, .3)])
    if fluid:
        v = np.array([0.2 + 0.1 * np.sin(x + ph[0]), -0.15 + 0.1 * np.cos(y + ph[1]), 0.1 + 0.05 * np.sin(z + ph[2])])
        rel.data["velx"], rel.data["vely"], rel.data["velz"] = v[0], v[1], v[2]
        v2 = np.einsum("ij...,i...,j...->...", g, v, v)
        rel.data["w_lorentz"] = 1.0 / np.sqrt(1.0 - v2)
        rel.data["rho0"] = 1.0 + 0.3 * np.cos(x - y + ph[3])
        rel.data["eps"] = 0.2 + 0.1 * np.sin(z + ph[4])
        rel.data["press"] = 0.3 + 0.1 * np.cos(x + z + ph[5])
    for k, v_ in (extra or {}).items():
        rel.data[k] = v_
    rel.freeze_data()
    return rel
