"""Shared steps of the checks whose model is generated from core.py/maths.py by
symbolic execution (C04-C06, C08-C10, C19, coherence part of C01)."""
import os

import numpy as np

from lib import fw

GEN_FILES = ["AurelVerif/Gen/Env.lean", "AurelVerif/Gen/CoreKeys.lean", "AurelVerif/Gen/CoreHelpers.lean",
             "AurelVerif/Gen/CoreCurv.lean"]
TRUSTED = [
    "Lean 4.33 kernel; axioms propext, Classical.choice, Quot.sound",
    "py2lean tracer (tools/py2lean/trace.py, coretrace.py, emit_core.py): symbolic execution of the current core.py/maths.py on numpy object arrays; "
    "validated on every run by translation validation (traced expression vs real method on the same random inputs, whole grid, real FD operators)",
    "numpy einsum/broadcast/slicing semantics (used unchanged by the tracer); exact-field arithmetic in place of IEEE-754",
    "the printer from the traced expression DAG to Lean text: validated each run by executing the printed definition bodies over Q (Gen/Q*.lean, byte-identical bodies, native executable `coreeval`) against exact evaluation of the DAG",
]


def regen_and_validate(ctx, needed):
    """Regenerate Gen/Core*.lean from the current source; record one translation
    obligation per needed definition and one translation-validation obligation.
    Returns (results, shapes, index) or None when regeneration failed."""
    from py2lean import emit_core, tv
    try:
        results, failures, shapes, index, changed = emit_core.regen()
    except Exception as ex:  # noqa
        ctx.obligation("py2lean:core", False, "symbolic execution failed: %r" % ex, kind="translation")
        return None
    ctx.cov["generated_definitions"] = len(index)
    ctx.cov["regenerated_files_changed"] = changed
    emitted = {i["key"] for i in index if i["status"] == "ok"}
    missing = [k for k in needed if k not in emitted]
    ctx.obligation("py2lean:core definitions %s" % ",".join(sorted(needed))[:200], not missing,
                   "; ".join("%s: %s" % (k, failures.get(k, "not emitted")) for k in missing), kind="translation")
    # translation validation of the needed definitions (and everything they are traced with)
    seeds = [ctx.seed % 1000, ctx.seed % 1000 + 1] if ctx.tier == "quick" else [ctx.seed % 1000 + i for i in range(6)]
    tot, bad = 0, []
    with np.errstate(all="ignore"):
        for s in seeds:
            checked, mism, skipped = tv.validate(results, shapes, seed=s, names=None if ctx.tier == "thorough" else set(needed))
            tot += checked
            bad += ["%s alt %d: %s" % m for m in mism]
    ctx.cov["translation_validation_cases"] = tot
    ctx.obligation("translation validation: traced formulas vs real methods (%d alternative-runs)" % tot,
                   not bad and tot > 0, "; ".join(bad[:6]), kind="translation-validation")
    # printer validation: the generated Lean TEXT (same bodies, K := Rat) is executed natively and
    # compared exactly with the evaluation of the traced DAG
    try:
        ndefs, pm = tv.validate_printer(results, shapes, index, seed=ctx.seed % 1000)
    except Exception as ex:  # noqa
        ndefs, pm = 0, ["printer validation crashed: %r" % ex]
    ctx.cov["printer_validation_definitions"] = ndefs
    ctx.obligation("printer validation: generated Lean text evaluated over Q == traced DAG (%d definitions)" % ndefs,
                   not pm and ndefs > 0, "; ".join(pm[:5]), kind="translation-validation")
    for i in index:
        if i["key"] in needed and i["status"] == "ok":
            ctx.sample({"generated": i["name"], "looks_up": i["deps"][:8], "present_sets": i["present_sets"], "vacuum": i["vacuum"]})
            break
    return results, shapes, index


def make_rel(rng, N=8, order=4, vacuum=False, Lambda=0.0, shift=True, fluid=False, extra=None, **kw):
    """A real AurelCore on a small grid with smooth, strongly non-trivial inputs
    (non-unit lapse, non-zero shift, non-diagonal metric), frozen."""
    import aurel
    L = 1.0
    param = {"Nx": N, "Ny": N + 1, "Nz": N + 2, "xmin": -0.4, "ymin": -0.3, "zmin": -0.5,
             "dx": L / N, "dy": L / (N + 1), "dz": L / (N + 2)}
    fd = aurel.FiniteDifference(param, fd_order=order, verbose=False)
    x, y, z = fd.x, fd.y, fd.z
    a = rng.uniform(0.2, 0.6, size=12)
    ph = rng.uniform(0, 2 * np.pi, size=12)

    def w(i, s=1.0):
        return s * a[i] * np.sin(1.3 * x + 0.7 * y - 0.9 * z + ph[i])
    g = np.array([[1.5 + w(0), 0.4 + w(1, .5), -0.3 + w(2, .5)],
                  [0.4 + w(1, .5), 1.8 + w(3), 0.35 + w(4, .5)],
                  [-0.3 + w(2, .5), 0.35 + w(4, .5), 1.4 + w(5)]])
    K = np.array([[w(6), w(7), w(8)], [w(7), w(9), w(10)], [w(8), w(10), w(11)]])
    rel = aurel.AurelCore(fd, verbose=False, vacuum=vacuum, Lambda=Lambda, **kw)
    rel.data["gammadown3"] = g
    rel.data["Kdown3"] = K
    rel.data["alpha"] = 1.3 + 0.3 * np.cos(0.8 * x - 0.5 * y + 0.3 * z)
    if shift:
        b = np.array([0.3 + w(2, .3), -0.2 + w(5, .3), 0.25 + w(9, .3)])
        if shift == "components":
            # the same shift supplied the way the readers supply it: three scalar keys, `betaup3` not yet in the store
            rel.data["betax"], rel.data["betay"], rel.data["betaz"] = b[0], b[1], b[2]
        else:
            rel.data["betaup3"] = b
    if fluid:
        v = np.array([0.2 + 0.1 * np.sin(x + ph[0]), -0.15 + 0.1 * np.cos(y + ph[1]), 0.1 + 0.05 * np.sin(z + ph[2])])
        rel.data["velx"], rel.data["vely"], rel.data["velz"] = v[0], v[1], v[2]
        v2 = np.einsum("ij...,i...,j...->...", g, v, v)
        rel.data["w_lorentz"] = 1.0 / np.sqrt(1.0 - v2)
        rel.data["rho0"] = 1.0 + 0.3 * np.cos(x - y + ph[3])
        rel.data["eps"] = 0.2 + 0.1 * np.sin(z + ph[4])
        rel.data["press"] = 0.3 + 0.1 * np.cos(x + z + ph[5])
    for k, v_ in (extra or {}).items():
        rel.data[k] = v_
    rel.freeze_data()
    return watch(rel)


# ----------------------------------------------------------------------------- request-history pass (generic)
def cone_alternatives(index, keys):
    """(quantity, presence set) of every alternative recorded by the translator from the CURRENT source for every
    quantity in the dependency cone of `keys` (one entry per distinct non-empty presence set)."""
    deps, alts = {}, {}
    for i in index:
        if i.get("status") != "ok":
            continue
        deps.setdefault(i["key"], set()).update(i["deps"])
        for ps in i["present_sets"]:
            alts.setdefault(i["key"], set()).add(tuple(sorted(ps)))
    cone, todo = set(), list(keys)
    while todo:
        k = todo.pop()
        if k in cone:
            continue
        cone.add(k)
        todo += [d for d in deps.get(k, ()) if d not in cone]
    seen, out = set(), []
    for k in sorted(cone):
        for ps in sorted(alts.get(k, ())):
            if ps and ps not in seen:
                seen.add(ps)
                out.append((k, list(ps)))
    return out


def _central(a, N):
    lo, hi = (3 * N) // 8, N - (3 * N) // 8
    return a[..., lo:hi, lo:hi, lo:hi]


def history_pass(ctx, index, keys, factory, prop, Ns=(8, 16), max_alts=None):
    """For every alternative ('X already in the cache') that the translator recorded in the dependency cone of `keys`:
    request the presence set first, then `keys`, on instances built by `factory(N)` (same smooth fields at every N);
    the deviation from a fresh instance that is asked for the key alone must be round-off, or a discretisation-level
    difference that shrinks by at least 2.5x when the resolution doubles. A wrong alternative deviates by O(1) at
    both resolutions. Returns the number of violations reported."""
    import aurel
    alts = cone_alternatives(index, keys)
    if max_alts is not None and len(alts) > max_alts:
        ctx.rng.shuffle(alts)
        alts = alts[:max_alts]
    ctx.cov["history_pass_alternatives"] = len(alts)
    found = 0
    fresh = {}
    for N in Ns:
        for key in keys:
            fresh[(N, key)] = np.asarray(factory(N)[key]).copy()
    for k, ps in alts:
        dev = {}
        ok_req = True
        for N in Ns:
            rel = factory(N)
            try:
                for q in ps:
                    if q in aurel.descriptions:
                        rel[q]
            except Exception:  # noqa
                ok_req = False
                break
            for key in keys:
                f = fresh[(N, key)]
                d = _central(np.asarray(rel[key]) - f, N)
                dev[(N, key)] = (float(np.max(np.abs(d))) if d.size else 0.0, max(1.0, float(np.max(np.abs(f)))))
        if not ok_req:
            ctx.count("history_pass_unrequestable")
            continue
        for key in keys:
            ctx.count("history_pass_evaluations")
            (d1, s1), (d2, s2) = dev[(Ns[0], key)], dev[(Ns[-1], key)]
            floor = 1e-10 * s2
            if d2 <= floor or (d1 > 0 and d2 <= d1 / 2.5):
                continue
            found += 1 if ctx.violation(
                "%s after requesting %s first (alternative of %s) differs from a fresh instance by %.3g at N=%d and %.3g at N=%d: "
                "neither round-off nor a discretisation-level difference" % (key, ps, k, d1, Ns[0], d2, Ns[-1]),
                {"kind": "history", "key": key, "requested_first": ps, "alternative_of": k, "deviation": [d1, d2], "N": list(Ns)},
                {"site": key, "oracle": "history-independence", "alternative_of": k}) else 0
    return found


# ----------------------------------------------------------------------------- cached entries stay what they were
def watch(rel):
    """Make `rel` remember a checksum of every cached array and verify, after every top-level request, that no entry
    still cached (same object) has changed: an algebraic identity checked on values that were silently rewritten in
    place by a LATER request would otherwise be judged on the wrong data.  Violations are collected in rel._w_viol."""
    import hashlib
    base = rel.__class__

    def cs(v):
        a = np.ascontiguousarray(v) if isinstance(v, np.ndarray) else None
        return hashlib.sha1(a.view(np.uint8)).hexdigest() if a is not None and a.dtype != object else None

    def getitem(self, key):
        depth = self.__dict__.setdefault("_w_depth", 0)
        self.__dict__["_w_depth"] = depth + 1
        try:
            val = base.__getitem__(self, key)
        finally:
            self.__dict__["_w_depth"] = depth
        if depth == 0:
            seen = self.__dict__.setdefault("_w_seen", {})
            for k, v in list(self.data.items()):
                c = cs(v)
                old = seen.get(k)
                if old is not None and old[0] is v and c is not None and old[1] != c:
                    self.__dict__.setdefault("_w_viol", []).append((k, key))
                seen[k] = (v, c)
        return val
    rel.__class__ = type("Watched" + base.__name__, (base,), {"__getitem__": getitem})
    return rel


def report_mutations(ctx, rel, what=""):
    n = 0
    for k, key in rel.__dict__.get("_w_viol", [])[:3]:
        n += 1 if ctx.violation("the cached entry '%s' was modified in place while '%s' was being computed%s" % (k, key, what),
                                {"kind": "history", "modified": k, "during": key},
                                {"site": k, "oracle": "cached entry modified in place"}) else 0
    rel.__dict__["_w_viol"] = []
    return n
