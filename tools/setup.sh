#!/bin/sh
# Build the whole Lean library once (offline).  If some module fails to build, build every property
# module separately so that one broken property cannot keep the others from being checked; the
# check of the broken property rebuilds it and reports the broken obligations itself.
cd "$(dirname "$0")/../lean" || exit 2
if timeout 3000 lake build AurelVerif coreeval; then exit 0; fi
echo "setup: full build failed; building property modules one by one" >&2
for f in AurelVerif/Props/*.lean; do
  m="AurelVerif.Props.$(basename "$f" .lean)"
  timeout 2400 lake build "$m" >/dev/null 2>&1 || echo "setup: $m did not build (its check will report it)" >&2
done
timeout 1200 lake build coreeval >/dev/null 2>&1 || echo "setup: coreeval did not build" >&2
exit 0
