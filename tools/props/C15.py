"""C15 — the symbolic core gives the textbook tensors for any metric, flag and request order.

Tie A: Gen/SymFormulas.lean (formula lines) and Gen/SymLoops.lean (loop
structure + method table) regenerated from coresymbolic.py on every run.
Tie B: correspondence of Model/SymFill (interpreter of the extracted loops,
`__getitem__` cache with branch selection) with the real AurelCoreSymbolic:
  * isolated: every method branch on identity-tagged inputs (undefined sympy
    functions of all coordinates having exactly the true index symmetries),
    n = 2,3 (thorough 4), both flags: each stored component must be 0 / +T(q) /
    -T(q) exactly as the Lean fill says, where T(q) is the value the REAL
    formula line computes at q (obtained by running the real method with a
    `done` array that never reports done and recording its primary writes);
  * histories: request orders of the ten keys (all ordered 2-key prefixes +
    sampled tails) on tagged gdown/gup/gdet: branch taken, completion order,
    final key order of `data` and every stored array against the Lean model.
Search oracle (independent of model and code): textbook tensors from exact
rational jets of the metric at random rational points (Fractions), for random
non-diagonal coordinate-dependent metrics, both flags, several request orders.
"""
import contextlib
import itertools
from fractions import Fraction

from lib import fw
from py2lean import symformulas

MODULE = "AurelVerif.Props.C15"
THEOREMS = ["AurelVerif.C15." + t for t in (
    "line_Gamma_udd", "line_Gamma_down", "line_Riemann_uddd", "line_Riemann_down_cached",
    "line_Riemann_down_direct", "line_Ricci_down_cached", "line_Ricci_down_direct",
    "line_RicciS", "line_Einstein_down",
    "gamma_flag_independent",
    "spec_Gamma_udd_symm", "spec_Gamma_down_symm", "spec_Riemann_uddd_antisymm",
    "spec_Riemann_down_symmetries", "spec_Ricci_symm",
    "fill_lifting",
    "fill_is_identity_Gamma_udd", "fill_is_identity_Gamma_down", "fill_is_identity_Riemann_uddd",
    "fill_is_identity_Riemann_down_cached", "fill_is_identity_Riemann_down_direct",
    "fill_is_identity_Ricci_down_cached", "fill_is_identity_Ricci_down_direct",
    "fill_is_identity_Einstein_down",
    "symbolic_core_correct",
    "riemann_down_request_order_independent", "ricci_down_request_order_independent",
    "stored_flag_independent")]
FILES = ["AurelVerif/Props/C15.lean", "AurelVerif/Lemmas/SymCore.lean", "AurelVerif/Lemmas/SymFill.lean",
         "AurelVerif/Lemmas/SymTensors.lean", "AurelVerif/Spec/SymTensors.lean",
         "AurelVerif/Model/SymFill.lean", "AurelVerif/Gen/SymFormulas.lean", "AurelVerif/Gen/SymLoops.lean",
         "Driver/C15.lean"]

KEYS = ["gdown", "gup", "gdet", "Gamma_down", "Gamma_udd", "Riemann_down", "Riemann_uddd",
        "Ricci_down", "RicciS", "Einstein_down"]
RANK = {"gdown": 2, "gup": 2, "gdet": 0, "Gamma_down": 3, "Gamma_udd": 3, "Riemann_down": 4,
        "Riemann_uddd": 4, "Ricci_down": 2, "RicciS": 0, "Einstein_down": 2}
COMPUTED = ["Gamma_down", "Gamma_udd", "Riemann_down", "Riemann_uddd", "Ricci_down", "RicciS", "Einstein_down"]
# key -> key whose presence in self.data selects the `_cached` branch (refreshed from the
# regenerated method table in run(), so a changed guard is followed, not assumed)
GUARDS = {"Riemann_down": "Riemann_uddd", "Ricci_down": "Riemann_uddd"}
PROGS = ["Gamma_down", "Gamma_udd", "Riemann_down_cached", "Riemann_down_direct", "Riemann_uddd",
         "Ricci_down_cached", "Ricci_down_direct", "Einstein_down"]
COORD_NAMES = ["t", "x", "y", "z"]


def sym():
    import sympy as sp
    return sp


def core_module():
    import aurel.coresymbolic as m
    return m


# ---------------------------------------------------------------- tagged inputs
def tagged_inputs(n, coords):
    """identity-tagged stand-ins for every key: undefined functions of all
    coordinates with exactly the index symmetries the tensor has"""
    sp = sym()

    def F(name):
        return sp.Function(name)(*coords)

    def sym2(p):
        return sp.Matrix(n, n, lambda a, b: F("%s_%d%d" % (p, min(a, b), max(a, b))))

    def arr(r, f):
        flat = [f(*ix) for ix in itertools.product(range(n), repeat=r)]
        return sp.ImmutableDenseNDimArray(flat, (n,) * r)

    d = {"gdown": sym2("g"), "gup": sym2("u"), "gdet": F("detg"), "RicciS": F("Rs")}
    d["Gamma_udd"] = arr(3, lambda i, j, k: F("Gu_%d%d%d" % (i, min(j, k), max(j, k))))
    d["Gamma_down"] = arr(3, lambda i, j, k: F("Gd_%d%d%d" % (i, min(j, k), max(j, k))))
    d["Riemann_uddd"] = arr(4, lambda i, j, k, h: 0 if k == h else
                            (F("Ru_%d%d%d%d" % (i, j, k, h)) if k < h else -F("Ru_%d%d%d%d" % (i, j, h, k))))
    d["Ricci_down"] = arr(2, lambda i, j: F("Ric_%d%d" % (min(i, j), max(i, j))))

    def rd(i, j, k, h):
        if i == j or k == h:
            return 0
        sgn = (1 if i < j else -1) * (1 if k < h else -1)
        a, b = (min(i, j), max(i, j)), (min(k, h), max(k, h))
        a, b = min(a, b), max(a, b)
        return sgn * F("Rd_%d%d%d%d" % (a + b))
    d["Riemann_down"] = arr(4, rd)
    d["Einstein_down"] = arr(2, lambda i, j: F("Ein_%d%d" % (min(i, j), max(i, j))))
    return d


# ------------------------------------------- the value the real formula line computes
class _RecArr:
    def __init__(self, log, *a):
        sp = sym()
        self.arr = sp.MutableDenseNDimArray(*a)
        self.log = log

    def __getitem__(self, ix):
        return self.arr[ix]

    def __setitem__(self, ix, v):
        self.log.append(("w", tuple(ix) if isinstance(ix, tuple) else (ix,), v))
        self.arr[ix] = v


class _NeverDone:
    def __init__(self, log):
        self.log = log

    def __getitem__(self, ix):
        ix = ix if isinstance(ix, tuple) else (ix,)
        if all(isinstance(a, int) for a in ix):
            self.log.append(("c", tuple(ix)))
        return 0

    def __setitem__(self, ix, v):
        pass


@contextlib.contextmanager
def never_done(log):
    """inside: the module's `np.zeros` yields a `done` array that never reports
    done and `sp.MutableDenseNDimArray` records writes; everything else is the
    real numpy / sympy"""
    import numpy
    sp = sym()
    mod = core_module()

    class SpProxy:
        def __getattr__(self, name):
            return getattr(sp, name)

        def MutableDenseNDimArray(self, *a):
            return _RecArr(log, *a)

    class NpProxy:
        def __getattr__(self, name):
            return getattr(numpy, name)

        def zeros(self, *a, **k):
            return _NeverDone(log)

    old = mod.sp, mod.np
    mod.sp, mod.np = SpProxy(), NpProxy()
    try:
        yield
    finally:
        mod.sp, mod.np = old


def freeze(v):
    """hashable structural fingerprint of a stored value"""
    sp = sym()
    if hasattr(v, "shape"):
        return (tuple(v.shape), tuple(sp.flatten(v.tolist())))
    return v


_CACHE = {}


_USED = {}


def checked_fill(key, had, coords, flag, data, stored, model, rng):
    """compare one stored array with the Lean fill; memoised on the exact
    inputs the real method reads (the tagged inputs are deterministic, so
    histories repeat them)"""
    n = len(coords)
    used = _USED.get((key, had))
    ck = None
    if used is not None and all(k in data for k in used):
        ck = (key, had, n, flag, tuple((k, freeze(data[k])) for k in sorted(used)), freeze(stored))
        if ck in _CACHE:
            return _CACHE[ck]
    seen = set()
    T, anom = line_oracle(key, coords, flag, data, seen)
    _USED[(key, had)] = set(seen) | _USED.get((key, had), set())
    res = anom[0] if anom else compare_fill(stored, T, model, n, RANK[key], rng)
    used = _USED[(key, had)]
    if all(k in data for k in used):
        _CACHE[(key, had, n, flag, tuple((k, freeze(data[k])) for k in sorted(used)), freeze(stored))] = res
    return res


def line_oracle(key, coords, flag, data, seen=None):
    """{q: value the real formula line of `key` computes at index tuple q}, by
    running the real method (on the given `data`) with a never-done `done`.
    Returns (T, anomalies); `seen` collects the keys the method looks up."""
    mod = core_module()
    base = mod.AurelCoreSymbolic

    class Logged(base):
        def __getitem__(self, k):
            if seen is not None:
                seen.add(k)
            return base.__getitem__(self, k)
    inst = Logged(list(coords), verbose=False, simplify=flag)
    inst.data = dict(data)
    log = []
    with never_done(log):
        getattr(mod.AurelCoreSymbolic, key)(inst)
    T, pending, anomalies = {}, None, []
    for ev in log:
        if ev[0] == "c":
            pending = ev[1]
        elif pending is not None:
            if ev[1] != pending:
                anomalies.append("first write after done%s goes to %s" % (pending, ev[1]))
            T[pending] = ev[2]
            pending = None
    return T, anomalies


def exact(e):
    """Floats (0.5, 0.25, ...) -> exact rationals"""
    sp = sym()
    e = sp.sympify(e)
    fl = e.atoms(sp.Float)
    return e.xreplace({f: sp.Rational(f) for f in fl}) if fl else e


def same_value(a, b, rng):
    """a == b as elements of the field of expressions: structural equality, or
    equality at two random rational assignments of all atoms (undefined
    functions, their derivatives, symbols)"""
    sp = sym()
    a, b = sp.sympify(a), sp.sympify(b)
    if a == b:
        return True
    d = exact(a - b)
    from sympy.core.function import AppliedUndef
    atoms = sorted(d.atoms(sp.Derivative) | d.atoms(AppliedUndef) | d.atoms(sp.Symbol), key=str)
    for _ in range(2):
        rule = {at: sp.Rational(rng.randint(-9, 9), rng.randint(1, 7)) for at in atoms}
        v = d.xreplace(rule)
        v = sp.nsimplify(v, rational=True) if v.atoms(sp.Float) else v
        if v != 0:
            try:
                if abs(float(v)) > 1e-9:
                    return False
            except TypeError:
                return False
    return True


def parse_fill(line, n, r):
    assert line.startswith("ok "), line
    toks = line[3:].split(" ")
    assert len(toks) == n ** r, (len(toks), n, r)
    out = {}
    for p, tok in zip(itertools.product(range(n), repeat=r), toks):
        if tok == "0":
            out[p] = None
        else:
            out[p] = (tok[0] == "-", tuple(int(x) for x in tok[1:].split(".")))
    return out


def compare_fill(stored, T, model, n, r, rng):
    """None if every stored component is what the Lean fill says, else text"""
    sp = sym()
    for p in itertools.product(range(n), repeat=r):
        s = sp.sympify(stored[p])
        m = model[p]
        if m is None:
            if s != 0:
                return "component %s: model 0, code stores %s" % (p, str(s)[:80])
        else:
            neg, q = m
            if q not in T:
                return "component %s: model %sT%s but the real line is never evaluated there" % (p, "-" if neg else "+", q)
            want = -T[q] if neg else T[q]
            if not same_value(s, want, rng):
                return "component %s: model %sT%s, code stores something else (%s)" % (p, "-" if neg else "+", q, str(s)[:60])
    return None


def branch_name(key, had):
    return key + (("_cached" if had else "_direct") if key in GUARDS else "")


def guard_present(key, data):
    return GUARDS.get(key, "Riemann_uddd") in data


# ------------------------------------------------------------------ correspondence
def corr_isolated(ctx, fills):
    """every method branch on tagged inputs"""
    sp = sym()
    mod = core_module()
    bad, ncase = [], 0
    for n in ((2, 3, 4) if ctx.tier == "thorough" else (2, 3)):
        coords = sp.symbols(COORD_NAMES[:n])
        tags = tagged_inputs(n, coords)
        for prog in PROGS:
            key = prog.replace("_cached", "").replace("_direct", "")
            for flag in (False, True):
                if flag and RANK[key] == 4 and n >= (4 if ctx.tier == "thorough" else 3):
                    continue    # sympy.simplify on 81 / 256 tagged rank-4 components is too slow
                data = {k: v for k, v in tags.items() if k != key}
                if prog.endswith("_direct"):
                    data.pop(GUARDS[key], None)
                inst = mod.AurelCoreSymbolic(list(coords), verbose=False, simplify=flag)
                inst.data = dict(data)
                stored = getattr(mod.AurelCoreSymbolic, key)(inst)
                d = checked_fill(key, guard_present(key, data), coords, flag, data, stored, fills[(prog, n)], ctx.rng)
                ncase += 1
                if d:
                    bad.append("%s n=%d simplify=%s: %s" % (prog, n, flag, d))
    ctx.cov["correspondence_isolated_cases"] = ncase
    ctx.obligation("correspondence: Model/SymFill fill of every method branch vs coresymbolic.py on tagged inputs (%d cases)" % ncase,
                   not bad, "; ".join(bad[:4]), kind="correspondence")


def observed_class(rec):
    mod = core_module()
    base = mod.AurelCoreSymbolic

    class Obs(base):
        pass

    def mk(key):
        orig = getattr(base, key)

        def f(self):
            had = guard_present(key, self.data)
            out = orig(self)
            rec.append((key, had, out, dict(self.data)))
            return out
        f.__name__ = key
        return f
    for key in KEYS:
        setattr(Obs, key, mk(key))
    return Obs


def history_orders(ctx, npairs, nrandom, maxtail=8):
    """request orders: ordered 2-key prefixes (all 90, or a sample) each followed
    by a random tail, plus full random permutations"""
    rng = ctx.rng
    pairs = [(a, b) for a in KEYS for b in KEYS if a != b]
    if npairs < len(pairs):
        must = [("Riemann_down", "Riemann_uddd"), ("Riemann_uddd", "Riemann_down"),
                ("Ricci_down", "Riemann_uddd"), ("Riemann_uddd", "Ricci_down"),
                ("Einstein_down", "Riemann_uddd"), ("RicciS", "Riemann_down")]
        rest = [p for p in pairs if p not in must]
        rng.shuffle(rest)
        pairs = (must + rest)[:max(npairs, 0)]
    out = []
    for a, b in pairs:
        tail = [k for k in KEYS if k not in (a, b)]
        rng.shuffle(tail)
        out.append([a, b] + tail[:rng.randint(0, min(maxtail, len(tail)))])
    for _ in range(nrandom):
        p = list(KEYS)
        rng.shuffle(p)
        out.append(p)
    return out


def run_history(n, flag, order, prepopulate):
    """run the real class; returns (rec, final key order)"""
    sp = sym()
    rec = []
    Obs = observed_class(rec)
    coords = sp.symbols(COORD_NAMES[:n])
    inst = Obs(list(coords), verbose=False, simplify=flag)
    if prepopulate:
        tags = tagged_inputs(n, coords)
        inst.data = {k: tags[k] for k in ("gdown", "gup", "gdet")}
    for k in order:
        inst[k]
    return coords, rec, list(inst.data.keys())


def corr_histories(ctx, fills, plan):
    """plan: list of (n, flag, order, prepopulate); Lean `order` lines are run in one batch"""
    lines = []
    for (n, flag, order, pre) in plan:
        lines.append("order %s %s" % ("gdown,gup,gdet" if pre else "-", ",".join(order)))
    outs = ctx.run_driver("Driver/C15.lean", lines)
    bad, nfill, branches = [], 0, {}
    for (n, flag, order, pre), out in zip(plan, outs):
        tag = "n=%d simplify=%s %s order=%s" % (n, flag, "tagged" if pre else "default-metric", ",".join(order))
        coords, rec, keys = run_history(n, flag, order, pre)
        assert out.startswith("ok cache="), out
        mcache, mlog = out[len("ok cache="):].split(" log=")
        mcache = [k for k in mcache.split(",") if k]
        mlog = [tuple(x.split(":")) for x in mlog.split(",") if x]
        plog = [(key, branch_name(key, had)) for (key, had, _, _) in rec]
        if keys != mcache:
            bad.append("%s: data keys %s, model %s" % (tag, keys, mcache))
            continue
        if plog != mlog:
            bad.append("%s: completion log %s, model %s" % (tag, plog, mlog))
            continue
        for (key, had, stored, snap) in rec:
            b = branch_name(key, had)
            branches[b] = branches.get(b, 0) + 1
            if b not in PROGS:
                continue
            data = dict(snap)
            if not had and key in GUARDS:
                data.pop(GUARDS[key], None)
            d = checked_fill(key, had, coords, flag, data, stored, fills[(b, n)], ctx.rng)
            nfill += 1
            if d:
                bad.append("%s: %s: %s" % (tag, b, d))
                break
    ctx.log("histories done")
    ctx.cov["correspondence_histories"] = len(plan)
    ctx.cov["correspondence_history_arrays_checked"] = nfill
    ctx.cov["correspondence_branches_hit"] = branches
    ctx.sample({"history_case": lines[0], "model_output": outs[0][:200]})
    ctx.obligation("correspondence: request histories (branch taken, completion order, data key order, every stored array) vs Model/SymFill (%d histories, %d arrays)"
                   % (len(plan), nfill), not bad, "; ".join(bad[:4]), kind="correspondence")


def correspondence(ctx):
    progs_n = [(p, n) for p in PROGS for n in (2, 3, 4)]
    try:
        names = ctx.run_driver("Driver/C15.lean", ["progs"])[0].split(" ")[1:]
        if sorted(names) != sorted(PROGS):
            ctx.obligation("correspondence:driver", False, "method branches with fill loops changed: %s" % names,
                           kind="correspondence")
            return
        outs = ctx.run_driver("Driver/C15.lean", ["fill %s %d" % pn for pn in progs_n])
    except Exception as ex:  # noqa
        ctx.obligation("correspondence:driver", False, repr(ex), kind="correspondence")
        return
    fills = {}
    try:
        for (p, n), out in zip(progs_n, outs):
            key = p.replace("_cached", "").replace("_direct", "")
            fills[(p, n)] = parse_fill(out, n, RANK[key])
    except AssertionError as ex:
        ctx.obligation("correspondence:driver", False, "unexpected driver output %r" % (ex,), kind="correspondence")
        return
    ctx.sample({"driver_line": "fill Riemann_uddd 2", "model_output": outs[progs_n.index(("Riemann_uddd", 2))]})
    try:
        corr_isolated(ctx, fills)
    except Exception as ex:  # noqa
        ctx.obligation("correspondence: isolated", False, "harness failed: %r" % ex, kind="correspondence")
    ctx.log("isolated correspondence done")
    thorough = ctx.tier == "thorough"
    plan = []
    for order in history_orders(ctx, 90, 10 if thorough else 4):
        plan.append((2, False, order, True))
    # sympy.simplify on tagged (undefined-function) expressions costs 5-15 s per history
    # (the flag never changes the loop structure; all 8 branches are covered with simplify=True above)
    for order in history_orders(ctx, 12 if thorough else 2, 1 if thorough else 0, maxtail=8 if thorough else 0):
        plan.append((2, True, order, True))
    for order in history_orders(ctx, 90 if thorough else 8, 2):
        plan.append((3, False, order, True))
    if thorough:
        for order in history_orders(ctx, 6, 1):
            plan.append((4, False, order, True))
    for n in (3, 4):        # default metric: gdown / gup / gdet computed by the class itself
        for flag in (False, True):
            for order in history_orders(ctx, 3, 1):
                plan.append((n, flag, order, False))
    try:
        corr_histories(ctx, fills, plan)
    except Exception as ex:  # noqa
        ctx.obligation("correspondence: histories", False, "harness failed: %r" % ex, kind="correspondence")


# ------------------------------------------------------------------ search oracle
def fr(x):
    sp = sym()
    x = sp.nsimplify(x, rational=True) if sp.sympify(x).atoms(sp.Float) else sp.sympify(x)
    return Fraction(int(x.p), int(x.q))


def textbook_at(g, coords, pt):
    """all ten quantities at the point `pt` from the exact 2-jet of the metric
    there (Fractions only; sympy is used to differentiate the metric entries)"""
    sp = sym()
    n = len(coords)
    R = range(n)

    def ev(e):
        return fr(sp.sympify(e).subs(pt))
    G = [[ev(g[a, b]) for b in R] for a in R]
    dG = [[[ev(sp.diff(g[a, b], coords[c])) for b in R] for a in R] for c in R]
    ddG = [[[[ev(sp.diff(g[a, b], coords[c], coords[d])) for b in R] for a in R] for d in R] for c in R]
    M = sp.Matrix(n, n, lambda a, b: sp.Rational(G[a][b].numerator, G[a][b].denominator))
    Mi = M.inv()
    U = [[fr(Mi[a, b]) for b in R] for a in R]
    det = fr(M.det())
    # dU_c = - U dG_c U
    dU = [[[-sum(U[a][p] * dG[c][p][q] * U[q][b] for p in R for q in R) for b in R] for a in R] for c in R]
    half = Fraction(1, 2)

    def c1(m, j, k):
        return half * (dG[j][m][k] + dG[k][m][j] - dG[m][j][k])

    def dc1(c, m, j, k):
        return half * (ddG[c][j][m][k] + ddG[c][k][m][j] - ddG[c][m][j][k])
    Gu = [[[sum(U[i][m] * c1(m, j, k) for m in R) for k in R] for j in R] for i in R]
    Gd = [[[c1(i, j, k) for k in R] for j in R] for i in R]
    dGu = [[[[sum(dU[c][i][m] * c1(m, j, k) + U[i][m] * dc1(c, m, j, k) for m in R)
              for k in R] for j in R] for i in R] for c in R]
    Ru = [[[[dGu[k][i][j][h] - dGu[h][i][j][k]
             + sum(Gu[i][k][m] * Gu[m][j][h] - Gu[i][h][m] * Gu[m][j][k] for m in R)
             for h in R] for k in R] for j in R] for i in R]
    Rd = [[[[sum(G[i][m] * Ru[m][j][k][h] for m in R) for h in R] for k in R] for j in R] for i in R]
    Ric = [[sum(Ru[k][i][k][j] for k in R) for j in R] for i in R]
    Rs = sum(U[i][j] * Ric[i][j] for i in R for j in R)
    Ein = [[Ric[i][j] - half * G[i][j] * Rs for j in R] for i in R]
    return {"gdown": G, "gup": U, "gdet": det, "Gamma_udd": Gu, "Gamma_down": Gd, "Riemann_uddd": Ru,
            "Riemann_down": Rd, "Ricci_down": Ric, "RicciS": Rs, "Einstein_down": Ein}


def get_ref(ref, ix):
    for a in ix:
        ref = ref[a]
    return ref


def random_metric(rng, n, coords, nshear, conformal, linear=False):
    """A^T eta A with A a product of polynomial shears (det = ±1, polynomial
    inverse); optionally one coordinate-dependent diagonal factor"""
    sp = sym()
    A = sp.eye(n)
    for _ in range(nshear):
        a, b = rng.sample(range(n), 2)
        c, d = rng.choice(coords), rng.choice(coords)
        f = rng.choice([c, 2 * c, c + d, 1 + c] if linear else [c, c * d, c ** 2, 2 * c, c + d, 1 + c])
        E = sp.eye(n)
        E[a, b] = f
        A = A * E
    diag = [rng.choice([-1, 1])] + [1] * (n - 1)
    if conformal:
        c = rng.choice(coords)
        diag[rng.randrange(n)] *= rng.choice([1 + c ** 2, 2 + c, 1 + c ** 2 + rng.choice(coords) ** 2])
    return (A.T * sp.diag(*diag) * A).applyfunc(sp.expand)


def corpus_metrics():
    """past failures: (name, coord names, metric entries, point)"""
    return [
        ("paraboloid (R_xyxy = 36/49 at (1/2,1/3) in both cache states; direct Riemann_down defect 3f8b49d)",
         ["x", "y"], [["1+x**2", "x*y"], ["x*y", "1+y**2"]], {"x": "1/2", "y": "1/3"}),
        ("diag(-1,t^2) (Christoffel factor 1/2 with simplify=False, 7535a87)",
         ["t", "x"], [["-1", "0"], ["0", "t**2"]], {"t": "3/2", "x": "1/5"}),
        ("sheared 2-D (components with coinciding first indices, d9f1a33)",
         ["x", "y"], [["1", "x*y"], ["x*y", "1+x**2*y**2+y**2"]], {"x": "2/3", "y": "-1/2"}),
    ]


SEARCH_ORDERS = [
    ["gdown", "gup", "gdet", "Gamma_udd", "Gamma_down", "Riemann_uddd", "Riemann_down", "Ricci_down", "RicciS", "Einstein_down"],
    ["Riemann_down", "Ricci_down", "Riemann_uddd", "Einstein_down", "RicciS", "Gamma_down", "Gamma_udd", "gdet", "gup", "gdown"],
    ["Einstein_down", "Riemann_uddd", "Riemann_down", "Ricci_down", "RicciS", "Gamma_udd", "Gamma_down", "gup", "gdet", "gdown"],
    ["Ricci_down", "Riemann_down", "Gamma_down", "Riemann_uddd", "Einstein_down", "RicciS", "gdet", "Gamma_udd", "gup", "gdown"],
]


def check_case(ctx, name, cnames, entries, flag, order, pt_s, report=True):
    """run the real class on one metric / flag / request order and compare all
    ten keys, every component, with the textbook values at the point.
    Returns the list of failures (dicts)."""
    sp = sym()
    mod = core_module()
    coords = [sp.Symbol(c) for c in cnames]
    n = len(coords)
    g = sp.Matrix(n, n, lambda a, b: sp.sympify(entries[a][b], locals={c: s for c, s in zip(cnames, coords)}))
    pt = {s: sp.Rational(pt_s[c]) for c, s in zip(cnames, coords)}
    ref = textbook_at(g, coords, pt)
    inst = mod.AurelCoreSymbolic(list(coords), verbose=False, simplify=flag)
    inst.data["gdown"] = g
    had = {}
    for k in order:
        if k in GUARDS and k not in inst.data:
            had[k] = guard_present(k, inst.data)
        inst[k]
    fails = []
    for k in KEYS:
        if k not in inst.data:
            continue
        val = inst.data[k]
        r = RANK[k]
        site = branch_name(k, had.get(k, False)) if k in had else k
        for ix in itertools.product(range(n), repeat=r):
            e = val[ix] if r else val
            want = get_ref(ref[k], ix)
            got_e = exact(e).subs(pt)
            try:
                got = fr(got_e)
                ok = (got == want) or abs(float(got) - float(want)) <= 1e-9 * max(1.0, abs(float(want)))
                if got != want and ok:
                    ctx.count("oracle_tolerance_matches")
            except Exception:  # noqa   (not a number: e.g. zoo / unevaluated)
                got, ok = str(got_e)[:60], False
            ctx.count("oracle_components")
            if not ok:
                fails.append({"key": k, "site": site, "index": list(ix), "observed": str(got), "expected": str(want)})
        if fails and fails[-1]["key"] == k and len(fails) > 40:
            break
    if report and fails:
        by_site = {}
        for f in fails:
            by_site.setdefault(f["site"], []).append(f)
        seen = ctx.cov.setdefault("violating_sites", [])
        for site, fs in by_site.items():
            f0 = fs[0]
            tag = "%s simplify=%s" % (site, flag)
            if tag in seen or len(ctx.violations) >= 4:   # one witness per call site and flag value, at most 4
                continue
            seen.append(tag)
            ctx.violation(
                "%s%s of metric %s at %s with simplify=%s after requests %s: code %s, textbook %s (%d component(s) of this key differ)"
                % (f0["key"], f0["index"], entries, pt_s, flag, order[:order.index(f0["key"]) + 1], f0["observed"], f0["expected"], len(fs)),
                {"kind": "input", "metric_name": name, "coords": cnames, "metric": entries, "simplify": flag,
                 "order": order, "point": pt_s, "key": f0["key"], "index": f0["index"],
                 "observed": f0["observed"], "expected": f0["expected"], "n_bad_components": len(fs)},
                {"site": site, "simplify": flag})
    return fails


def search(ctx, deep):
    sp = sym()
    rng = ctx.rng
    thorough = ctx.tier == "thorough"
    found = 0
    cases = 0
    dist = {}

    def note(n, flag):
        k = "n=%d simplify=%s" % (n, flag)
        dist[k] = dist.get(k, 0) + 1
    # corpus first: both flags, the cache states that matter
    for (name, cn, ent, pt) in corpus_metrics():
        if len(ctx.violations) >= 4:
            break
        for flag in (False, True):
            for order in (SEARCH_ORDERS[:3] if (thorough or not flag) else SEARCH_ORDERS[:2]):
                found += len(check_case(ctx, name, cn, ent, flag, order, pt))
                cases += 1
                note(len(cn), flag)
    # random metrics
    plan = []
    plan += [(2, False)] * (6 if thorough else 3) + [(2, True)] * (4 if thorough else 1)
    plan += [(3, False)] * (6 if thorough else 3) + [(3, True)] * (2 if thorough else 1)
    if thorough or deep:
        plan += [(4, False)] * (3 if thorough else 1)
    if thorough:
        plan += [(4, True)]
    for (n, flag) in plan:
        if len(ctx.violations) >= 4:      # enough concrete witnesses
            break
        cn = COORD_NAMES[:n]
        coords = [sp.Symbol(c) for c in cn]
        while True:
            # simplify=True: polynomial metrics with polynomial inverse only (sympy.simplify on
            # rational functions takes minutes); rational inverses are covered by the corpus
            g = random_metric(rng, n, coords, nshear=(2 if flag else rng.randint(2, 3)),
                              conformal=(not flag and (n == 2 or rng.random() < 0.5)), linear=flag)
            offdiag = any(g[a, b] != 0 for a in range(n) for b in range(n) if a != b)
            pt = {c: "%d/%d" % (rng.choice([-5, -4, -3, -2, -1, 1, 2, 3, 4, 5]), rng.randint(1, 4)) for c in cn}
            det_at = g.det().subs({s: sp.Rational(pt[c]) for c, s in zip(cn, coords)})
            if offdiag and det_at != 0:
                break
        ent = [[str(g[a, b]) for b in range(n)] for a in range(n)]
        orders = [SEARCH_ORDERS[0], SEARCH_ORDERS[1]] if not flag or n == 2 else [rng.choice(SEARCH_ORDERS[:2])]
        if not flag:
            p = list(KEYS)
            rng.shuffle(p)
            orders = orders + [p, SEARCH_ORDERS[2]]
        for order in orders:
            found += len(check_case(ctx, "random", cn, ent, flag, order, pt))
            cases += 1
            note(n, flag)
        if len(ctx.violations) >= 4:      # enough concrete witnesses
            break
        if len(ctx.samples) < 10:
            ctx.sample({"oracle_metric": ent, "point": pt, "simplify": flag})
    ctx.cov["oracle_cases"] = cases
    ctx.cov["oracle_distribution"] = dist
    return found


def run(ctx):
    ctx.trusted += ["Lean 4.33 kernel; axioms propext, Classical.choice, Quot.sound",
                    "py2lean/symformulas.py (AST -> formula lines + loop structure; refuses anything unrecognised)",
                    "Model/SymFill.lean is hand-written; tied to AurelCoreSymbolic by the tagged-input and history correspondence",
                    "sympy: Matrix.inv / Matrix.det (gup, gdet delegated), sp.diff is a derivation with commuting partials, arithmetic of expressions is a field of characteristic 0",
                    "sp.simplify returns an expression equal to its argument (hypothesis `∀ x, S x = x` of every theorem)"]
    ctx.assumptions += ["0.5 is modelled as the exact rational 1/2 (sympy Float rounding is not modelled)",
                        "fill_is_identity is decided for n = 2, 3, 4 (the property's range); formula-line theorems hold for every n",
                        "the derivation hypotheses are shown consistent in Lean only by the zero derivation; real partial derivatives are exercised by the sympy oracle"]
    # 1. regenerate
    try:
        changed, info = symformulas.regen()
        ctx.obligation("py2lean:symformulas", True, "regenerated (changed=%s)" % changed, kind="translation")
        for k, brs in info["methods"].items():
            for b in brs:
                if b["guard"]:
                    GUARDS[k] = b["guard"][1]
        ctx.sample({"generated_line": "Riemann_down_direct", "lets": info["lines"]["Riemann_down_direct"]["lets"]})
        ctx.sample({"generated_loops": "Riemann_uddd", "loopvars": info["progs"]["Riemann_uddd"]["loopvars"],
                    "prog": info["progs"]["Riemann_uddd"]["prog"]})
    except Exception as ex:  # noqa
        ctx.obligation("py2lean:symformulas", False, "translation failed: %r" % ex, kind="translation")
    # 2-3. prove + audit
    if not ctx.broken():
        ctx.prove(MODULE, THEOREMS)
        ctx.forbidden_scan(FILES)
        if ctx.tier == "thorough":
            ctx.leanchecker([MODULE])
    ctx.log("proofs done")
    # 4. correspondence
    if not [o for o in ctx.broken() if o["kind"] == "translation"]:
        correspondence(ctx)
    ctx.log("correspondence done")
    # 5/6. search (sentinel always; deeper when something is broken)
    search(ctx, deep=bool(ctx.broken()))
    ctx.log("search done")


def replay(ctx, obj):
    if obj.get("kind") != "input":
        print("replay: nothing to execute for kind=%s (%s)" % (obj.get("kind"), obj.get("what")))
        return 0
    fails = check_case(ctx, obj.get("metric_name", "replay"), obj["coords"], obj["metric"], obj["simplify"],
                       obj["order"], obj["point"], report=False)
    mine = [f for f in fails if f["key"] == obj["key"]]
    for f in fails[:5]:
        print("replay: %s%s observed %s expected %s" % (f["key"], f["index"], f["observed"], f["expected"]))
    print("replay: %d failing component(s) now (%d of key %s)" % (len(fails), len(mine), obj["key"]))
    return 1 if fails else 0


MANIFEST = {
    "category": "proof",
    "technique": "Lean 4 theorems about formula lines and loop structure regenerated from the AST of coresymbolic.py: spec-match of every line over an abstract differential field (all n), Riemann/Ricci index symmetries proven from the derivation axioms, and a generic naturality lemma lifting a kernel-decided symbolic fill check (n = 2,3,4) to every oracle with the true symmetries",
    "text": "Proof for every metric (symmetric, invertible, any coordinate dependence), both values of simplify and both cache states of Riemann_uddd, n = 2,3,4: each formula line of AurelCoreSymbolic (Christoffel symbols of both kinds, Riemann uddd, Riemann fully lowered in its cached and direct branches, Ricci in its cached and direct branches, Ricci scalar, Einstein) is regenerated from the source and proven equal to the textbook expression for symbolic dimension n over any differential field of characteristic 0; the textbook tensors are proven to have exactly the index symmetries the fill loops exploit; the loop nests with their skip conditions, done arrays and signed partner assignments are extracted from the AST, executed by a hand-written interpreter, and proven (kernel-evaluated finite check + naturality lemma) to reproduce every oracle having only those symmetries; composed: what the class stores for each key equals the textbook tensor independently of the simplify flag and of the request order. The interpreter is tied to the real class by index-by-index correspondence on identity-tagged inputs and on request histories; an independent jet-based rational oracle checks the real code on random non-diagonal metrics.",
    "note": "Trusted: Lean kernel + propext/Classical.choice/Quot.sound; the AST translator; the hand-written fill interpreter (validated by correspondence: 8 branches x n=2,3(,4) x 2 flags on tagged inputs; >100 request histories incl. all 90 ordered 2-key prefixes); sympy's inv/det/diff and the assumption that sp.simplify preserves the value of an expression; Float 0.5 treated as exact 1/2. gup and gdet are delegated to sympy and only checked by the oracle. fill_is_identity is decided for n = 2,3,4 only.",
}
