"""C15 — the symbolic core gives the textbook tensors for any metric, flag and request order.

Tie A: Gen/SymFormulas.lean (formula lines) and Gen/SymLoops.lean (loop
structure + method table) regenerated from coresymbolic.py on every run.
Tie B: correspondence of Model/SymFill (interpreter of the extracted loops,
`__getitem__` cache with branch selection) with the real AurelCoreSymbolic:
  * isolated: every method branch on identity-tagged inputs (undefined sympy
    functions of all coordinates having exactly the true index symmetries),
    n = 2,3 (thorough 4), both flags: each stored component must be 0 / +T(q) /
    -T(q) exactly as the Lean fill says, where T(q) is the value the REAL
    formula line computes at q (obtained by running the real method with a
    `done` array that never reports done and recording its primary writes);
  * histories: request orders of the ten keys (all ordered 2-key prefixes +
    sampled tails) on tagged gdown/gup/gdet: branch taken, completion order,
    final key order of `data` and every stored array against the Lean model.
  * the same histories on the C01-style table model (Model/SymCache.lean, the
    model of the all-histories theorems of Props/C15b.lean): the PROVENANCE of
    every returned value - branch(arg,..) with the arguments in the real look-up
    order - must agree;
  * interleaved objects: several live objects of different dimension / flag /
    metric in one process with randomly interleaved requests, each compared
    with the model of its own history (state shared between instances).
Search oracle (independent of model and code): textbook tensors from exact
rational jets of the metric at random rational points (Fractions), for random
non-diagonal coordinate-dependent metrics, both flags, several request orders,
also on interleaved live objects; gdown*gup = 1 and gdet = Leibniz determinant
are checked SYMBOLICALLY on every metric (the only facts about sympy's inv/det
the theorems use), including non-diagonal 4-D metrics.
"""
import ast
import contextlib
import itertools
import os
import re
from fractions import Fraction

from lib import fw
from py2lean import symformulas

MODULE = "AurelVerif.Props.C15"
THEOREMS = ["AurelVerif.C15." + t for t in (
    "line_Gamma_udd", "line_Gamma_down", "line_Riemann_uddd", "line_Riemann_down_cached",
    "line_Riemann_down_direct", "line_Ricci_down_cached", "line_Ricci_down_direct",
    "line_RicciS", "line_Einstein_down",
    "gamma_flag_independent",
    "spec_Gamma_udd_symm", "spec_Gamma_down_symm", "spec_Riemann_uddd_antisymm",
    "spec_Riemann_down_symmetries", "spec_Ricci_symm",
    "fill_lifting",
    "fill_is_identity_Gamma_udd", "fill_is_identity_Gamma_down", "fill_is_identity_Riemann_uddd",
    "fill_is_identity_Riemann_down_cached", "fill_is_identity_Riemann_down_direct",
    "fill_is_identity_Ricci_down_cached", "fill_is_identity_Ricci_down_direct",
    "fill_is_identity_Einstein_down",
    "symbolic_core_correct",
    "riemann_down_request_order_independent", "ricci_down_request_order_independent",
    "stored_flag_independent")]
MODULE_B = "AurelVerif.Props.C15b"
THEOREMS_B = ["AurelVerif.C15." + t for t in (
    # A. fill loops, every dimension n
    "fill_all_n_Gamma_udd", "fill_all_n_Gamma_down", "fill_all_n_Riemann_uddd",
    "fill_all_n_Riemann_down_cached", "fill_all_n_Riemann_down_direct",
    "fill_all_n_Ricci_down_cached", "fill_all_n_Ricci_down_direct", "fill_all_n_Einstein_down",
    "fill_all_n_any_values", "symbolic_core_correct_all_n",
    # B. gup / gdet from the single equation gdown * gup = 1
    "metric_of_right_inverse", "gup_determined", "gdet_identities", "gdet_jacobi",
    "symbolic_core_correct_of_right_inverse",
    # C. all request histories
    "branch_coherence", "request_history_transparent", "request_order_and_flag_independent",
    "history_never_raises", "every_history_returns_textbook", "symbolic_no_recursion_no_keyerror",
    "table_numbering",
    # D. the simplify flag
    "lines_flag_independent", "gamma_half_outside_flag", "symbolic_core_correct_unsimplified",
    "stored_flag_independent_all_n")]
FILES = ["AurelVerif/Props/C15b.lean", "AurelVerif/Lemmas/C15FillHoare.lean", "AurelVerif/Lemmas/C15FillAll.lean",
         "AurelVerif/Lemmas/C15CoreAll.lean", "AurelVerif/Lemmas/C15Inverse.lean", "AurelVerif/Lemmas/C15History.lean",
         "AurelVerif/Lemmas/C15Flag.lean", "AurelVerif/Lemmas/C15Jacobi.lean", "AurelVerif/Model/SymCache.lean",
         "AurelVerif/Props/C15.lean", "AurelVerif/Lemmas/SymCore.lean", "AurelVerif/Lemmas/SymFill.lean",
         "AurelVerif/Lemmas/SymTensors.lean", "AurelVerif/Spec/SymTensors.lean",
         "AurelVerif/Model/SymFill.lean", "AurelVerif/Gen/SymFormulas.lean", "AurelVerif/Gen/SymLoops.lean",
         "Driver/C15.lean"]

KEYS = ["gdown", "gup", "gdet", "Gamma_down", "Gamma_udd", "Riemann_down", "Riemann_uddd",
        "Ricci_down", "RicciS", "Einstein_down"]
RANK = {"gdown": 2, "gup": 2, "gdet": 0, "Gamma_down": 3, "Gamma_udd": 3, "Riemann_down": 4,
        "Riemann_uddd": 4, "Ricci_down": 2, "RicciS": 0, "Einstein_down": 2}
COMPUTED = ["Gamma_down", "Gamma_udd", "Riemann_down", "Riemann_uddd", "Ricci_down", "RicciS", "Einstein_down"]
# key -> key whose presence in self.data selects the `_cached` branch (refreshed from the
# regenerated method table in run(), so a changed guard is followed, not assumed)
GUARDS = {"Riemann_down": "Riemann_uddd", "Ricci_down": "Riemann_uddd"}
PROGS = ["Gamma_down", "Gamma_udd", "Riemann_down_cached", "Riemann_down_direct", "Riemann_uddd",
         "Ricci_down_cached", "Ricci_down_direct", "Einstein_down"]
COORD_NAMES = ["t", "x", "y", "z"]


def sym():
    import sympy as sp
    return sp


def core_module():
    import aurel.coresymbolic as m
    return m


# ---------------------------------------------------------------- tagged inputs
def tagged_inputs(n, coords):
    """identity-tagged stand-ins for every key: undefined functions of all
    coordinates with exactly the index symmetries the tensor has"""
    sp = sym()

    def F(name):
        return sp.Function(name)(*coords)

    def sym2(p):
        return sp.Matrix(n, n, lambda a, b: F("%s_%d%d" % (p, min(a, b), max(a, b))))

    def arr(r, f):
        flat = [f(*ix) for ix in itertools.product(range(n), repeat=r)]
        return sp.ImmutableDenseNDimArray(flat, (n,) * r)

    d = {"gdown": sym2("g"), "gup": sym2("u"), "gdet": F("detg"), "RicciS": F("Rs")}
    d["Gamma_udd"] = arr(3, lambda i, j, k: F("Gu_%d%d%d" % (i, min(j, k), max(j, k))))
    d["Gamma_down"] = arr(3, lambda i, j, k: F("Gd_%d%d%d" % (i, min(j, k), max(j, k))))
    d["Riemann_uddd"] = arr(4, lambda i, j, k, h: 0 if k == h else
                            (F("Ru_%d%d%d%d" % (i, j, k, h)) if k < h else -F("Ru_%d%d%d%d" % (i, j, h, k))))
    d["Ricci_down"] = arr(2, lambda i, j: F("Ric_%d%d" % (min(i, j), max(i, j))))

    def rd(i, j, k, h):
        if i == j or k == h:
            return 0
        sgn = (1 if i < j else -1) * (1 if k < h else -1)
        a, b = (min(i, j), max(i, j)), (min(k, h), max(k, h))
        a, b = min(a, b), max(a, b)
        return sgn * F("Rd_%d%d%d%d" % (a + b))
    d["Riemann_down"] = arr(4, rd)
    d["Einstein_down"] = arr(2, lambda i, j: F("Ein_%d%d" % (min(i, j), max(i, j))))
    return d


# ------------------------------------------- the value the real formula line computes
class _RecArr:
    def __init__(self, log, *a):
        sp = sym()
        self.arr = sp.MutableDenseNDimArray(*a)
        self.log = log

    def __getitem__(self, ix):
        return self.arr[ix]

    def __setitem__(self, ix, v):
        self.log.append(("w", tuple(ix) if isinstance(ix, tuple) else (ix,), v))
        self.arr[ix] = v


class _NeverDone:
    def __init__(self, log):
        self.log = log

    def __getitem__(self, ix):
        ix = ix if isinstance(ix, tuple) else (ix,)
        if all(isinstance(a, int) for a in ix):
            self.log.append(("c", tuple(ix)))
        return 0

    def __setitem__(self, ix, v):
        pass


@contextlib.contextmanager
def never_done(log):
    """inside: the module's `np.zeros` yields a `done` array that never reports
    done and `sp.MutableDenseNDimArray` records writes; everything else is the
    real numpy / sympy"""
    import numpy
    sp = sym()
    mod = core_module()

    class SpProxy:
        def __getattr__(self, name):
            return getattr(sp, name)

        def MutableDenseNDimArray(self, *a):
            return _RecArr(log, *a)

    class NpProxy:
        def __getattr__(self, name):
            return getattr(numpy, name)

        def zeros(self, *a, **k):
            return _NeverDone(log)

    old = mod.sp, mod.np
    mod.sp, mod.np = SpProxy(), NpProxy()
    try:
        yield
    finally:
        mod.sp, mod.np = old


def freeze(v):
    """hashable structural fingerprint of a stored value"""
    sp = sym()
    if hasattr(v, "shape"):
        return (tuple(v.shape), tuple(sp.flatten(v.tolist())))
    return v


_CACHE = {}


_USED = {}


def checked_fill(key, had, coords, flag, data, stored, model, rng):
    """compare one stored array with the Lean fill; memoised on the exact
    inputs the real method reads (the tagged inputs are deterministic, so
    histories repeat them)"""
    n = len(coords)
    used = _USED.get((key, had))
    ck = None
    if used is not None and all(k in data for k in used):
        ck = (key, had, n, flag, tuple((k, freeze(data[k])) for k in sorted(used)), freeze(stored))
        if ck in _CACHE:
            return _CACHE[ck]
    seen = set()
    T, anom = line_oracle(key, coords, flag, data, seen)
    _USED[(key, had)] = set(seen) | _USED.get((key, had), set())
    res = anom[0] if anom else compare_fill(stored, T, model, n, RANK[key], rng)
    used = _USED[(key, had)]
    if all(k in data for k in used):
        _CACHE[(key, had, n, flag, tuple((k, freeze(data[k])) for k in sorted(used)), freeze(stored))] = res
    return res


def line_oracle(key, coords, flag, data, seen=None):
    """{q: value the real formula line of `key` computes at index tuple q}, by
    running the real method (on the given `data`) with a never-done `done`.
    Returns (T, anomalies); `seen` collects the keys the method looks up."""
    mod = core_module()
    base = mod.AurelCoreSymbolic

    class Logged(base):
        def __getitem__(self, k):
            if seen is not None:
                seen.add(k)
            return base.__getitem__(self, k)
    inst = Logged(list(coords), verbose=False, simplify=flag)
    inst.data = dict(data)
    log = []
    with never_done(log):
        getattr(mod.AurelCoreSymbolic, key)(inst)
    T, pending, anomalies = {}, None, []
    for ev in log:
        if ev[0] == "c":
            pending = ev[1]
        elif pending is not None:
            if ev[1] != pending:
                anomalies.append("first write after done%s goes to %s" % (pending, ev[1]))
            T[pending] = ev[2]
            pending = None
    return T, anomalies


def exact(e):
    """Floats (0.5, 0.25, ...) -> exact rationals"""
    sp = sym()
    e = sp.sympify(e)
    fl = e.atoms(sp.Float)
    return e.xreplace({f: sp.Rational(f) for f in fl}) if fl else e


def same_value(a, b, rng):
    """a == b as elements of the field of expressions: structural equality, or
    equality at two random rational assignments of all atoms (undefined
    functions, their derivatives, symbols)"""
    sp = sym()
    a, b = sp.sympify(a), sp.sympify(b)
    if a == b:
        return True
    d = exact(a - b)
    from sympy.core.function import AppliedUndef
    atoms = sorted(d.atoms(sp.Derivative) | d.atoms(AppliedUndef) | d.atoms(sp.Symbol), key=str)
    for _ in range(2):
        rule = {at: sp.Rational(rng.randint(-9, 9), rng.randint(1, 7)) for at in atoms}
        v = d.xreplace(rule)
        v = sp.nsimplify(v, rational=True) if v.atoms(sp.Float) else v
        if v != 0:
            try:
                if abs(float(v)) > 1e-9:
                    return False
            except TypeError:
                return False
    return True


def parse_fill(line, n, r):
    assert line.startswith("ok "), line
    toks = line[3:].split(" ")
    assert len(toks) == n ** r, (len(toks), n, r)
    out = {}
    for p, tok in zip(itertools.product(range(n), repeat=r), toks):
        if tok == "0":
            out[p] = None
        else:
            out[p] = (tok[0] == "-", tuple(int(x) for x in tok[1:].split(".")))
    return out


def compare_fill(stored, T, model, n, r, rng):
    """None if every stored component is what the Lean fill says, else text"""
    sp = sym()
    for p in itertools.product(range(n), repeat=r):
        s = sp.sympify(stored[p])
        m = model[p]
        if m is None:
            if s != 0:
                return "component %s: model 0, code stores %s" % (p, str(s)[:80])
        else:
            neg, q = m
            if q not in T:
                return "component %s: model %sT%s but the real line is never evaluated there" % (p, "-" if neg else "+", q)
            want = -T[q] if neg else T[q]
            if not same_value(s, want, rng):
                return "component %s: model %sT%s, code stores something else (%s)" % (p, "-" if neg else "+", q, str(s)[:60])
    return None


def branch_name(key, had):
    return key + (("_cached" if had else "_direct") if key in GUARDS else "")


def guard_present(key, data):
    return GUARDS.get(key, "Riemann_uddd") in data


# ------------------------------------------------------------------ correspondence
def corr_isolated(ctx, fills):
    """every method branch on tagged inputs"""
    sp = sym()
    mod = core_module()
    bad, ncase = [], 0
    for n in ((2, 3, 4) if ctx.tier == "thorough" else (2, 3)):
        coords = sp.symbols(COORD_NAMES[:n])
        tags = tagged_inputs(n, coords)
        for prog in PROGS:
            key = prog.replace("_cached", "").replace("_direct", "")
            for flag in (False, True):
                if flag and RANK[key] == 4 and n >= (4 if ctx.tier == "thorough" else 3):
                    continue    # sympy.simplify on 81 / 256 tagged rank-4 components is too slow
                data = {k: v for k, v in tags.items() if k != key}
                if prog.endswith("_direct"):
                    data.pop(GUARDS[key], None)
                inst = mod.AurelCoreSymbolic(list(coords), verbose=False, simplify=flag)
                inst.data = dict(data)
                stored = getattr(mod.AurelCoreSymbolic, key)(inst)
                d = checked_fill(key, guard_present(key, data), coords, flag, data, stored, fills[(prog, n)], ctx.rng)
                ncase += 1
                if d:
                    bad.append("%s n=%d simplify=%s: %s" % (prog, n, flag, d))
    ctx.cov["correspondence_isolated_cases"] = ncase
    ctx.obligation("correspondence: Model/SymFill fill of every method branch vs coresymbolic.py on tagged inputs (%d cases)" % ncase,
                   not bad, "; ".join(bad[:4]), kind="correspondence")


def observed_class(rec):
    """subclass of the real class that records, for every method call: key,
    whether the guard key was cached on entry, the returned array, a snapshot
    of `data`, and the keys looked up through `self[...]` in order of first
    look-up (the real look-up order, for the provenance comparison)"""
    mod = core_module()
    base = mod.AurelCoreSymbolic
    stack = []

    class Obs(base):
        def __getitem__(self, k):
            if stack and k not in stack[-1]:
                stack[-1].append(k)
            return base.__getitem__(self, k)

    def mk(key):
        orig = getattr(base, key)

        def f(self):
            had = guard_present(key, self.data)
            stack.append([])
            try:
                out = orig(self)
            finally:
                looked = stack.pop()
            rec.append((key, had, out, dict(self.data), looked))
            return out
        f.__name__ = key
        return f
    for key in KEYS:
        setattr(Obs, key, mk(key))
    return Obs


def provenance(rec, init_keys, requests):
    """provenance term of the value returned for every request, from what the
    REAL run did: `branch(arg,..)` with the arguments in real look-up order"""
    prov = {k: "<%s>" % k for k in init_keys}
    for (key, had, _out, _snap, looked) in rec:      # rec is in completion order: arguments are complete
        prov[key] = "%s(%s)" % (branch_name(key, had), ",".join(prov.get(d, "?" + d) for d in looked))
    return [prov.get(k, "?" + k) for k in requests]


def history_orders(ctx, npairs, nrandom, maxtail=8):
    """request orders: ordered 2-key prefixes (all 90, or a sample) each followed
    by a random tail, plus full random permutations"""
    rng = ctx.rng
    pairs = [(a, b) for a in KEYS for b in KEYS if a != b]
    if npairs < len(pairs):
        must = [("Riemann_down", "Riemann_uddd"), ("Riemann_uddd", "Riemann_down"),
                ("Ricci_down", "Riemann_uddd"), ("Riemann_uddd", "Ricci_down"),
                ("Einstein_down", "Riemann_uddd"), ("RicciS", "Riemann_down")]
        rest = [p for p in pairs if p not in must]
        rng.shuffle(rest)
        pairs = (must + rest)[:max(npairs, 0)]
    out = []
    for a, b in pairs:
        tail = [k for k in KEYS if k not in (a, b)]
        rng.shuffle(tail)
        out.append([a, b] + tail[:rng.randint(0, min(maxtail, len(tail)))])
    for _ in range(nrandom):
        p = list(KEYS)
        rng.shuffle(p)
        out.append(p)
    return out


INIT_TAGGED = ("gdown", "gup", "gdet")


def make_instance(n, flag, prepopulate):
    """a fresh observed instance; tagged inputs are stored by ITEM ASSIGNMENT into
    the `data` dict the constructor made (as a user does: `obj.data["gdown"] = g`),
    never by replacing the dict — so a `data` dict shared between instances
    (mutable default argument, class attribute) stays visible"""
    sp = sym()
    rec = []
    Obs = observed_class(rec)
    coords = sp.symbols(COORD_NAMES[:n])
    inst = Obs(list(coords), verbose=False, simplify=flag)
    if prepopulate:
        tags = tagged_inputs(n, coords)
        for k in INIT_TAGGED:
            inst.data[k] = tags[k]
    return inst, coords, rec


def run_history(n, flag, order, prepopulate):
    """run the real class; returns (coords, rec, final key order)"""
    inst, coords, rec = make_instance(n, flag, prepopulate)
    for k in order:
        inst[k]
    return coords, rec, list(inst.data.keys())


def model_lines(order, pre):
    init = ",".join(INIT_TAGGED) if pre else "-"
    return ["order %s %s" % (init, ",".join(order)), "hist %s %s" % (init, ",".join(order))]


def compare_history(ctx, fills, tag, n, flag, order, pre, coords, rec, keys, out_order, out_hist, stats):
    """one real history against the two Lean models (Model/SymFill `request` and
    the C01-style table of Model/SymCache); returns None or the first difference"""
    assert out_order.startswith("ok cache="), out_order
    mcache, mlog = out_order[len("ok cache="):].split(" log=")
    mcache = [k for k in mcache.split(",") if k]
    mlog = [tuple(x.split(":")) for x in mlog.split(",") if x]
    plog = [(key, branch_name(key, had)) for (key, had, _, _, _) in rec]
    if keys != mcache:
        return "%s: data keys %s, model %s" % (tag, keys, mcache)
    if plog != mlog:
        return "%s: completion log %s, model %s" % (tag, plog, mlog)
    # provenance of every returned value (table model of the all-histories theorem)
    if not out_hist.startswith("ok "):
        return "%s: table model raised: %s" % (tag, out_hist)
    mprov = out_hist[3:].split(" ")
    pprov = provenance(rec, INIT_TAGGED if pre else (), order)
    stats["prov"] = stats.get("prov", 0) + len(pprov)
    if mprov != pprov:
        i = next((i for i, (x, y) in enumerate(zip(mprov, pprov)) if x != y), min(len(mprov), len(pprov)))
        return "%s: provenance of request %d (%s): code %s, table model %s" % (
            tag, i, order[i] if i < len(order) else "?", (pprov + ["-"])[i][:120], (mprov + ["-"])[i][:120])
    for (key, had, stored, snap, _) in rec:
        b = branch_name(key, had)
        stats["branches"][b] = stats["branches"].get(b, 0) + 1
        if b not in PROGS:
            continue
        data = dict(snap)
        if not had and key in GUARDS:
            data.pop(GUARDS[key], None)
        d = checked_fill(key, had, coords, flag, data, stored, fills[(b, n)], ctx.rng)
        stats["nfill"] += 1
        if d:
            return "%s: %s: %s" % (tag, b, d)
    return None


def corr_histories(ctx, fills, plan):
    """plan: list of (n, flag, order, prepopulate); the Lean lines are run in one batch"""
    lines = []
    for (n, flag, order, pre) in plan:
        lines += model_lines(order, pre)
    outs = ctx.run_driver("Driver/C15.lean", lines)
    bad, stats = [], {"nfill": 0, "branches": {}}
    for i, (n, flag, order, pre) in enumerate(plan):
        tag = "n=%d simplify=%s %s order=%s" % (n, flag, "tagged" if pre else "default-metric", ",".join(order))
        coords, rec, keys = run_history(n, flag, order, pre)
        d = compare_history(ctx, fills, tag, n, flag, order, pre, coords, rec, keys, outs[2 * i], outs[2 * i + 1], stats)
        if d:
            bad.append(d)
    ctx.log("histories done")
    ctx.cov["correspondence_histories"] = len(plan)
    ctx.cov["correspondence_history_arrays_checked"] = stats["nfill"]
    ctx.cov["correspondence_history_provenances_checked"] = stats.get("prov", 0)
    ctx.cov["correspondence_branches_hit"] = stats["branches"]
    ctx.sample({"history_case": lines[0], "model_output": outs[0][:200]})
    ctx.sample({"history_case": lines[1], "model_output": outs[1][:300]})
    ctx.obligation("correspondence: request histories (branch taken, completion order, data key order, provenance of every returned value, every stored array) vs Model/SymFill + Model/SymCache (%d histories, %d arrays, %d provenances)"
                   % (len(plan), stats["nfill"], stats.get("prov", 0)), not bad, "; ".join(bad[:4]), kind="correspondence")


def corr_interleaved(ctx, fills, nrounds):
    """several live objects in ONE process — different dimensions, flags, tagged and
    default metrics — whose requests are interleaved at random; every object is then
    compared with the model of ITS OWN history.  Detects state shared between
    instances (mutable default argument, class-level dict, module-level cache)."""
    rng = ctx.rng
    bad, stats, nobj, nreq = [], {"nfill": 0, "branches": {}}, 0, 0
    for rnd in range(nrounds):
        configs = [(2, False, True), (3, False, True), (2, False, True), (3, False, False), (4, False, False),
                   (3, True, False), (2, rnd == 0, True)]
        rng.shuffle(configs)
        configs = configs[:rng.randint(4, len(configs))]
        objs = []
        for (n, flag, pre) in configs:          # all constructed first, then populated, then used
            sp = sym()
            rec = []
            Obs = observed_class(rec)
            coords = sp.symbols(COORD_NAMES[:n])
            objs.append({"n": n, "flag": flag, "pre": pre, "rec": rec, "coords": coords,
                         "inst": Obs(list(coords), verbose=False, simplify=flag), "done": []})
        for o in objs:
            if o["pre"]:
                tags = tagged_inputs(o["n"], o["coords"])
                o["tags"] = tags
                for k in INIT_TAGGED:
                    o["inst"].data[k] = tags[k]
            order = list(KEYS)
            rng.shuffle(order)
            # a flag=True object on tagged inputs: short history (sympy.simplify on undefined functions is slow)
            o["todo"] = order[:3] if (o["flag"] and o["pre"]) else order[:rng.randint(3, len(order))]
        pending = [o for o in objs if o["todo"]]
        while pending:
            o = rng.choice(pending)
            k = o["todo"].pop(0)
            o["inst"][k]
            o["done"].append(k)
            nreq += 1
            if not o["todo"]:
                pending.remove(o)
        lines = []
        for o in objs:
            lines += model_lines(o["done"], o["pre"])
        outs = ctx.run_driver("Driver/C15.lean", lines)
        for i, o in enumerate(objs):
            nobj += 1
            tag = "interleaved round %d object %d/%d (n=%d simplify=%s %s) order=%s" % (
                rnd, i, len(objs), o["n"], o["flag"], "tagged" if o["pre"] else "default-metric", ",".join(o["done"]))
            inst = o["inst"]
            for j, p in enumerate(objs):
                if j != i and p["inst"].data is inst.data:
                    bad.append("%s: `data` is the same dict object as object %d's" % (tag, j))
            if inst.dim != o["n"] or list(inst.coords) != list(o["coords"]) or inst.simplify != o["flag"]:
                bad.append("%s: dim/coords/simplify changed" % tag)
            if o["pre"] and any(inst.data.get(k) is not o["tags"][k] for k in INIT_TAGGED):
                bad.append("%s: an input entry of `data` was replaced" % tag)
            d = compare_history(ctx, fills, tag, o["n"], o["flag"], o["done"], o["pre"], o["coords"], o["rec"],
                                list(inst.data.keys()), outs[2 * i], outs[2 * i + 1], stats)
            if d:
                bad.append(d)
    ctx.cov["correspondence_interleaved_objects"] = nobj
    ctx.cov["correspondence_interleaved_requests"] = nreq
    ctx.cov["correspondence_interleaved_arrays_checked"] = stats["nfill"]
    ctx.obligation("correspondence: %d live objects (n = 2,3,4; both flags; tagged and default metrics) with randomly interleaved requests, each against the model of its own history (%d requests, %d arrays)"
                   % (nobj, nreq, stats["nfill"]), not bad, "; ".join(bad[:4]), kind="correspondence")


def correspondence(ctx):
    progs_n = [(p, n) for p in PROGS for n in (2, 3, 4)]
    try:
        names = ctx.run_driver("Driver/C15.lean", ["progs"])[0].split(" ")[1:]
        if sorted(names) != sorted(PROGS):
            ctx.obligation("correspondence:driver", False, "method branches with fill loops changed: %s" % names,
                           kind="correspondence")
            return
        outs = ctx.run_driver("Driver/C15.lean", ["fill %s %d" % pn for pn in progs_n])
    except Exception as ex:  # noqa
        ctx.obligation("correspondence:driver", False, repr(ex), kind="correspondence")
        return
    fills = {}
    try:
        for (p, n), out in zip(progs_n, outs):
            key = p.replace("_cached", "").replace("_direct", "")
            fills[(p, n)] = parse_fill(out, n, RANK[key])
    except AssertionError as ex:
        ctx.obligation("correspondence:driver", False, "unexpected driver output %r" % (ex,), kind="correspondence")
        return
    ctx.sample({"driver_line": "fill Riemann_uddd 2", "model_output": outs[progs_n.index(("Riemann_uddd", 2))]})
    try:
        corr_isolated(ctx, fills)
    except Exception as ex:  # noqa
        ctx.obligation("correspondence: isolated", False, "harness failed: %r" % ex, kind="correspondence")
    ctx.log("isolated correspondence done")
    thorough = ctx.tier == "thorough"
    plan = []
    for order in history_orders(ctx, 90, 10 if thorough else 4):
        plan.append((2, False, order, True))
    # sympy.simplify on tagged (undefined-function) expressions costs 5-15 s per history
    # (the flag never changes the loop structure; all 8 branches are covered with simplify=True above)
    for order in history_orders(ctx, 12 if thorough else 2, 1 if thorough else 0, maxtail=8 if thorough else 0):
        plan.append((2, True, order, True))
    for order in history_orders(ctx, 90 if thorough else 8, 2):
        plan.append((3, False, order, True))
    if thorough:
        for order in history_orders(ctx, 6, 1):
            plan.append((4, False, order, True))
    for n in (3, 4):        # default metric: gdown / gup / gdet computed by the class itself
        for flag in (False, True):
            for order in history_orders(ctx, 3, 1):
                plan.append((n, flag, order, False))
    try:
        corr_histories(ctx, fills, plan)
    except Exception as ex:  # noqa
        ctx.obligation("correspondence: histories", False, "harness failed: %r" % ex, kind="correspondence")
    try:
        corr_interleaved(ctx, fills, 4 if thorough else 2)
    except Exception as ex:  # noqa
        ctx.obligation("correspondence: interleaved objects", False, "harness failed: %r" % ex, kind="correspondence")
    ctx.log("interleaved objects done")


# ------------------------------------------------------------------ search oracle
def fr(x):
    sp = sym()
    x = sp.nsimplify(x, rational=True) if sp.sympify(x).atoms(sp.Float) else sp.sympify(x)
    return Fraction(int(x.p), int(x.q))


def textbook_at(g, coords, pt):
    """all ten quantities at the point `pt` from the exact 2-jet of the metric
    there (Fractions only; sympy is used to differentiate the metric entries)"""
    sp = sym()
    n = len(coords)
    R = range(n)

    def ev(e):
        return fr(sp.sympify(e).subs(pt))
    G = [[ev(g[a, b]) for b in R] for a in R]
    dG = [[[ev(sp.diff(g[a, b], coords[c])) for b in R] for a in R] for c in R]
    ddG = [[[[ev(sp.diff(g[a, b], coords[c], coords[d])) for b in R] for a in R] for d in R] for c in R]
    M = sp.Matrix(n, n, lambda a, b: sp.Rational(G[a][b].numerator, G[a][b].denominator))
    Mi = M.inv()
    U = [[fr(Mi[a, b]) for b in R] for a in R]
    det = fr(M.det())
    # dU_c = - U dG_c U
    dU = [[[-sum(U[a][p] * dG[c][p][q] * U[q][b] for p in R for q in R) for b in R] for a in R] for c in R]
    half = Fraction(1, 2)

    def c1(m, j, k):
        return half * (dG[j][m][k] + dG[k][m][j] - dG[m][j][k])

    def dc1(c, m, j, k):
        return half * (ddG[c][j][m][k] + ddG[c][k][m][j] - ddG[c][m][j][k])
    Gu = [[[sum(U[i][m] * c1(m, j, k) for m in R) for k in R] for j in R] for i in R]
    Gd = [[[c1(i, j, k) for k in R] for j in R] for i in R]
    dGu = [[[[sum(dU[c][i][m] * c1(m, j, k) + U[i][m] * dc1(c, m, j, k) for m in R)
              for k in R] for j in R] for i in R] for c in R]
    Ru = [[[[dGu[k][i][j][h] - dGu[h][i][j][k]
             + sum(Gu[i][k][m] * Gu[m][j][h] - Gu[i][h][m] * Gu[m][j][k] for m in R)
             for h in R] for k in R] for j in R] for i in R]
    Rd = [[[[sum(G[i][m] * Ru[m][j][k][h] for m in R) for h in R] for k in R] for j in R] for i in R]
    Ric = [[sum(Ru[k][i][k][j] for k in R) for j in R] for i in R]
    Rs = sum(U[i][j] * Ric[i][j] for i in R for j in R)
    Ein = [[Ric[i][j] - half * G[i][j] * Rs for j in R] for i in R]
    return {"gdown": G, "gup": U, "gdet": det, "Gamma_udd": Gu, "Gamma_down": Gd, "Riemann_uddd": Ru,
            "Riemann_down": Rd, "Ricci_down": Ric, "RicciS": Rs, "Einstein_down": Ein}


def get_ref(ref, ix):
    for a in ix:
        ref = ref[a]
    return ref


def random_metric(rng, n, coords, nshear, conformal, linear=False):
    """A^T eta A with A a product of polynomial shears (det = ±1, polynomial
    inverse); optionally one coordinate-dependent diagonal factor"""
    sp = sym()
    A = sp.eye(n)
    for _ in range(nshear):
        a, b = rng.sample(range(n), 2)
        c, d = rng.choice(coords), rng.choice(coords)
        f = rng.choice([c, 2 * c, c + d, 1 + c] if linear else [c, c * d, c ** 2, 2 * c, c + d, 1 + c])
        E = sp.eye(n)
        E[a, b] = f
        A = A * E
    diag = [rng.choice([-1, 1])] + [1] * (n - 1)
    if conformal:
        c = rng.choice(coords)
        diag[rng.randrange(n)] *= rng.choice([1 + c ** 2, 2 + c, 1 + c ** 2 + rng.choice(coords) ** 2])
    return (A.T * sp.diag(*diag) * A).applyfunc(sp.expand)


def corpus_metrics():
    """past failures: (name, coord names, metric entries, point)"""
    return [
        ("paraboloid (R_xyxy = 36/49 at (1/2,1/3) in both cache states; direct Riemann_down defect 3f8b49d)",
         ["x", "y"], [["1+x**2", "x*y"], ["x*y", "1+y**2"]], {"x": "1/2", "y": "1/3"}),
        ("diag(-1,t^2) (Christoffel factor 1/2 with simplify=False, 7535a87)",
         ["t", "x"], [["-1", "0"], ["0", "t**2"]], {"t": "3/2", "x": "1/5"}),
        ("sheared 2-D (components with coinciding first indices, d9f1a33)",
         ["x", "y"], [["1", "x*y"], ["x*y", "1+x**2*y**2+y**2"]], {"x": "2/3", "y": "-1/2"}),
    ]


SEARCH_ORDERS = [
    ["gdown", "gup", "gdet", "Gamma_udd", "Gamma_down", "Riemann_uddd", "Riemann_down", "Ricci_down", "RicciS", "Einstein_down"],
    ["Riemann_down", "Ricci_down", "Riemann_uddd", "Einstein_down", "RicciS", "Gamma_down", "Gamma_udd", "gdet", "gup", "gdown"],
    ["Einstein_down", "Riemann_uddd", "Riemann_down", "Ricci_down", "RicciS", "Gamma_udd", "Gamma_down", "gup", "gdet", "gdown"],
    ["Ricci_down", "Riemann_down", "Gamma_down", "Riemann_uddd", "Einstein_down", "RicciS", "gdet", "Gamma_udd", "gup", "gdown"],
]


def leibniz_det(g):
    """the textbook determinant: sum over permutations (independent of sympy's det)"""
    sp = sym()
    from sympy.combinatorics.permutations import Permutation
    n = g.shape[0]
    tot = 0
    for perm in itertools.permutations(range(n)):
        term = Permutation(list(perm)).signature()
        for i in range(n):
            term = term * g[perm[i], i]
        tot += term
    return sp.expand(tot)


def check_inverse_equation(ctx, name, cnames, entries, flag, g, data, report=True):
    """THE equation the Lean theorems need of sympy (`RightInverse`): gdown * gup = 1,
    checked symbolically (not at a point), and gdet = the Leibniz determinant.
    Returns the list of failures."""
    sp = sym()
    n = g.shape[0]
    fails = []
    if "gup" in data:
        ctx.count("oracle_inverse_equation_checks")
        gup = sp.Matrix(data["gup"])
        resid = (g * gup - sp.eye(n)).applyfunc(lambda e: sp.simplify(exact(e)))
        if resid != sp.zeros(n, n):
            ij = next((a, b) for a in range(n) for b in range(n) if resid[a, b] != 0)
            fails.append({"key": "gup", "site": "gup", "index": list(ij), "observed": "(gdown*gup - 1)%s = %s" % (list(ij), str(resid[ij])[:80]),
                          "expected": "0"})
        if gup.shape != (n, n):
            fails.append({"key": "gup", "site": "gup", "index": [], "observed": "shape %s" % (gup.shape,), "expected": str((n, n))})
    if "gdet" in data:
        ctx.count("oracle_determinant_checks")
        d = sp.simplify(exact(data["gdet"]) - leibniz_det(g))
        if d != 0:
            fails.append({"key": "gdet", "site": "gdet", "index": [], "observed": str(data["gdet"])[:80], "expected": str(leibniz_det(g))[:80]})
    if report:
        for f0 in fails:
            tag = "%s-symbolic simplify=%s" % (f0["site"], flag)
            seen = ctx.cov.setdefault("violating_sites", [])
            if tag in seen or len(ctx.violations) >= 4:
                continue
            seen.append(tag)
            ctx.violation("%s of metric %s with simplify=%s is not the inverse / determinant of gdown (symbolically): %s, expected %s"
                          % (f0["key"], entries, flag, f0["observed"], f0["expected"]),
                          {"kind": "input", "metric_name": name, "coords": cnames, "metric": entries, "simplify": flag,
                           "order": [f0["key"]], "point": {c: "%d/%d" % (i + 2, 2 * i + 5) for i, c in enumerate(cnames)}, "key": f0["key"], "index": f0["index"],
                           "observed": f0["observed"], "expected": f0["expected"], "n_bad_components": 1, "symbolic": True},
                          {"site": f0["site"] + "-symbolic", "simplify": flag})
    return fails


def start_case(cnames, entries, flag, pt_s):
    """a live object of the real class holding one metric"""
    sp = sym()
    mod = core_module()
    coords = [sp.Symbol(c) for c in cnames]
    n = len(coords)
    g = sp.Matrix(n, n, lambda a, b: sp.sympify(entries[a][b], locals={c: s for c, s in zip(cnames, coords)}))
    pt = {s: sp.Rational(pt_s[c]) for c, s in zip(cnames, coords)}
    inst = mod.AurelCoreSymbolic(list(coords), verbose=False, simplify=flag)
    inst.data["gdown"] = g
    return {"inst": inst, "g": g, "coords": coords, "pt": pt, "had": {}, "cnames": cnames, "entries": entries,
            "flag": flag, "pt_s": pt_s, "done": []}


def step_case(case, k):
    inst = case["inst"]
    if k in GUARDS and k not in inst.data:
        case["had"][k] = guard_present(k, inst.data)
    inst[k]
    case["done"].append(k)


def check_case(ctx, name, cnames, entries, flag, order, pt_s, report=True):
    """run the real class on one metric / flag / request order and compare all
    ten keys, every component, with the textbook values at the point; gup and
    gdet also symbolically.  Returns the list of failures (dicts)."""
    case = start_case(cnames, entries, flag, pt_s)
    for k in order:
        step_case(case, k)
    return finish_case(ctx, name, case, report)


def check_interleaved(ctx, name, specs, report=True):
    """several live objects (one per spec = (cnames, entries, flag, order, point)) in one
    process, requests interleaved at random; each compared with its own textbook values"""
    cases = [start_case(cn, ent, flag, pt) for (cn, ent, flag, order, pt) in specs]
    todo = [(c, list(order)) for c, (_, _, _, order, _) in zip(cases, specs)]
    while todo:
        c, rest = ctx.rng.choice(todo)
        step_case(c, rest.pop(0))
        if not rest:
            todo.remove((c, rest))
    fails = []
    for i, c in enumerate(cases):
        others = [d for d in cases if d is not c]
        if any(d["inst"].data is c["inst"].data for d in others):
            ctx.count("oracle_shared_data_dicts")
        fails += finish_case(ctx, "%s[object %d of %d interleaved]" % (name, i, len(cases)), c, report)
    return fails


def finish_case(ctx, name, case, report=True):
    sp = sym()
    inst, g, coords, pt, had = case["inst"], case["g"], case["coords"], case["pt"], case["had"]
    cnames, entries, flag, pt_s, order = case["cnames"], case["entries"], case["flag"], case["pt_s"], case["done"]
    n = len(coords)
    ref = textbook_at(g, coords, pt)
    fails = []
    for k in KEYS:
        if k not in inst.data:
            continue
        val = inst.data[k]
        r = RANK[k]
        site = branch_name(k, had.get(k, False)) if k in had else k
        for ix in itertools.product(range(n), repeat=r):
            e = val[ix] if r else val
            want = get_ref(ref[k], ix)
            got_e = exact(e).subs(pt)
            try:
                got = fr(got_e)
                ok = (got == want) or abs(float(got) - float(want)) <= 1e-9 * max(1.0, abs(float(want)))
                if got != want and ok:
                    ctx.count("oracle_tolerance_matches")
            except Exception:  # noqa   (not a number: e.g. zoo / unevaluated)
                got, ok = str(got_e)[:60], False
            ctx.count("oracle_components")
            if not ok:
                fails.append({"key": k, "site": site, "index": list(ix), "observed": str(got), "expected": str(want)})
        if fails and fails[-1]["key"] == k and len(fails) > 40:
            break
    if report and fails:
        by_site = {}
        for f in fails:
            by_site.setdefault(f["site"], []).append(f)
        seen = ctx.cov.setdefault("violating_sites", [])
        for site, fs in by_site.items():
            f0 = fs[0]
            tag = "%s simplify=%s" % (site, flag)
            if tag in seen or len(ctx.violations) >= 4:   # one witness per call site and flag value, at most 4
                continue
            seen.append(tag)
            ctx.violation(
                "%s%s of metric %s at %s with simplify=%s after requests %s: code %s, textbook %s (%d component(s) of this key differ)"
                % (f0["key"], f0["index"], entries, pt_s, flag, order[:order.index(f0["key"]) + 1] if f0["key"] in order else order,
                   f0["observed"], f0["expected"], len(fs)),
                {"kind": "input", "metric_name": name, "coords": cnames, "metric": entries, "simplify": flag,
                 "order": order, "point": pt_s, "key": f0["key"], "index": f0["index"],
                 "observed": f0["observed"], "expected": f0["expected"], "n_bad_components": len(fs)},
                {"site": site, "simplify": flag})
    if inst.data.get("gdown") is g:
        fails += check_inverse_equation(ctx, name, cnames, entries, flag, g, inst.data, report)
    elif "gdown" in inst.data:
        fails.append({"key": "gdown", "site": "gdown", "index": [], "observed": "replaced", "expected": "the metric stored by the user"})
    return fails


def search(ctx, deep):
    sp = sym()
    rng = ctx.rng
    thorough = ctx.tier == "thorough"
    found = 0
    cases = 0
    dist = {}

    def note(n, flag):
        k = "n=%d simplify=%s" % (n, flag)
        dist[k] = dist.get(k, 0) + 1
    # corpus first: both flags, the cache states that matter
    for (name, cn, ent, pt) in corpus_metrics():
        if len(ctx.violations) >= 4:
            break
        for flag in (False, True):
            for order in (SEARCH_ORDERS[:3] if (thorough or not flag) else SEARCH_ORDERS[:2]):
                found += len(check_case(ctx, name, cn, ent, flag, order, pt))
                cases += 1
                note(len(cn), flag)
    # random metrics
    plan = []
    plan += [(2, False)] * (6 if thorough else 3) + [(2, True)] * (4 if thorough else 1)
    plan += [(3, False)] * (6 if thorough else 3) + [(3, True)] * (2 if thorough else 1)
    if thorough or deep:
        plan += [(4, False)] * (3 if thorough else 1)
    if thorough:
        plan += [(4, True)]
    for (n, flag) in plan:
        if len(ctx.violations) >= 4:      # enough concrete witnesses
            break
        cn = COORD_NAMES[:n]
        coords = [sp.Symbol(c) for c in cn]
        while True:
            # simplify=True: polynomial metrics with polynomial inverse only (sympy.simplify on
            # rational functions takes minutes); rational inverses are covered by the corpus
            g = random_metric(rng, n, coords, nshear=(2 if flag else rng.randint(2, 3)),
                              conformal=(not flag and (n == 2 or rng.random() < 0.5)), linear=flag)
            offdiag = any(g[a, b] != 0 for a in range(n) for b in range(n) if a != b)
            pt = {c: "%d/%d" % (rng.choice([-5, -4, -3, -2, -1, 1, 2, 3, 4, 5]), rng.randint(1, 4)) for c in cn}
            det_at = g.det().subs({s: sp.Rational(pt[c]) for c, s in zip(cn, coords)})
            if offdiag and det_at != 0:
                break
        ent = [[str(g[a, b]) for b in range(n)] for a in range(n)]
        orders = [SEARCH_ORDERS[0], SEARCH_ORDERS[1]] if not flag or n == 2 else [rng.choice(SEARCH_ORDERS[:2])]
        if not flag:
            p = list(KEYS)
            rng.shuffle(p)
            orders = orders + [p, SEARCH_ORDERS[2]]
        for order in orders:
            found += len(check_case(ctx, "random", cn, ent, flag, order, pt))
            cases += 1
            note(n, flag)
        if len(ctx.violations) >= 4:      # enough concrete witnesses
            break
        if len(ctx.samples) < 10:
            ctx.sample({"oracle_metric": ent, "point": pt, "simplify": flag})
    # several live objects with different metrics / dimensions, requests interleaved
    if len(ctx.violations) < 4:
        cm = corpus_metrics()
        specs = [(cm[0][1], cm[0][2], False, SEARCH_ORDERS[1], cm[0][3]),
                 (cm[1][1], cm[1][2], False, SEARCH_ORDERS[0], cm[1][3]),
                 (cm[2][1], cm[2][2], True, SEARCH_ORDERS[2][:4], cm[2][3]),
                 (["x", "y", "z"], [["1", "z", "0"], ["z", "1+z**2+x**2", "0"], ["0", "0", "1+y**2"]], False,
                  SEARCH_ORDERS[3], {"x": "1/2", "y": "-2/3", "z": "3/4"}),
                 (["t", "x", "y", "z"], [["-1", "x", "0", "0"], ["x", "1", "0", "0"], ["0", "0", "1+t**2", "y"], ["0", "0", "y", "2"]],
                  False, ["gup", "Gamma_down", "gdet"] + (SEARCH_ORDERS[0][5:] if thorough else []),
                  {"t": "1/3", "x": "1/2", "y": "-1/4", "z": "2"})]
        found += len(check_interleaved(ctx, "interleaved", specs))
        cases += len(specs)
        for sp_ in specs:
            note(len(sp_[0]), sp_[2])
        ctx.cov["oracle_interleaved_objects"] = len(specs)
    # gup / gdet of non-diagonal 4-D metrics, symbolically (the one equation the theorems need of sympy)
    for flag in ((False, False, True) if not thorough else (False, False, False, True, True)):
        if len(ctx.violations) >= 4:
            break
        cn = COORD_NAMES[:4]
        coords = [sp.Symbol(c) for c in cn]
        while True:
            g = random_metric(rng, 4, coords, nshear=rng.randint(2, 4), conformal=(not flag and rng.random() < 0.5), linear=flag)
            if any(g[a, b] != 0 for a in range(4) for b in range(4) if a != b):
                break
        ent = [[str(g[a, b]) for b in range(4)] for a in range(4)]
        case = start_case(cn, ent, flag, {c: "1/2" for c in cn})
        step_case(case, "gup")
        step_case(case, "gdet")
        found += len(check_inverse_equation(ctx, "random-4d", cn, ent, flag, case["g"], case["inst"].data))
        ctx.count("oracle_inverse_equation_4d_nondiagonal")
    ctx.cov["oracle_cases"] = cases
    ctx.cov["oracle_distribution"] = dist
    return found


def simplify_sites(ctx):
    """every read of `self.simplify` in coresymbolic.py is an `if simplify` of a generated
    line (covered by `lines_flag_independent`) or the one in `__getitem__` (`post`)"""
    src = open(os.path.join(fw.SRC, "coresymbolic.py")).read()
    n_src = sum(1 for nd in ast.walk(ast.parse(src))
                if isinstance(nd, ast.Attribute) and nd.attr == "simplify" and isinstance(nd.ctx, ast.Load)
                and isinstance(nd.value, ast.Name) and nd.value.id == "self")
    gen = open(os.path.join(fw.LEAN, "AurelVerif", "Gen", "SymFormulas.lean")).read()
    n_gen = len(re.findall(r"\(if simplify then", gen))
    ctx.cov["simplify_sites_in_source"] = n_src
    ctx.obligation("every `self.simplify` test of coresymbolic.py is in a generated line or in __getitem__ (%d in the source = %d generated + 1)"
                   % (n_src, n_gen), n_src == n_gen + 1, "source %d, generated %d" % (n_src, n_gen), kind="translation")


def run(ctx):
    ctx.trusted += ["Lean 4.33 kernel; axioms propext, Classical.choice, Quot.sound",
                    "py2lean/symformulas.py (AST -> formula lines + loop structure + method table; refuses anything unrecognised)",
                    "Model/SymFill.lean (fill interpreter, request cache) and Model/SymCache.lean (shapes of the C01-style table derived from the regenerated method table) are hand-written; tied to AurelCoreSymbolic by the tagged-input, history (branch, completion order, provenance of every returned value) and interleaved-objects correspondence",
                    "Lemmas/C15History.lean `leaf`: the hand-written wiring of the generated formula lines and loop programs to the return sites of the table (a wrong wiring makes `branch_coherence` unprovable; key and branch numbering are proven equal to the regenerated table)",
                    "sympy: sp.diff is a derivation with commuting partials, arithmetic of expressions is a field of characteristic 0; of Matrix.inv only the equation gdown*gup = 1 (checked symbolically by the oracle on every metric it runs, incl. non-diagonal 4-D ones); of Matrix.det that it equals the Leibniz sum (checked symbolically likewise)",
                    "sp.simplify returns an expression equal to its argument (hypothesis `∀ x, S x = x`; NOT used by the simplify=False theorems)"]
    ctx.assumptions += ["0.5 is modelled as the exact rational 1/2 (sympy Float rounding is not modelled)",
                        "the metric is an input stored in `data` by the user (the default metrics of gdown() are particular inputs)",
                        "the derivation hypotheses are shown consistent in Lean only by the zero derivation; real partial derivatives are exercised by the sympy oracle"]
    # 1. regenerate
    try:
        changed, info = symformulas.regen()
        ctx.obligation("py2lean:symformulas", True, "regenerated (changed=%s)" % changed, kind="translation")
        for k, brs in info["methods"].items():
            for b in brs:
                if b["guard"]:
                    GUARDS[k] = b["guard"][1]
        ctx.sample({"generated_line": "Riemann_down_direct", "lets": info["lines"]["Riemann_down_direct"]["lets"]})
        ctx.sample({"generated_loops": "Riemann_uddd", "loopvars": info["progs"]["Riemann_uddd"]["loopvars"],
                    "prog": info["progs"]["Riemann_uddd"]["prog"]})
    except Exception as ex:  # noqa
        ctx.obligation("py2lean:symformulas", False, "translation failed: %r" % ex, kind="translation")
    if not ctx.broken():
        simplify_sites(ctx)
    # 2-3. prove + audit
    if not ctx.broken():
        ctx.prove(MODULE, THEOREMS)
        ctx.prove(MODULE_B, THEOREMS_B)
        ctx.forbidden_scan(FILES)
        if ctx.tier == "thorough":
            ctx.leanchecker([MODULE, MODULE_B])
    ctx.log("proofs done")
    # 4. correspondence
    if not [o for o in ctx.broken() if o["kind"] == "translation"]:
        correspondence(ctx)
    ctx.log("correspondence done")
    # 5/6. search (sentinel always; deeper when something is broken)
    search(ctx, deep=bool(ctx.broken()))
    ctx.log("search done")


def replay(ctx, obj):
    if obj.get("kind") != "input":
        print("replay: nothing to execute for kind=%s (%s)" % (obj.get("kind"), obj.get("what")))
        return 0
    fails = check_case(ctx, obj.get("metric_name", "replay"), obj["coords"], obj["metric"], obj["simplify"],
                       obj["order"], obj["point"], report=False)
    mine = [f for f in fails if f["key"] == obj["key"]]
    for f in fails[:5]:
        print("replay: %s%s observed %s expected %s" % (f["key"], f["index"], f["observed"], f["expected"]))
    print("replay: %d failing component(s) now (%d of key %s)" % (len(fails), len(mine), obj["key"]))
    return 1 if fails else 0


MANIFEST = {
    "category": "proof",
    "technique": "Lean 4 theorems about formula lines, loop structure and method table regenerated from the AST of coresymbolic.py: spec-match of every line over an abstract differential field (all n); Riemann/Ricci index symmetries from the derivation axioms; the fill loops verified for EVERY dimension n by a Hoare logic for the loop interpreter (induction over range(n) for each loop of the nest; state invariant 'every position is correct or still zero, every done position is correct') in addition to the kernel-decided finite check for n = 2,3,4; request-order independence over all finite request histories by instantiating the generic cache theorem of C01 with the regenerated table and PROVING branch coherence; gup/gdet reduced to the single equation gdown*gup = 1 (one-sided inverse => IsMetric, uniqueness, Cramer, det identities via Mathlib)",
    "text": "Proof for every metric (symmetric, gdown*gup = 1, any coordinate dependence), EVERY dimension n, both values of simplify and every request history: each formula line of AurelCoreSymbolic (Christoffel symbols of both kinds, Riemann uddd, Riemann fully lowered in its cached and direct branches, Ricci in its cached and direct branches, Ricci scalar, Einstein) is regenerated from the source and proven equal to the textbook expression over any differential field of characteristic 0; the textbook tensors are proven to have exactly the index symmetries the fill loops exploit; the loop nests with their skip conditions, done arrays and signed partner assignments are extracted from the AST, executed by a hand-written interpreter, and proven to reproduce every oracle having only those symmetries - for n = 2,3,4 by a kernel-evaluated check plus naturality, and for ALL n by loop-invariant induction (fill_all_n_*, symbolic_core_correct_all_n). Request order: the `__getitem__` cache with its `'Riemann_uddd' in self.data` shortcut branches is an instance of C01's table model built from the regenerated method table; branch coherence (Riemann_down cached vs direct, Ricci_down cached vs direct, Einstein from Ricci and RicciS, ...) is a theorem (branch_coherence), hence every finite history of requests returns the textbook value of each requested key (request_history_transparent, request_order_and_flag_independent), and histories of the ten keys never raise (history_never_raises, every_history_returns_textbook). simplify: every generated line is flag-independent for ARBITRARY arguments assuming only that sp.simplify preserves values (lines_flag_independent); with simplify=False nothing at all is assumed about sp.simplify (symbolic_core_correct_unsimplified, gamma_half_outside_flag for the 0.5 factor of 7535a87); all seven stored keys are flag- and cache-state-independent for every n. gup/gdet: everything follows from g symmetric and gdown*gup = 1 (metric_of_right_inverse, gup_determined: unique, = matrix inverse, symmetric, two-sided; gdet_identities: Leibniz determinant non-zero, det g det gup = 1, Cramer; gdet_jacobi: d_c det g = det g g^{ik} d_c g_{ki} and Gamma^a_{ab} = d_b det g / (2 det g) for any abstract derivation). The models are tied to the real class by index-by-index correspondence on identity-tagged inputs, on >100 request histories (branch taken, completion order, provenance of every returned value, every stored array) and on several live objects of different dimension/flag/metric with randomly interleaved requests in one process (shared-state regressions); an independent jet-based rational oracle checks the real code on random non-diagonal metrics, on interleaved live objects, and checks gdown*gup = 1 and gdet = Leibniz sum symbolically (incl. non-diagonal 4-D metrics).",
    "note": "Trusted: Lean kernel + propext/Classical.choice/Quot.sound; the AST translator; the hand-written fill interpreter, table shapes and return-site wiring (validated by correspondence: 8 branches x n=2,3(,4) x 2 flags on tagged inputs; >100 request histories incl. all 90 ordered 2-key prefixes with provenance; interleaved live objects); sympy's diff, the equation gdown*gup = 1 and gdet = Leibniz determinant (both re-checked symbolically by the oracle on every metric it runs), and - for simplify=True only - that sp.simplify preserves the value of an expression; Float 0.5 treated as exact 1/2. NOT proven: anything about sympy's own algorithms (inv/det/diff/simplify), singular metrics (Matrix.inv raises), the default metrics of gdown() other than as particular inputs.",
}
