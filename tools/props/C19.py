"""C19 — kinematics of the default (Eulerian) observers."""
import numpy as np

from lib import corecheck

MODULE = "AurelVerif.Props.C19"
THEOREMS = ["AurelVerif.C19." + t for t in (
    "u_is_normal", "udown_is_ndown", "Gamma_t_block", "grad_n_raw", "grad_n", "acceleration_spec",
    "acceleration_eulerian", "projections_spec", "theta_spec", "projected_gradient_eulerian",
    "omega_vanishes", "theta_is_minus_K", "shear_is_minus_A")]
NEEDED = ["uup0", "uup3", "uup4", "udown4", "udown3", "nup4", "ndown4", "st_Gamma_udd4", "st_covd_udown4",
          "accelerationdown4", "s_covd_udown4", "thetadown4", "theta", "sheardown4", "omegadown4", "Adown3",
          "w_lorentz", "velx", "vely", "velz", "velup3"]


def interior(fd, a, times=1):
    m = fd.mask_len * times
    return a[..., m:-m, m:-m, m:-m]


def measure(seed, N, order, **cache):
    rng = np.random.default_rng(seed)
    rel = corecheck.make_rel(rng, N=N, order=order, **cache)
    x, y, z = rel.fd.x, rel.fd.y, rel.fd.z
    rel.data["dtalpha"] = 0.3 + 0.1 * np.sin(0.7 * x - 0.4 * z)          # time-dependent lapse
    rel.data["dtbetaup3"] = np.array([0.1 * np.cos(y), -0.05 * np.sin(x + z), 0.02 + 0 * x])
    rel.freeze_data()
    al, b, K = rel["alpha"], rel["betaup3"], rel["Kdown3"]
    fd = rel.fd
    dlna = fd.d3_scalar(np.log(al))
    a = rel["accelerationdown4"]
    n = rel["nup4"]
    K4 = rel.s_to_st(K)
    A4 = rel.s_to_st(rel["Adown3"])
    res = {
        "u^mu = n^mu": np.max(np.abs(rel["uup4"] - n)),
        "theta = -K": np.max(np.abs(interior(fd, rel["theta"] + rel["Ktrace"]))),
        "shear = -A": np.max(np.abs(interior(fd, rel["sheardown4"] + A4))),
        "omega = 0": np.max(np.abs(interior(fd, rel["omegadown4"]))),
        "omega2 = 0": np.max(np.abs(interior(fd, rel["omega2"]))),
        "shear2 = A_ij A^ij / 2": np.max(np.abs(interior(fd, rel["shear2"] - rel["A2"]))),
        "a_i = d_i ln alpha": np.max(np.abs(interior(fd, a[1:] - dlna))),
        "a.n = 0": np.max(np.abs(interior(fd, np.einsum("a...,a...->...", a, n)))),
        "grad n = -K - n a": np.max(np.abs(interior(fd, rel["st_covd_udown4"] + K4
                                                   + np.einsum("a...,b...->ab...", rel["ndown4"], a)))),
    }
    res["(cached entries modified in place)"] = float(len(rel.__dict__.get("_w_viol", [])))
    return res


# kinematic quantities whose value may not depend on what was requested before (history pass)
HISTORY_KEYS = ["theta", "sheardown4", "omegadown4", "s_covd_udown4", "st_covd_udown4", "accelerationdown4", "shear2", "omega2"]


def search(ctx, n):
    found = 0
    for it in range(n):
        seed = ctx.rng.randrange(10 ** 6)
        for order in ((4,) if ctx.tier == "quick" else (2, 4, 6)):
            lo = measure(seed, 10, order)
            hi = measure(seed, 20, order)
            # "any lapse, shift, metric and extrinsic curvature" — and any cache setting: with the most aggressive
            # clean-up (every calculation, a memory budget below the inputs) the identities are judged on the same values
            ag = measure(seed, 10, order, clear_cache_every_nbr_calc=1, memory_threshold_inGB=1e-9)
            for what in lo:
                ctx.count("oracle_evaluations")
                if not abs(float(ag[what]) - float(lo[what])) <= 1e-9 * max(1.0, abs(float(lo[what]))):
                    found += ctx.violation(
                        "%s: residual %.3g with the default cache settings, %.3g with clean-up after every calculation and a "
                        "1e-9 GB budget (order %d): the frozen inputs were not kept" % (what, float(lo[what]), float(ag[what]), order),
                        {"kind": "input", "oracle": what, "generator_seed": seed, "order": order, "cache": "aggressive"},
                        {"site": "kinematics", "oracle": what, "cache": "aggressive"})
            for what in lo:
                ctx.count("oracle_evaluations")
                e1, e2 = float(lo[what]), float(hi[what])
                # exact identities must hold to round-off; discretised ones must be small AND shrink
                ok = e2 < 1e-10 or (e2 < 2e-2 and (e2 < 1e-8 or e1 / max(e2, 1e-300) > 2 ** (order - 1.5)))
                if not ok:
                    found += ctx.violation(
                        "%s: error %.3g at N=10, %.3g at N=20 (order %d): not converging to the 3+1 identity" % (what, e1, e2, order),
                        {"kind": "input", "oracle": what, "generator_seed": seed, "order": order, "err_coarse": e1, "err_fine": e2},
                        {"site": "kinematics", "oracle": what})
    return found


def run(ctx):
    ctx.trusted += corecheck.TRUSTED
    ctx.assumptions += ["theorems are exact algebra given the generated 4-D Christoffel symbols; that those symbols are the Christoffel symbols of the 4-metric is C04",
                        "eulerian_kinematics is end to end: projector entries are derived from the 3+1 form of the inverse metric (C08b), every intermediate key is the code's own formula",
                        "convergence order is checked by the two-resolution oracle only"]
    r = corecheck.regen_and_validate(ctx, NEEDED)
    if r is not None and not ctx.broken():
        ctx.prove(MODULE, THEOREMS, timeout=2400)
        ctx.prove("AurelVerif.Props.C19b", ["AurelVerif.C19.hmixed4_eulerian", "AurelVerif.C19.eulerian_kinematics"], timeout=2400)
        ctx.forbidden_scan(["AurelVerif/Props/C19.lean", "AurelVerif/Props/C19b.lean", "AurelVerif/Props/C08b.lean", "AurelVerif/Props/C09.lean", "AurelVerif/Gen/CoreCurv.lean"])
        if ctx.tier == "thorough":
            ctx.leanchecker([MODULE])
    with np.errstate(all="ignore"):
        search(ctx, ctx.budget(2, 8) + (4 if ctx.broken() else 0))
        if r is not None:
            hseed = ctx.rng.randrange(10 ** 6)
            corecheck.history_pass(ctx, r[2], HISTORY_KEYS, lambda N: corecheck.make_rel(np.random.default_rng(hseed), N=N, order=4),
                                   "C19", Ns=(8, 16), max_alts=None if ctx.tier == "thorough" or ctx.broken() else 14)


def replay(ctx, obj):
    with np.errstate(all="ignore"):
        lo = measure(obj["generator_seed"], 10, obj["order"])
        hi = measure(obj["generator_seed"], 20, obj["order"])
    print("replay:", obj["oracle"], lo[obj["oracle"]], hi[obj["oracle"]])
    return 1 if search(ctx, 2) else 0


MANIFEST = {
    "category": "proof",
    "technique": "Lean 4 theorems (ring / field_simp) about the kinematic formulas regenerated from core.py by symbolic execution, specialised to the code's default fluid state; translation validation each run; two-resolution oracle on the real code as failing-input search",
    "text": "Proof, for every lapse != 0 (time dependent), shift, symmetric K and every difference operator with D0=0, D(-f)=-Df: with the default fluid state u^mu = n^mu and u_mu = n_mu; the generated spacetime gradient of u is, component by component, -K_mu_nu - n_mu d_nu ln(alpha) given the generated time row of the 4-D Christoffel symbols (whose closed form is proven too); the acceleration is d_i ln(alpha) with a.n = 0; the projected gradient is -K (4-D extension), hence vorticity 0, expansion -K, shear -A_ij.",
    "note": "Trusted: Lean kernel + 3 standard axioms; the symbolic-execution translator (validated each run); exact arithmetic. The end-to-end theorem eulerian_kinematics derives the projector entries too (from uniqueness of the inverse metric); discretisation error and convergence order are only watched by the oracle (N=10 vs N=20).",
}
