"""C07 — finite-difference operators are the stated-order derivative.

Tie A: Gen/Stencils.lean regenerated from finitedifference.py (coefficients,
dispatch, mask_len).  Tie B: weight-matrix correspondence of Model/Splice with
the real d3x/d3y/d3z and tensor variants (one-hot inputs, d = 1, exact).
Search oracle: Fornberg weights from an exact rational Vandermonde solve,
applied at every grid point.
"""
import itertools
from fractions import Fraction

import numpy as np

from lib import fw
from py2lean import stencils

MODULE = "AurelVerif.Props.C07"
THEOREMS = ["AurelVerif.C07." + t for t in (
    "stencil_tables_ok", "exact_on_polynomials", "onesided_spec", "periodic_spec",
    "symmetric_spec", "onesided_exact_everywhere", "d3_natural", "transpose12_involutive")]
MODULE_C = "AurelVerif.Props.C07c"
# the analytic half: truncation error of the operators on smooth fields (Taylor + moment conditions)
THEOREMS_C = ["AurelVerif.C07." + t for t in (
    "truncation_error", "truncation_error_contDiffOn", "truncation_error_contDiff",
    "truncation_constants", "scheme_truncation_constants", "table_truncation_error",
    "onesided_accurate_everywhere", "onesided_accurate_contDiffOn",
    "periodic_accurate_everywhere", "periodic_accurate_contDiff", "symmetric_accurate_everywhere",
    "order_add", "order_sub", "order_mul", "order_div", "order_expr")]
BND = {"none": "no boundary", "periodic": "periodic", "symmetric": "symmetric"}


def make_fd(shape, order, bnd, pshape=None):
    import aurel
    ps = pshape or shape
    param = {"Nx": ps[0], "Ny": ps[1], "Nz": ps[2], "xmin": 0.0, "ymin": 0.0, "zmin": 0.0,
             "dx": 0.5, "dy": 0.25, "dz": 0.125}   # distinct, exactly representable spacings
    return aurel.FiniteDifference(param, boundary=BND[bnd], fd_order=order, verbose=False)


def weight_matrix(func, in_shape):
    """Apply the real operator to every one-hot input; returns W[out_flat, in_flat]
    or the exception class name."""
    n = int(np.prod(in_shape))
    cols = []
    for j in range(n):
        e = np.zeros(n)
        e[j] = 1.0
        try:
            cols.append(np.asarray(func(e.reshape(in_shape))).ravel())
        except Exception as ex:  # noqa
            return type(ex).__name__
    return np.array(cols).T


def parse_model(line):
    if line == "err":
        return "err"
    assert line.startswith("ok "), line
    rows = {}
    for part in line[3:].split(";"):
        o, _, body = part.partition(":")
        d = {}
        if body:
            for t in body.split(","):
                i, _, w = t.partition("*")
                # coinciding samples: floats added in the code's order
                d[int(i)] = d.get(int(i), 0.0) + float(Fraction(w))
        rows[int(o)] = d
    return rows


def compare(W, model):
    """None if equal, else a description of the first difference."""
    if isinstance(W, str):
        return None if (model == "err" and W == "IndexError") else "impl raised %s, model %s" % (W, "err" if model == "err" else "ok")
    if model == "err":
        return "model raises IndexError, implementation returns"
    if len(model) != W.shape[0]:
        return "output size: impl %d, model %d" % (W.shape[0], len(model))
    for o in range(W.shape[0]):
        row = model.get(o, {})
        for i in range(W.shape[1]):
            if float(row.get(i, 0.0)) != W[o, i]:
                return "out %d in %d: impl %r model %s" % (o, i, W[o, i], row.get(i, 0))
    return None


def cases(ctx):
    """(line, callable->W) cases: every order x mode x axis x N from the
    minimum-3 (to exercise IndexError / wrap) to minimum+span, non-cubic."""
    span = ctx.budget(6, 30)
    out = []
    rng = ctx.rng
    for order, bnd, ax in itertools.product((2, 4, 6, 8), ("none", "periodic", "symmetric"), "xyz"):
        m = order // 2
        nmin = {"none": 3 * m, "periodic": m, "symmetric": m + 1}[bnd]
        for n in range(max(1, nmin - 2), nmin + span + 1):
            others = [rng.choice((1, 2, 3)), rng.choice((1, 2, 3))]
            shape = {"x": (n, others[0], others[1]), "y": (others[0], n, others[1]),
                     "z": (others[0], others[1], n)}[ax]
            out.append(("d3 %s %d %s %d %d %d %d %d %d" % ((ax, order, bnd) + shape + shape),
                        ("d3" + ax, order, bnd, shape, shape)))
    # the code uses param['N*'], not the array size: exercise a mismatch too
    for order, bnd in itertools.product((2, 4), ("none", "periodic", "symmetric")):
        shape, ps = (8, 2, 1), (7, 2, 1)
        out.append(("d3 x %d %s %d %d %d %d %d %d" % ((order, bnd) + shape + ps), ("d3x", order, bnd, shape, ps)))
    for order, bnd, r in itertools.product((2, 4, 6, 8) if ctx.tier == "thorough" else (2, 4), ("none", "periodic", "symmetric"), (0, 1, 2, 3)):
        m = order // 2
        n = {"none": 3 * m, "periodic": max(m, 2), "symmetric": m + 1}[bnd]
        shape = (n, n, n) if r < 2 else ((n, 1, 1) if bnd != "none" or order == 2 else None)
        if shape is None:
            continue
        if r >= 2:
            shape = (n, n, n) if n <= 3 else None
        if shape is None:
            continue
        out.append(("t%d %d %s %d %d %d" % ((r, order, bnd) + shape), ("t%d" % r, order, bnd, shape, shape)))
    return out


def impl_matrix(spec):
    kind, order, bnd, shape, ps = spec
    try:
        fd = make_fd(shape, order, bnd, ps)
    except Exception as ex:  # noqa
        return type(ex).__name__
    if kind.startswith("d3"):
        return weight_matrix(getattr(fd, kind), shape)
    r = int(kind[1])
    f = [fd.d3_scalar, fd.d3_rank1tensor, fd.d3_rank2tensor, fd.d3_rank3tensor][r]
    return weight_matrix(f, (3,) * r + tuple(shape))


def fornberg(offsets, x0=0):
    """First-derivative weights on integer offsets by exact Vandermonde solve."""
    import sympy as sp
    n = len(offsets)
    A = sp.Matrix(n, n, lambda j, k: sp.Rational(offsets[k] - x0) ** j)
    b = sp.Matrix(n, 1, lambda j, _: 1 if j == 1 else 0)
    return [Fraction(int(v.p), int(v.q)) for v in A.LUsolve(b)]


def search(ctx, budget):
    """Independent oracle on the real code: at every grid point of a 1-D line the
    returned weights must be the Fornberg weights of the stencil the point must
    use (one-sided), or the centered weights at wrapped / mirrored positions."""
    found = 0
    for order, bnd, ax in itertools.product((2, 4, 6, 8), ("none", "periodic", "symmetric"), "xyz"):
        m = order // 2
        nmin = {"none": 3 * m, "periodic": max(m, 1), "symmetric": m + 1}[bnd]
        for n in sorted({nmin, nmin + 1, nmin + budget}):
            if bnd == "periodic" and n < 2 * m + 1:
                continue  # wrapped samples coincide: weights legitimately add up
            if bnd == "symmetric" and n < 2 * m + 1:
                continue
            shape = {"x": (n, 2, 1), "y": (2, n, 1), "z": (1, 2, n)}[ax]
            W = impl_matrix(("d3" + ax, order, bnd, shape, shape))
            if isinstance(W, str):
                found += ctx.violation("%s order %d %s N=%d raised %s at the supported size" % (ax, order, bnd, n, W),
                                       {"kind": "input", "op": "d3" + ax, "order": order, "boundary": bnd, "shape": shape},
                                       {"site": "d3", "order": order, "boundary": bnd})
                continue
            axis = "xyz".index(ax)
            strides = np.array([shape[1] * shape[2], shape[2], 1])
            for o in range(W.shape[0]):
                idx = np.unravel_index(o, shape)
                i = idx[axis]
                exp = {}
                if bnd == "none":
                    offs = list(range(0, order + 1)) if i < m else (list(range(-order, 1)) if i >= n - m else list(range(-m, m + 1)))
                    for k, w in zip(offs, fornberg(offs)):
                        exp[i + k] = exp.get(i + k, 0) + w
                else:
                    offs = list(range(-m, m + 1))
                    for k, w in zip(offs, fornberg(offs)):
                        j = i + k
                        j = j % n if bnd == "periodic" else (-j if j < 0 else (2 * (n - 1) - j if j > n - 1 else j))
                        exp[j] = exp.get(j, 0) + w
                for j_in in range(W.shape[1]):
                    jdx = np.unravel_index(j_in, shape)
                    same_line = all(jdx[a] == idx[a] for a in range(3) if a != axis)
                    e = float(exp.get(jdx[axis], 0)) * (2.0, 4.0, 8.0)[axis] if same_line else 0.0
                    if abs(W[o, j_in] - e) > 4e-16 * max(1.0, abs(e)):
                        found += ctx.violation(
                            "d3%s order %d %s N=%d: weight of sample %s in output %s is %r, standard weight %r"
                            % (ax, order, bnd, n, tuple(int(v) for v in jdx), tuple(int(v) for v in idx), W[o, j_in], e),
                            {"kind": "input", "op": "d3" + ax, "order": order, "boundary": bnd, "shape": shape,
                             "out": [int(v) for v in idx], "in": [int(v) for v in jdx], "observed": W[o, j_in], "expected": e},
                            {"site": "d3", "order": order, "boundary": bnd})
                        break
                else:
                    continue
                break
            ctx.count("oracle_points", W.shape[0])
    return found


def run(ctx):
    ctx.trusted += ["Lean 4.33 kernel; axioms propext, Classical.choice, Quot.sound",
                    "py2lean/stencils.py (AST -> coefficient tables; validated by the weight-matrix correspondence)",
                    "Model/Splice.lean is hand-written; tied to d3x/d3y/d3z, d3_* by exact weight-matrix correspondence",
                    "numpy slicing/concatenate/transpose semantics; IEEE float: one-hot products and float(Fraction) are exact"]
    ctx.assumptions += ["round-off of the floating-point evaluation is not modelled (exact field)",
                        "operator accuracy on smooth fields (|D f - f'| <= C M h^p at every grid point) and error propagation "
                        "through ring operations / safe divisions ARE formalised (Props/C07c); NOT formalised: nested differences "
                        "(D(D f)) keep the order - needs discrete product/commutation estimates"]
    # 1. regenerate
    try:
        changed, info = stencils.regen()
        ctx.obligation("py2lean:stencils", True, "regenerated (changed=%s)" % changed, kind="translation")
        ctx.sample({"generated_stencil": "fd4_centered", "terms": info["stencils"].get("fd4_centered")})
    except Exception as ex:  # noqa
        ctx.obligation("py2lean:stencils", False, "translation failed: %r" % ex, kind="translation")
    # 2-3. prove + audit
    if not ctx.broken():
        ctx.prove(MODULE, THEOREMS)
        ctx.prove("AurelVerif.Props.C07b", ["AurelVerif.C07." + t for t in (
            "rowValue_add", "rowValue_smul", "rowValue_neg", "rowValue_zero", "evalLin_relabel", "d3_linear")])
        ctx.prove(MODULE_C, THEOREMS_C)
        ctx.forbidden_scan(["AurelVerif/Props/C07.lean", "AurelVerif/Props/C07b.lean", "AurelVerif/Props/C07c.lean",
                            "AurelVerif/Lemmas/C07Taylor.lean", "AurelVerif/Lemmas/C07Accuracy.lean",
                            "AurelVerif/Lemmas/C07AccuracySplice.lean", "AurelVerif/Lemmas/C07Compose.lean",
                            "AurelVerif/Spec/FDAccuracy.lean", "AurelVerif/Lemmas/Stencil.lean",
                            "AurelVerif/Lemmas/SpliceLemmas.lean", "AurelVerif/Lemmas/SpliceAux.lean", "AurelVerif/Lemmas/SpliceSpec.lean", "AurelVerif/Spec/FD.lean",
                            "AurelVerif/Model/Splice.lean", "AurelVerif/Gen/Stencils.lean"])
        if ctx.tier == "thorough":
            ctx.leanchecker([MODULE, MODULE_C])
    # 4. correspondence
    cs = cases(ctx)
    try:
        outs = ctx.run_driver("Driver/C07.lean", [c[0] for c in cs])
    except Exception as ex:  # noqa
        outs = None
        ctx.obligation("correspondence:driver", False, repr(ex), kind="correspondence")
    if outs is not None:
        bad = []
        kinds = {}
        for (line, spec), out in zip(cs, outs):
            W = impl_matrix(spec)
            d = compare(W, parse_model(out))
            k = "%s/%s" % (spec[0], "err" if isinstance(W, str) else "ok")
            kinds[k] = kinds.get(k, 0) + 1
            if d:
                bad.append((line, d))
        ctx.cov["correspondence_cases"] = len(cs)
        ctx.cov["correspondence_distribution"] = kinds
        ctx.sample({"correspondence_case": cs[7][0], "model_output": outs[7][:160]})
        ctx.obligation("correspondence: Model/Splice vs finitedifference.py weight matrices (%d cases)" % len(cs),
                       not bad, "; ".join("%s -> %s" % b for b in bad[:5]), kind="correspondence")
    # 5/6. search (sentinel always; deeper when something is broken)
    search(ctx, ctx.budget(3, 9) + (6 if ctx.broken() else 0))
    operator_probe(ctx, ctx.budget(4, 8))


def dense_inputs(rng, in_shape, r):
    """(label, array) inputs on which the operator must act as its weight matrix: dense, badly scaled, and — for
    rank-2 tensors — exactly symmetric, antisymmetric and NEARLY symmetric ones (thresholds such as np.allclose
    must not select another code path with another result)"""
    base = rng.integers(-8, 9, size=in_shape).astype(float)
    out = [("dense integers", base), ("scaled 1e-12", base * 1e-12), ("scaled 1e+9", base * 1e9),
           ("constant", np.full(in_shape, 3.0)), ("zeros", np.zeros(in_shape)),
           # integer-valued fields stored with an integer dtype (coordinates of a grid given with integer parameters,
           # masks, counters): the derivative is a float field all the same
           ("dense integers, dtype int64", base.astype(np.int64)), ("dense integers, dtype int32", base.astype(np.int32))]
    # the same values in other memory layouts (a transposition view as np.einsum / np.moveaxis / .T return it, Fortran
    # order, a strided view): the operator is a function of the VALUES
    out.append(("dense integers, Fortran order", np.asfortranarray(base)))
    big = np.zeros(tuple(2 * n for n in in_shape))
    view = big[tuple(slice(None, None, 2) for _ in in_shape)]
    view[...] = base
    out.append(("dense integers, strided view", view))
    if r >= 2:
        out.append(("dense integers, transposition view", np.swapaxes(np.ascontiguousarray(np.swapaxes(base, 0, 1)), 0, 1)))
    if r >= 2:
        S = base + np.swapaxes(base, 0, 1)
        A = rng.integers(-8, 9, size=in_shape).astype(float)
        A = A - np.swapaxes(A, 0, 1)
        out += [("exactly symmetric", S), ("antisymmetric", A), ("nearly symmetric S + 1e-6 A", S + 1e-6 * A),
                ("nearly symmetric S + 1e-10 A", S + 1e-10 * A), ("nearly zero 1e-9 (S + A)", 1e-9 * (S + A))]
    return out


def operator_probe(ctx, budget):
    """The operators are claimed to be ONE fixed linear map (the weight matrix) for every input and every call:
    (i) dense / structured inputs: op(f) = W f, with W extracted from one-hot inputs;
    (ii) histories on one operator object: the same buffer refilled in place between calls, the returned array
    overwritten by the caller before the next call, interleaved axes — every call must still return W f of the
    CURRENT contents."""
    found = 0
    nprng = np.random.default_rng(ctx.rng.randrange(10 ** 6))
    specs = []
    for order, bnd in itertools.product((2, 4, 6, 8), ("none", "periodic", "symmetric")):
        m = order // 2
        n = {"none": 3 * m, "periodic": 2 * m + 1, "symmetric": 2 * m + 1}[bnd] + ctx.rng.choice((0, 1, 2))
        for ax in "xyz":
            shape = {"x": (n, 2, 3), "y": (2, n, 3), "z": (3, 2, n)}[ax]
            specs.append(("d3" + ax, order, bnd, shape))
        if order <= budget:
            nt = {"none": 3 * m, "periodic": max(m, 2), "symmetric": m + 1}[bnd]
            for r in (1, 2, 3):
                if r < 3 or nt <= 3:
                    specs.append(("t%d" % r, order, bnd, (nt, nt, nt) if nt <= 4 else (nt, 2, 2)))
    for kind, order, bnd, shape in specs:
        try:
            fd = make_fd(shape, order, bnd)
        except Exception:  # noqa
            continue
        if kind.startswith("d3"):
            r, op, in_shape = 0, getattr(fd, kind), tuple(shape)
        else:
            r = int(kind[1])
            op = [fd.d3_scalar, fd.d3_rank1tensor, fd.d3_rank2tensor, fd.d3_rank3tensor][r]
            in_shape = (3,) * r + tuple(shape)
        W = weight_matrix(op, in_shape)
        if isinstance(W, str):
            continue
        aW = np.abs(W)

        def check(label, f, got, hist):
            exp = W @ f.ravel()
            # round-off: the code adds the stencil terms one by one (coinciding samples of the periodic / symmetric
            # modes are merged in W), so the bound uses the largest sample times the largest un-merged weight sum
            # (< 40 / spacing for orders <= 8, spacing >= 1/8), not only |W| |f|
            tol = 64 * np.finfo(float).eps * (aW @ np.abs(f.ravel())) + 1e-11 * float(np.max(np.abs(f))) + 1e-300
            err = np.abs(np.asarray(got).ravel() - exp)
            ctx.count("operator_probe_evaluations")
            if np.all(err <= tol):
                return 0
            o = int(np.argmax(err - tol))
            return 1 if ctx.violation(
                "%s order %d %s %s on input '%s'%s: output %d is %r, the weight matrix gives %r"
                % (kind, order, bnd, list(shape), label, hist, o, float(np.asarray(got).ravel()[o]), float(exp[o])),
                {"kind": "input", "op": kind, "order": order, "boundary": bnd, "shape": list(shape), "input": label,
                 "history": hist, "observed": float(np.asarray(got).ravel()[o]), "expected": float(exp[o])},
                {"site": "operator-probe", "op": kind[:2], "input": label, "history": bool(hist)}) else 0
        inputs = dense_inputs(nprng, in_shape, r)
        for label, f in inputs:
            # (views are passed as they are: a copy would normalise the memory layout)
            arg = f if ("order" in label or "view" in label) else f.copy()
            found += check(label, np.array(f, dtype=float), op(arg), "")
        # histories on the same operator object and the same buffer
        buf = inputs[0][1].copy()
        r1 = op(buf)
        found += check("dense integers", buf.copy(), r1, " (first call on a reused buffer)")
        g = nprng.integers(-8, 9, size=in_shape).astype(float)
        np.copyto(buf, g)                                   # the caller refills its array in place
        r2 = op(buf)
        found += check("refilled buffer", g, r2, " (same array object refilled in place, called again)")
        keep = np.array(r2, copy=True)
        try:
            r2[...] = -7.0                                  # the caller overwrites the array it was handed
        except Exception:  # noqa
            pass
        r3 = op(buf)
        found += check("refilled buffer", g, r3, " (after the caller overwrote the previous result)")
        if not np.array_equal(buf, g):
            found += 1 if ctx.violation("%s order %d %s: the operator modified its input array" % (kind, order, bnd),
                                        {"kind": "input", "op": kind, "order": order, "boundary": bnd, "shape": list(shape)},
                                        {"site": "operator-probe", "op": kind[:2], "input": "input-modified"}) else 0
        del keep
    return found


def replay(ctx, obj):
    spec = (obj["op"], obj["order"], obj["boundary"], tuple(obj["shape"]), tuple(obj["shape"]))
    n = search(ctx, 3) + operator_probe(ctx, 8)
    print("replay: %d violation(s) now" % n)
    return 1 if n else 0

MANIFEST = {
    "category": "proof",
    "technique": "Lean 4 theorems: kernel-decided stencil moment tables (regenerated from source) lifted by a generic moments=>polynomial-exactness lemma and a generic moments+Taylor(Lagrange)=>truncation-error lemma (Mathlib real analysis); unbounded-N splice theorems over a hand model tied to the code by exact weight-matrix correspondence",
    "text": "Proof for all N, orders, modes: the coefficient tables are regenerated from finitedifference.py on every run and decide +kernel checks offsets and moment conditions; a generic theorem lifts moments to exactness on every polynomial of degree <= p over any char-0 field; the splice model (one-sided/periodic/symmetric, axis exchange, tensor maps) is proven to produce the intended stencil at every grid point for every N above the stated minimum; the model is tied to the real d3x/d3y/d3z and d3_* by comparing complete weight matrices exactly. Analytic half (Props/C07c): proven once from the moment conditions and Taylor's theorem with Lagrange remainder, for every f that is (p+1) times differentiable on an interval containing the stencil with |f^(p+1)| <= M: |(1/h) sum_k w_k f(x+kh) - f'(x)| <= C M |h|^p with C = sum_k |w_k||k|^(p+1)/(p+1)! evaluated by the kernel on the twelve regenerated tables (centered 1/6, 1/18, 47/2100, 1957/198450; one-sided 1, 17/3, 647/15, 118717/315 for orders 2,4,6,8); lifted through the splice model to EVERY grid point (edge points included) of the 'no boundary' mode for every N >= 3p/2, of the periodic mode (f of period N h) and of the symmetric mode (f even about both end points); plus error propagation: sums, products, safe quotients and any rational expression of O(h^p)-accurate quantities are O(h^p)-accurate with explicit constants.",
    "note": "Trusted: Lean kernel + propext/Classical.choice/Quot.sound; the stencil translator; the hand-written splice model (validated by correspondence on N up to min+6 quick / min+30 thorough, all 4x3x3 configurations, non-cubic shapes); numpy semantics; exact-field arithmetic in place of IEEE-754. The accuracy theorems are statements about the model's rows evaluated in exact real arithmetic on samples f(x0 + j h) of one grid line (the 3-D operators act line by line: d3_natural / axis exchange). NOT proven: that nested differences (second derivatives computed as D(D f), as in the Christoffel-derivative / Ricci chain of C04-C06) keep order p - this needs discrete product/commutation estimates for the operators, in particular across the stencil switches of the one-sided mode; round-off; the constants are the simple bound sum|w||k|^(p+1)/(p+1)!, not the sharp leading-term constants.",
}
