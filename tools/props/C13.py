"""C13 — save_data / read_data round-trip in Aurel format.

Model: lean/AurelVerif/Model/Store.lean (hand-written, literal).  Theorems:
lean/AurelVerif/Props/C13.lean.  Tie: random save/read histories executed on
the real aurel in a temp directory and on Driver/C13.lean; canonical outputs
(identity codes, never floats) and the datasets on disk are diffed.  Search
oracle: a plain dict (it, var, rl) -> last saved code kept by the harness.
Dynamic check: save_data / read_data leave their argument objects untouched.
"""
import copy
import os
import re
import shutil
import tempfile

import numpy as np

from lib import fw

MODULE = "AurelVerif.Props.C13"
THEOREMS = ["AurelVerif.C13." + t for t in (
    "read_after_saves", "read_rejects_iff", "save_refines_spec", "save_frame", "save_error_is_saveErr",
    "save_accepts_iff", "history_accepted_iff", "discovery_columns_sound", "discovery_complete", "discovery_exact",
    "discovery_hypothesis_needed_prefix", "discovery_hypothesis_needed_name")]
LEAN_FILES = ["AurelVerif/Props/C13.lean", "AurelVerif/Lemmas/Store.lean", "AurelVerif/Spec/Store.lean",
              "AurelVerif/Model/Store.lean", "Driver/C13.lean"]

IT_POOL = [0, 1, 2, 5, 10, 20, 100, 1000, -3]
# (includes tensor names of var_mappings.yml: a column saved under such a name is read back by that name)
NAME_POOL = ["rho", "gxx", "alpha", "Ktrace", "x", "rho0", "gammadown3", "betaup3", "Kdown3", "Weyl_Psi", "betax"]
BAD_NAMES = ["q rl=1", "a rl", "rho rl=0", "b rl=10 c", " rl"]
RL_POOL = [0, 1, 2, 10, 11, 100]
SHAPES = [(), (2,), (2, 2), (1, 3)]
K = 10 ** 6
ERRS = ("ValueError", "KeyError", "IndexError", "TypeError")


# ------------------------------------------------------------------ encoding
def arr(c):
    """The array whose identity code is c: shape and dtype depend on c only."""
    shape = SHAPES[c % 4]
    n = int(np.prod(shape))
    a = (c + K * np.arange(n)).reshape(shape)
    return a.astype(np.float64) if (c // 4) % 2 == 0 else a.astype(np.int64)


def decode(a):
    """identity code of an array read back, or a description of the damage"""
    a = np.asarray(a)
    if a.size == 0:
        return "corrupt(empty)"
    if a.size == 0 or not np.isfinite(a.flat[0]):
        return "corrupt(shape %s dtype %s first %r)" % (a.shape, a.dtype, a.flat[0] if a.size else None)
    c = int(a.flat[0])
    if c != a.flat[0] or c < 0:
        return "corrupt(%r)" % (a.flat[0],)
    e = arr(c)
    if a.shape != e.shape or a.dtype != e.dtype or not np.array_equal(a, e):
        return "corrupt(code %d shape %s dtype %s)" % (c, a.shape, a.dtype)
    return c


def decode_named(name, a):
    """'it' datasets are integer scalars, 't' datasets float scalars with the
    integer code as value, everything else is arr(code)."""
    a = np.asarray(a)
    if name in ("it", "t"):
        if a.shape != () or not np.isfinite(a) or float(a) != int(a):
            return "corrupt(%s %r)" % (name, a)
        if name == "it" and a.dtype.kind != "i":
            return "corrupt(it dtype %s)" % a.dtype
        if name == "t" and a.dtype != np.float64:
            return "corrupt(t dtype %s)" % a.dtype
        return int(a)
    return decode(a)


def enc(name):
    return name.replace(" ", "~")


def dec(name):
    return name.replace("~", " ")


def show_list(xs):
    return ",".join(str(x) for x in xs) if xs else "-"


def show_col(col):
    if col is None:
        return "X"
    return show_list(["N" if e is None else e for e in col])


def op_line(op):
    if op["op"] in ("reset", "dump"):
        return op["op"]
    head = "%s rl=%d it=%s vars=%s" % (op["op"], op["rl"], show_list(op["it"]),
                                       show_list([enc(v) for v in op["vars"]]))
    if op["op"] == "read":
        return head
    d = ";".join("%s:%s" % (enc(n), show_col(c)) for n, c in op["data"]) or "-"
    return head + " data=" + d


def build_data(op):
    """the Python dictionary handed to save_data"""
    d = {}
    for n, col in op["data"]:
        if col is None:
            d[n] = None
        elif n == "it":
            d[n] = np.array(col) if op.get("it_array") and None not in col and col else list(col)
        elif n == "t":
            d[n] = [None if e is None else float(e) for e in col]
        else:
            d[n] = [None if e is None else arr(e) for e in col]
    return d


# ------------------------------------------------- argument immutability (T5)
def same(a, b):
    if isinstance(a, np.ndarray) or isinstance(b, np.ndarray):
        return (isinstance(a, np.ndarray) and isinstance(b, np.ndarray) and a.dtype == b.dtype
                and a.shape == b.shape and np.array_equal(a, b))
    if isinstance(a, dict):
        return isinstance(b, dict) and list(a.keys()) == list(b.keys()) and all(same(a[k], b[k]) for k in a)
    if isinstance(a, (list, tuple)):
        return type(a) is type(b) and len(a) == len(b) and all(same(x, y) for x, y in zip(a, b))
    return type(a) is type(b) and a == b


class ArgWatch:
    """deep copy before the call; afterwards identity of every container and
    array reachable from the arguments, and their content, must be unchanged"""

    def __init__(self, **objs):
        self.objs = objs
        self.before = copy.deepcopy(objs)
        self.ids = {k: self._ids(v) for k, v in objs.items()}

    def _ids(self, o):
        if isinstance(o, dict):
            return (id(o), [(k, self._ids(v)) for k, v in o.items()])
        if isinstance(o, list):
            return (id(o), [self._ids(v) for v in o])
        return id(o)

    def changed(self):
        out = []
        for k, v in self.objs.items():
            if not same(v, self.before[k]):
                out.append("%s content: %r -> %r" % (k, self.before[k], v))
            elif self._ids(v) != self.ids[k]:
                out.append("%s: an element object was replaced" % k)
        return out


# ---------------------------------------------------------- the real code
class Real:
    """executes ops on the real aurel in a private temp directory"""

    def __init__(self):
        import aurel  # noqa
        self.aurel = aurel
        self.dir = None
        self.mutations = []
        self.calls = 0

    def reset(self):
        self.close()
        self.dir = tempfile.mkdtemp(prefix="c13-", dir="/tmp")
        # the data directory does not exist yet: save_data has to create it
        self.path = os.path.join(self.dir, "sim", "all_iterations")

    def close(self):
        if self.dir and os.path.isdir(self.dir):
            shutil.rmtree(self.dir, ignore_errors=True)
        self.dir = None

    def param(self, op):
        return {"datapath": self.path + ("/" if op.get("slash") else "")}

    def save(self, op):
        param, data, vars_, it = self.param(op), build_data(op), list(op["vars"]), list(op["it"])
        w = ArgWatch(param=param, data=data, vars=vars_, it=it)
        kw = {"rl": op["rl"]}
        if not op.get("default_vars"):
            kw["vars"] = vars_
        if not op.get("default_it"):
            kw["it"] = it
        try:
            self.aurel.save_data(param, data, **kw)
            res = "ok"
        except Exception as ex:  # noqa
            res = type(ex).__name__
        self.calls += 1
        ch = w.changed()
        if ch:
            self.mutations.append(("save_data", ch))
        return res

    def read(self, op):
        param, vars_, it = self.param(op), list(op["vars"]), list(op["it"])
        w = ArgWatch(param=param, vars=vars_, it=it)
        kw = {"rl": op["rl"]}
        if not op.get("default_vars"):
            kw["vars"] = vars_
        if not op.get("default_it"):
            kw["it"] = it
        try:
            res = self.aurel.read_data(param, **kw)
        except Exception as ex:  # noqa
            res = type(ex).__name__
        self.calls += 1
        ch = w.changed()
        if ch:
            self.mutations.append(("read_data", ch))
        return res

    def dump(self):
        import h5py
        out = {}
        if os.path.isdir(self.path):
            for fn in os.listdir(self.path):
                m = re.fullmatch(r"it_(-?\d+)\.hdf5", fn)
                if not m:
                    out["?" + fn] = {}
                    continue
                with h5py.File(os.path.join(self.path, fn), "r") as f:
                    out[int(m.group(1))] = {k: decode_named(k.rsplit(" rl=", 1)[0], f[k]) for k in f.keys()}
        return out


def canon_read(res):
    """the returned dictionary in the driver's output format"""
    if isinstance(res, str):
        return res
    items = []
    for k, v in res.items():
        if isinstance(v, np.ndarray):
            s = "I" + show_list([int(x) for x in v])
        else:
            s = show_list(["N" if e is None else decode_named(k, e) for e in v])
        items.append((enc(k), s))
    return "ok " + ";".join("%s=%s" % p for p in sorted(items))


def canon_dump(d):
    if not d:
        return "-"
    return "|".join("%s:%s" % (i, ",".join("%s=%s" % (enc(k), v) for k, v in sorted((enc(k), v) for k, v in f.items())))
                    for i, f in sorted(d.items(), key=lambda p: p[0]))


def run_real(real, ops):
    outs = []
    for op in ops:
        if op["op"] == "reset":
            real.reset()
            outs.append("ok")
        elif op["op"] == "dump":
            outs.append(canon_dump(real.dump()))
        elif op["op"] == "save":
            r = real.save(op)
            outs.append(r if r == "ok" or r in ERRS else "other:" + r)
        else:
            outs.append(canon_read(real.read(op)))
    return outs


# ------------------------------------------------------------- generators
def gen_data(rng, malformed, valid_only=False):
    """(data items, iteration list of the dictionary or None)"""
    n = rng.choice((1, 2, 2, 3, 3, 4))
    has_it = rng.random() < 0.7
    items = []
    data_it = None
    if has_it:
        data_it = rng.sample(IT_POOL, n)             # any order, not sorted
        if not valid_only and rng.random() < 0.12 and n > 1:
            data_it[rng.randrange(1, n)] = data_it[0]  # a duplicated iteration
        if not valid_only and rng.random() < 0.1:
            data_it[rng.randrange(n)] = None
        col = list(data_it)
        if not valid_only and rng.random() < 0.05:
            col = None
        items.append(("it", col))
    names = rng.sample(NAME_POOL, rng.choice((1, 2, 3)))
    if malformed and rng.random() < 0.6:
        names[rng.randrange(len(names))] = rng.choice(BAD_NAMES)
    if rng.random() < 0.6:
        names.insert(rng.randrange(len(names) + 1), "t")
    for nm in names:
        if not valid_only and rng.random() < 0.1:
            items.append((nm, None))
            continue
        m = n
        if not valid_only and rng.random() < (0.25 if malformed else 0.05):
            m = rng.choice((max(0, n - 1), n + 1, 0))
        col = [rng.randrange(0, 4000) for _ in range(m)]
        if not valid_only:
            for j in range(m):
                if rng.random() < 0.15:
                    col[j] = None            # ragged None entries
        items.append((nm, col))
    rng.shuffle(items)
    return items, (data_it if has_it and dict(items)["it"] is not None else None), n


def gen_save(rng, malformed, valid_only=False):
    items, data_it, n = gen_data(rng, malformed, valid_only)
    d = dict(items)
    names = [k for k in d]
    if rng.random() < 0.5:
        vars_ = []
    else:
        vars_ = rng.sample(names, rng.randrange(1, len(names) + 1))
        if not valid_only and rng.random() < 0.15:
            vars_.append(vars_[0])
        if not valid_only and rng.random() < (0.3 if malformed else 0.04):
            vars_.append("missing")
    eff = list(vars_) or names
    eff += [k for k in ("it", "t") if k in d and k not in eff]

    def usable(pos):
        return all(d[v] is None or (pos < len(d[v]) and d[v][pos] is not None) for v in eff if v in d)
    if data_it is not None:
        cand = [i for j, i in enumerate(data_it) if i is not None and data_it.index(i) == j]
        good = [i for i in cand if usable(data_it.index(i))]
        pool = good if (valid_only or rng.random() < 0.85) else cand
        it = rng.sample(pool, rng.randrange(1, len(pool) + 1)) if pool else []
        if not valid_only and rng.random() < (0.3 if malformed else 0.04):
            it.append(rng.choice([i for i in IT_POOL if i not in data_it] or [7]))
    else:
        # no iteration list in the dictionary: positions = ranks of sorted(set(it))
        kmax = n
        while kmax > 0 and not all(usable(p) for p in range(kmax)):
            kmax -= 1
        if not valid_only and rng.random() < (0.3 if malformed else 0.1):
            kmax = n + 1 if rng.random() < 0.5 else n
        it = rng.sample(IT_POOL, rng.randrange(1, kmax + 1)) if kmax >= 1 else []
    if it and not valid_only and rng.random() < 0.3:
        it.append(it[0])                     # duplicated
    rng.shuffle(it)                          # unsorted
    op = {"op": "save", "rl": rng.choice(RL_POOL[:4] if not malformed else RL_POOL), "it": it, "vars": vars_,
          "data": [[k, v] for k, v in items], "slash": rng.random() < 0.5,
          "it_array": rng.random() < 0.3}
    if not vars_ and rng.random() < 0.3:
        op["default_vars"] = True
    if it == [0] and rng.random() < 0.5:
        op["default_it"] = True
    if not it and valid_only:
        return gen_save(rng, malformed, valid_only)
    return op


def gen_read(rng, malformed, names_seen, its_seen=(), rls_seen=()):
    it = rng.sample(IT_POOL, rng.randrange(1, 5))
    if its_seen and rng.random() < 0.7:      # mostly iterations that were saved, plus strangers
        its_seen = sorted(set(its_seen))
        it = rng.sample(its_seen, rng.randrange(1, min(4, len(its_seen)) + 1)) + it[:rng.randrange(0, 2)]
    if rng.random() < 0.3:
        it.append(it[0])
    if malformed and rng.random() < 0.08:
        it = []
    pool = sorted(set(names_seen) | set(NAME_POOL[:3]))
    if rng.random() < 0.4:
        vars_ = []
    else:
        vars_ = rng.sample(pool, rng.randrange(1, min(4, len(pool)) + 1))
        r = rng.random()
        if r < 0.15:
            vars_.append("t")
        elif r < 0.25:
            vars_.append("it")
        if rng.random() < 0.15:
            vars_.append(vars_[0])
    rl = rng.choice(RL_POOL[:4] if not malformed else RL_POOL)
    if rls_seen and rng.random() < 0.7:
        rl = rng.choice(list(rls_seen))
    op = {"op": "read", "rl": rl, "it": it, "vars": vars_, "slash": rng.random() < 0.5}
    if not vars_ and rng.random() < 0.3:
        op["default_vars"] = True
    if it == [0] and rng.random() < 0.5:
        op["default_it"] = True
    return op


def gen_history(rng, malformed=False, valid_only=False, nops=None):
    ops = [{"op": "reset"}]
    seen, its, rls = [], [], []
    for _ in range(nops or rng.randrange(3, 11)):
        if rng.random() < 0.55 or not seen:
            op = gen_save(rng, malformed, valid_only)
            seen += [k for k, _ in op["data"] if k != "it"]
            its += op["it"]
            rls.append(op["rl"])
        else:
            op = gen_read(rng, malformed and not valid_only, seen, its, rls)
        ops.append(op)
    if not valid_only:
        ops.append({"op": "dump"})
    return ops


# ---------------------------------------------------- correspondence (tie B)
def correspondence(ctx, real, n_hist, malformed, label):
    hists = [gen_history(ctx.rng, malformed) for _ in range(n_hist)]
    ops = [op for h in hists for op in h]
    lines = [op_line(op) for op in ops]
    try:
        model = ctx.run_driver("Driver/C13.lean", lines)
    except Exception as ex:  # noqa
        ctx.obligation("correspondence:driver (%s)" % label, False, repr(ex), kind="correspondence")
        return
    impl = run_real(real, ops)
    real.close()
    bad = []
    dist = ctx.cov.setdefault("correspondence_distribution", {})
    for j, (op, line, m, r) in enumerate(zip(ops, lines, model, impl)):
        kind = op["op"]
        if kind == "save":
            kind += "/" + r + ("/no-it-key" if "it" not in dict(map(tuple, op["data"])) else "") \
                + ("/vars=[]" if not op["vars"] else "")
        elif kind == "read":
            kind += "/" + ("vars=[]" if not op["vars"] else "vars") + ("/err" if not r.startswith("ok") else "")
        dist[kind] = dist.get(kind, 0) + 1
        if op["op"] == "read" and r.startswith("ok"):
            ents = [e for item in r[3:].split(";") if "=I" not in item for e in item.split("=", 1)[1].split(",")]
            ctx.count("read_entries", len(ents))
            ctx.count("read_entries_with_data", sum(1 for e in ents if e not in ("N", "-")))
        if m != r:
            bad.append("op %d `%s`: impl `%s` model `%s`" % (j, line[:200], r[:200], m[:200]))
    if len(model) != len(impl):
        bad.append("driver printed %d lines for %d ops" % (len(model), len(impl)))
    ctx.count("correspondence_ops", len(ops))
    ctx.count("correspondence_histories", n_hist)
    sizes = ctx.cov.setdefault("sizes", {"max_ops_per_history": 0, "max_columns": 0, "max_it": 0})
    sizes["max_ops_per_history"] = max([sizes["max_ops_per_history"]] + [len(h) - 2 for h in hists])
    sizes["max_columns"] = max([sizes["max_columns"]] + [len(op["data"]) for op in ops if op["op"] == "save"])
    sizes["max_it"] = max([sizes["max_it"]] + [len(op["it"]) for op in ops if "it" in op])
    for j in (1, 2, 3):
        if j < len(ops) and ops[j]["op"] in ("save", "read"):
            ctx.sample({"stream": label, "op": lines[j][:240], "impl": impl[j][:240], "model": model[j][:240]})
    ctx.obligation("correspondence: Model/Store vs reading.py save_data/read_data, %s stream (%d histories, %d ops)"
                   % (label, n_hist, len(ops)), not bad, "; ".join(bad[:4]), kind="correspondence")
    return bad


# ------------------------------------------------- independent oracle search
def oracle_check(real, ops, stop_at_first=True):
    """Runs a history on the real code next to the harness's own ground truth
    `(it, var, rl) -> code`.  Returns a list of failures
    (index, what, fingerprint, expected, observed)."""
    truth = {}
    fails = []
    real.reset()
    try:
        for j, op in enumerate(ops):
            if op["op"] == "save":
                d = dict(map(tuple, op["data"]))
                r = real.save(op)
                if r != "ok":
                    fails.append((j, "save_data raised %s on a well-formed save" % r,
                                  {"kind": "save-raised", "error": r}, "ok", r))
                    if stop_at_first:
                        return fails
                    continue
                names = list(op["vars"]) or list(d)
                names += [k for k in ("it", "t") if k in d and k not in names]
                want = sorted(set(op["it"]))
                for rank, i in enumerate(want):
                    pos = d["it"].index(i) if d.get("it") is not None else rank
                    for v in names:
                        if d[v] is not None:
                            truth[(i, v, op["rl"])] = d[v][pos]
            elif op["op"] == "read":
                res = real.read(op)
                want = sorted(set(op["it"]))
                if isinstance(res, str):
                    fails.append((j, "read_data raised %s" % res, {"kind": "read-raised", "error": res}, "dict", res))
                    if stop_at_first:
                        return fails
                    continue
                tin = "t" in op["vars"]
                if "it" not in op["vars"]:
                    got = [int(x) for x in np.asarray(res.get("it", []))]
                    if got != want:
                        fails.append((j, "returned 'it' is %r, requested %r" % (got, want),
                                      {"kind": "it-column"}, want, got))
                if op["vars"]:
                    expect_names = set(op["vars"]) | {"t"}
                else:
                    expect_names = {"t"} | {v for (i, v, r) in truth if r == op["rl"] and i in want and v != "it"}
                for v in sorted(expect_names):
                    if v not in res:
                        fails.append((j, "variable %r missing from the returned dictionary" % v,
                                      {"kind": "missing-var", "discovery": not op["vars"]}, "present", "absent"))
                for v, col in res.items():
                    if isinstance(col, np.ndarray) and v == "it":
                        continue
                    exp = [truth.get((i, v, op["rl"])) for i in want]
                    if len(col) != len(want):
                        fails.append((j, "column %r has %d entries for %d requested iterations" % (v, len(col), len(want)),
                                      {"kind": "column-length", "var": v, "t_in_vars": tin}, len(want), len(col)))
                        continue
                    got = [None if e is None else decode_named(v, e) for e in col]
                    if got != exp:
                        fails.append((j, "read (it=%r, var=%r, rl=%d): returned %r, last saved %r" % (want, v, op["rl"], got, exp),
                                      {"kind": "wrong-value"}, exp, got))
                    if v not in expect_names and any(e is not None for e in got):
                        fails.append((j, "unsaved variable %r returned with data" % v, {"kind": "wrong-value"}, None, got))
                if fails and stop_at_first:
                    return fails
    finally:
        real.close()
    return fails


def shrink(real, ops, fp):
    """drop ops while a failure with the same fingerprint stays"""
    def still(o):
        return any(f[2] == fp for f in oracle_check(real, o, stop_at_first=False))
    cur = list(ops)
    j = len(cur) - 1
    while j >= 1:
        cand = cur[:j] + cur[j + 1:]
        if len(cand) > 1 and still(cand):
            cur = cand
        j -= 1
    return cur


def report(ctx, real, ops, fails):
    n = 0
    seen = set()
    for (j, what, fp, exp, obs) in fails:
        key = tuple(sorted(fp.items()))
        if key in seen:
            continue
        seen.add(key)
        small = ops[:j + 1] if ctx.match_known(fp) else shrink(real, ops[:j + 1], fp)
        n += bool(ctx.violation(what, {"kind": "history", "ops": small, "lines": [op_line(o) for o in small],
                                       "expected": exp, "observed": obs}, fp))
    return n


# past failures, run first on every search (regressions must show up as violations):
# 't' requested explicitly used to come back with two entries per iteration
# (fixed in /repo 49062a0)
CORPUS = [
    [{"op": "reset"},
     {"op": "read", "rl": 0, "it": [0], "vars": ["t"]}],
    [{"op": "reset"},
     {"op": "save", "rl": 0, "it": [20, 0], "vars": [],
      "data": [["it", [0, 10, 20]], ["t", [100, 101, 102]], ["rho", [1, 2, 3]]]},
     {"op": "read", "rl": 0, "it": [0, 20, 5], "vars": ["t", "rho"]},
     {"op": "read", "rl": 0, "it": [0, 20, 5], "vars": ["rho", "t", "t"], "slash": True}],
]


def search(ctx, real, n_hist):
    found = 0
    kinds = ctx.cov.setdefault("search_ops", {})
    ctx.cov["search_corpus"] = len(CORPUS)
    for j in range(len(CORPUS) + n_hist):
        if j < len(CORPUS):
            ops = copy.deepcopy(CORPUS[j])
        else:
            ops = gen_history(ctx.rng, malformed=False, valid_only=True, nops=ctx.rng.randrange(4, 12))
        for op in ops:
            kinds[op["op"]] = kinds.get(op["op"], 0) + 1
        fails = oracle_check(real, ops, stop_at_first=False)
        if fails:
            found += report(ctx, real, ops, fails)
        if found >= 3:
            break
    ctx.count("search_histories", n_hist)
    return found


def report_mutations(ctx, real):
    seen = set()
    for fn, ch in real.mutations:
        if fn in seen:
            continue
        seen.add(fn)
        ctx.violation("%s modified its arguments: %s" % (fn, "; ".join(ch)[:400]),
                      {"kind": "input", "function": fn, "changes": ch[:5]},
                      {"kind": "args-mutated", "function": fn})
    ctx.obligation("arguments of save_data/read_data unchanged (identity and content, %d calls)" % real.calls,
                   not real.mutations, "; ".join("%s: %s" % (f, c[0]) for f, c in real.mutations[:3]),
                   kind="correspondence")


# --------------------------------------------------------------------- run
def counterexamples(ctx, real):
    """the T4 counterexamples of Props/C13.lean on the real code (reported, not a
    violation: every returned value is still the saved one / None)"""
    ops = [{"op": "reset"},
           {"op": "save", "rl": 10, "it": [3], "vars": [], "data": [["x", [7]]]},
           {"op": "read", "rl": 1, "it": [3], "vars": []},
           {"op": "reset"},
           {"op": "save", "rl": 0, "it": [4], "vars": [], "data": [["q rl=1", [9]]]},
           {"op": "read", "rl": 0, "it": [4], "vars": []},
           {"op": "read", "rl": 0, "it": [4], "vars": ["q rl=1"]}]
    out = run_real(real, ops)
    real.close()
    ctx.cov["discovery_counterexamples_on_real_code"] = {
        "x saved at rl=10 only, read(vars=[], rl=1)": out[2],
        "'q rl=1' saved at rl=0, read(vars=[], rl=0)": out[5],
        "'q rl=1' saved at rl=0, read(vars=['q rl=1'], rl=0)": out[6]}
    exp = ["ok it=I3;t=N;x=N", "ok it=I4;q=N;t=N", "ok it=I4;q~rl=1=9;t=N"]
    ctx.obligation("discovery counterexamples of Props/C13 behave on the real code as in the model",
                   [out[2], out[5], out[6]] == exp, repr([out[2], out[5], out[6]]), kind="correspondence")


def run(ctx):
    ctx.trusted += ["Lean 4.33 kernel; axioms propext, Classical.choice, Quot.sound",
                    "Model/Store.lean is hand-written; tied to save_data/read_data by correspondence on random histories (results, error classes, datasets on disk)",
                    "h5py / file system: a directory of it_<n>.hdf5 files behaves as a finite map; int -> file name is injective",
                    "order of dict / HDF5 keys and of list(set(...)) is not modelled (results compared as sorted dictionaries)"]
    ctx.assumptions += ["iterations are Python ints, rl a natural number, names contain no '/'",
                        "durability, concurrent writers and crashes are out of scope",
                        "ET-style paths (param with 'simulation') are not part of C13"]
    ctx.prove(MODULE, THEOREMS)
    ctx.forbidden_scan(LEAN_FILES)
    if ctx.tier == "thorough":
        ctx.leanchecker([MODULE])
    real = Real()
    try:
        correspondence(ctx, real, ctx.budget(500, 5000), False, "well-formed")
        correspondence(ctx, real, ctx.budget(300, 3000), True, "malformed")
        counterexamples(ctx, real)
        ctx.cov["error_kinds_hit"] = sorted({k.split("/")[1] for k in ctx.cov.get("correspondence_distribution", {})
                                             if k.startswith("save/")})
        search(ctx, real, ctx.budget(150, 1500) * (4 if ctx.broken() else 1))
        report_mutations(ctx, real)
    finally:
        real.close()


def replay(ctx, obj):
    real = Real()
    try:
        if obj.get("kind") == "history":
            fails = oracle_check(real, obj["ops"], stop_at_first=False)
            for f in fails:
                print("replay: op %d: %s" % (f[0], f[1]))
            print("replay: %d failure(s) now" % len(fails))
            return 1 if fails else 0
        if obj.get("kind") == "input" and obj.get("function"):
            n = search(ctx, real, 20)
            print("replay: argument mutations now: %r" % (real.mutations[:3],))
            return 1 if real.mutations or n else 0
        print("replay: nothing to re-execute for kind %r; re-run ./check C13" % obj.get("kind"))
        return 1
    finally:
        real.close()


MANIFEST = {
    "category": "proof",
    "technique": "Lean 4 theorems over a hand-written executable store model (association lists, literal transcription of save_data/read_aurel_data incl. error cases and partial writes), induction over save histories, refinement to an abstract map (it, name, rl) -> value; model tied to the code by diffing random save/read histories and the datasets on disk",
    "text": "Proof for all histories: after any sequence of successful saves, read_data(i, v, r) returns the entry of the most recently saved dictionary that belongs to iteration i (position of i in data['it'], or its rank when the dictionary has no iteration list) and None where nothing was saved; a save changes no other cell; the rejected inputs are characterised exactly; discovery with vars=[] is exact under a stated naming hypothesis that is shown to be necessary. The model is tied to the real save_data/read_data by correspondence on random histories, the argument objects are checked dynamically to stay untouched.",
    "note": "Trusted: Lean kernel + propext/Classical.choice/Quot.sound; the hand-written model (validated by correspondence: quick 800 histories / thorough 8000, well-formed and malformed streams, error classes and on-disk datasets compared); h5py semantics.",
}
