"""C11 — Einstein Toolkit output is read back exactly for any file and process layout.

Tie A: Gen/VarMaps.lean regenerated from var_mappings.yml + the three
name-translation functions (AST-checked); kernel-decided round-trip theorems.
Tie B: Model/Chunks.lean (hand-written) against the real `join_chunks`, `fixij`,
`read_ET_group_or_var` (ghost trimming through a real HDF5 file) on
identity-encoded integer blocks, and against the restart choice of the real
`read_data` on generated directories.
Search oracle: the ground truth of the generator (lib/etgen.py) for the
directory it wrote, which knows nothing of aurel or of the Lean model.
"""
import contextlib
import io
import os
import shutil
import tempfile

import numpy as np

from lib import etgen, fw
from py2lean import varmaps

MODULE = "AurelVerif.Props.C11"
THEOREMS = ["AurelVerif.C11." + t for t in (
    "join_split", "join_split_general_path", "trim_ghost", "trim_ghost_zero", "fixij_axes", "fixij_shape",
    "fixij_involutive", "join_mismatch_x", "join_mismatch_y", "join_mismatch_z", "read_chunks_exact",
    "restart_latest", "restart_none", "read_order_complete",
    "scalar_names_roundtrip", "tensor_components_roundtrip", "tensor_expansion_commutes",
    "group_members_are_ET_names")]
LEAN_FILES = ["AurelVerif/Props/C11.lean", "AurelVerif/Lemmas/Chunks.lean", "AurelVerif/Model/Chunks.lean",
              "AurelVerif/Gen/VarMaps.lean", "Driver/C11.lean"]


@contextlib.contextmanager
def quiet():
    buf = io.StringIO()
    with contextlib.redirect_stdout(buf):
        yield buf


def reading():
    from aurel import reading as r
    return r


MAX_REPORTS = 3


def report(ctx, what, replay, fp):
    """ctx.violation, at most MAX_REPORTS replay files per site (the rest is counted)"""
    seen = ctx.cov.setdefault("failing_inputs_by_site", {})
    seen[fp["site"]] = seen.get(fp["site"], 0) + 1
    if seen[fp["site"]] > MAX_REPORTS:
        return 1 if ctx.match_known(fp) is None else 0
    return 1 if ctx.violation(what, replay, fp) else 0


# --------------------------------------------------------------------------
# level (i): direct calls on identity-encoded integer blocks
# --------------------------------------------------------------------------
def show(a):
    a = np.asarray(a)
    if a.size == 0:
        return "ok empty"
    return "ok %d %d %d : %s" % (a.shape + (" ".join(str(int(v)) for v in a.ravel()),))


def index_block(v0, sz, sy, sx):
    return v0 + np.arange(sz * sy * sx, dtype=np.int64).reshape(sz, sy, sx)


def gen_join(rng, max_chunks=60):
    """random hierarchical decomposition + enumeration order + base origin"""
    while True:
        nx, ny, nz = (rng.randint(1, 8) for _ in range(3))
        kmax = rng.choice(((1, 1, 1), (2, 1, 1), (1, 2, 1), (1, 1, 2), (2, 2, 1), (2, 2, 2), (3, 2, 2), (3, 3, 3),
                           (3, 3, 3), (4, 4, 4), (4, 4, 4), (5, 4, 3), (4, 5, 6), (6, 5, 4)))
        dec = etgen.random_decomp(rng, nx, ny, nz, kmax, uniform_prob=0.15)
        n = etgen.nchunks(dec)
        if n <= max_chunks:
            break
    perm = list(range(n))
    mode = rng.random()
    if mode < 0.15:
        pass                      # canonical order
    elif mode < 0.3:
        perm.reverse()
    else:
        rng.shuffle(perm)
    base = [rng.choice((0, 0, 3, 17)) for _ in range(3)]
    return {"op": "join", "shape": [nx, ny, nz], "decomp": dec, "perm": perm, "base": base}


def join_line(c):
    nx, ny, nz = c["shape"]
    return "join %d %d %d %d %d %d %s %s" % (c["base"][0], c["base"][1], c["base"][2], nz, ny, nx,
                                              etgen.decomp_str(c["decomp"]), ",".join(map(str, c["perm"])))


def join_real(c):
    """(canonical output of the real join_chunks, expected array)"""
    nx, ny, nz = c["shape"]
    A = index_block(0, nz, ny, nx)
    chunks = etgen.canonical_chunks(c["decomp"])
    cut = {}
    for j in c["perm"]:
        ox, oy, oz, xl, yl, zl = chunks[j]
        cut[(c["base"][0] + ox, c["base"][1] + oy, c["base"][2] + oz)] = A[oz:oz + zl, oy:oy + yl, ox:ox + xl].copy()
    try:
        out = reading().join_chunks(cut)
    except Exception as ex:  # noqa
        return "err", A, type(ex).__name__
    return show(out), A, out


def gen_raw(rng):
    """malformed stream: boxes that are not a hierarchical partition"""
    n = rng.choice((0, 1, 2, 2, 3, 3, 4, 5, 6))
    cs = []
    for i in range(n):
        cs.append([rng.randint(0, 3), rng.randint(0, 2), rng.randint(0, 2),
                   rng.randint(1, 3), rng.randint(1, 3), rng.randint(1, 3), 100 * i])
    if n >= 2 and rng.random() < 0.5:     # make many of them joinable along one axis
        ax = rng.randrange(3)
        for i, c in enumerate(cs):
            c[0:3] = [0, 0, 0]
            c[ax] = i if rng.random() < 0.8 else 0
            for d in range(3):
                if d != 2 - ax and rng.random() < 0.85:
                    c[3 + d] = cs[0][3 + d]
    return {"op": "raw", "chunks": cs}


def raw_line(c, op="raw", ghost=None):
    head = op if ghost is None else "%s %d %d %d" % ((op,) + tuple(ghost))
    return (head + " " + " ".join(",".join(map(str, ch)) for ch in c["chunks"])).strip()


def raw_real(c):
    cut = {}
    for ix, iy, iz, sz, sy, sx, v0 in c["chunks"]:
        cut[(ix, iy, iz)] = index_block(v0, sz, sy, sx)
    try:
        return show(reading().join_chunks(cut))
    except (ValueError, IndexError):
        return "err"


def gen_read(rng):
    """ghost-padded chunks of a hierarchical decomposition, through a real HDF5 file"""
    nx, ny, nz = (rng.randint(1, 5) for _ in range(3))
    dec = etgen.random_decomp(rng, nx, ny, nz, rng.choice(((1, 1, 1), (2, 2, 2), (3, 2, 2))), 0.2)
    chunks = etgen.canonical_chunks(dec)
    n = len(chunks)
    r = rng.random()
    if r < 0.12:
        ghost = [0, 0, 0]                      # malformed: [0:-0] is empty
    elif r < 0.2 and n == 1:
        ghost = [rng.randint(0, 2) for _ in range(3)]
    else:
        g = rng.randint(1, 4)
        ghost = [g, g, g] if rng.random() < 0.5 else [rng.randint(1, 4) for _ in range(3)]
    order = list(range(n))
    rng.shuffle(order)
    cs = []
    for j, (ox, oy, oz, xl, yl, zl) in enumerate(chunks):
        cs.append([ox, oy, oz, zl + 2 * ghost[2], yl + 2 * ghost[1], xl + 2 * ghost[0], 1000 * order[j]])
    # dataset c=<k> holds canonical chunk j with order[j] = k; h5py lists keys alphabetically
    return {"op": "read", "ghost": ghost, "chunks": cs, "order": order}


def read_enumeration(c):
    """the order in which the real code meets the chunks: c = 0, 1, 2, ..."""
    n = len(c["chunks"])
    inv = [0] * n
    for j, k in enumerate(c["order"]):
        inv[k] = j
    return [c["chunks"][inv[k]] for k in range(n)]


def read_real(c, tmp):
    fn = os.path.join(tmp, "alp.h5")
    import h5py
    n = len(c["chunks"])
    with h5py.File(fn, "w") as f:
        for j, (ix, iy, iz, sz, sy, sx, v0) in enumerate(c["chunks"]):
            key = "ADMBASE::alp it=0 tl=0 rl=0" + (" c=%d" % c["order"][j] if n > 1 else "")
            ds = f.create_dataset(key, data=index_block(v0, sz, sy, sx).astype(np.float64))
            ds.attrs["cctk_nghostzones"] = np.array(c["ghost"], dtype=np.int32)
            ds.attrs["iorigin"] = np.array([ix, iy, iz], dtype=np.int32)
            ds.attrs["time"] = 0.0
    try:
        with quiet():
            out = reading().read_ET_group_or_var(["alp"], [fn], "in file", it=[0], rl=0)
        return show(out["alpha"][0])
    except (ValueError, IndexError):
        return "err"
    finally:
        os.remove(fn)


def direct_cases(ctx, tmp):
    rng = ctx.rng
    cases = []   # (line, real output, kind)
    njoin = ctx.budget(1500, 8000)
    found = 0
    sizes = {}
    for _ in range(njoin):
        c = gen_join(rng)
        out, A, got = join_real(c)
        n = len(c["perm"])
        b = "1" if n == 1 else "2-3" if n <= 3 else "4-8" if n <= 8 else "9-27" if n <= 27 else "28-60"
        sizes[b] = sizes.get(b, 0) + 1
        cases.append((join_line(c), out, "join"))
        # independent oracle: the joined array is the array that was cut
        if out != show(A):
            found += report(
                ctx, "join_chunks of %d chunks of a %s grid (decomposition %s, order %s) %s" % (
                    n, c["shape"], etgen.decomp_str(c["decomp"]), c["perm"],
                    "raised " + got if out == "err" else "returned a different array"),
                {"kind": "input", "op": "join", "case": c}, {"site": "join_chunks", "chunks": n})
    ctx.cov["direct_join_chunk_counts"] = sizes
    for _ in range(ctx.budget(400, 3000)):
        c = gen_raw(rng)
        cases.append((raw_line(c), raw_real(c), "raw"))
    for _ in range(ctx.budget(200, 1500)):
        c = gen_read(rng)
        cc = dict(c, chunks=read_enumeration(c))
        cases.append((raw_line(cc, "read", c["ghost"]), read_real(c, tmp), "read"))
    for _ in range(ctx.budget(60, 300)):
        g = [rng.randint(1, 3) for _ in range(3)]
        if rng.random() < 0.25:
            g[rng.randrange(3)] = 0
        s = [rng.randint(1, 8) if rng.random() < 0.1 else 2 * gi + rng.randint(1, 4) for gi in g]
        a = index_block(0, *s)
        cases.append(("trim %d %d %d %d %d %d" % tuple(g + s), show(a[g[2]:-g[2], g[1]:-g[1], g[0]:-g[0]]), "trim"))
    for _ in range(ctx.budget(20, 100)):
        s = [rng.randint(1, 6) for _ in range(3)]
        cases.append(("fixij %d %d %d" % tuple(s), show(reading().fixij(index_block(0, *s))), "fixij"))
    return cases, found


def name_cases():
    r = reading()
    names = set()
    for tab in (r.aurel_tensor_to_scalar, r.aurel_to_ET_varnames, r.known_groups):
        for k, v in tab.items():
            names.add(k)
            names.update(v)
    for k, v in r.ET_to_aurel_varnames.items():
        names.update((k, v))
    names.update(("notavariable", "x"))
    names = sorted(n for n in names if " " not in n)
    cases = []
    for n in names:
        cases.append(("var2et " + n, "ok " + ",".join(r.transform_vars_aurel_to_ET([n])), "names"))
        cases.append(("et2var " + n, "ok " + r.transform_vars_ET_to_aurel(n), "names"))
        cases.append(("comps " + n, "ok " + ",".join(r.transform_vars_tensor_to_scalar([n])), "names"))
    return cases


# --------------------------------------------------------------------------
# level (ii): whole pipeline on generated directories
# --------------------------------------------------------------------------
def random_calls(rng, sim, ncalls, skip_last):
    d = sim.desc
    calls = []
    considered = sim.restart_numbers(skip_last)
    pool = sorted({i for r in d["restarts"] if r["number"] in considered for i in r["its"]})
    for _ in range(ncalls):
        its = rng.sample(pool, rng.randint(1, len(pool)))
        if rng.random() < 0.3:
            its = its + [rng.choice(its)]           # duplicates, unsorted
        if rng.random() < 0.2:
            its = its + [max(sim.all_its()) + 1000]  # not present anywhere: dropped
        names = list(d["requests"])
        if rng.random() < 0.5:
            # components instead of (some of) the tensors, subsets
            names = [c for n in names for c in (etgen.components(n) if rng.random() < 0.5 else [n])]
            names = rng.sample(names, rng.randint(1, len(names)))
        call = {"it": its, "vars": names, "rl": rng.randrange(len(d["levels"])), "restart": -1,
                "skip_last": skip_last}
        if rng.random() < 0.25:
            r = rng.choice(considered)
            lo, hi = min(sim.its_of(r)), max(sim.its_of(r))
            if any(lo <= i <= hi for i in its):
                call["restart"] = r
        calls.append(call)
    return calls


def expected_rows(sim, call):
    """[(it, restart)] a correct reader returns, in order"""
    rows = []
    for it in sorted(set(call["it"])):
        if call["restart"] >= 0:
            its = sim.its_of(call["restart"])
            r = call["restart"] if its and min(its) <= it <= max(its) else None
        else:
            r = sim.restart_of(it, call["skip_last"])
        if r is not None:
            rows.append((it, r))
    return rows


def do_read(param, call, split_per_it=False):
    kw = dict(it=list(call["it"]), vars=list(call["vars"]), rl=call["rl"], restart=call["restart"],
              split_per_it=split_per_it, verbose=False)
    if not call["skip_last"]:
        kw["skip_last"] = False
    import aurel
    with quiet():
        return aurel.read_data(param, **kw)


def check_against_truth(sim, call, data):
    """None or a description of the first difference with the ground truth"""
    rows = expected_rows(sim, call)
    if "it" not in data or [int(i) for i in data["it"]] != [it for it, _ in rows]:
        return "iterations returned %s, expected %s" % ([int(i) for i in data.get("it", [])], [it for it, _ in rows])
    if [float(t) for t in data["t"]] != [sim.time(it, r) for it, r in rows]:
        return "times returned %s, expected %s" % ([float(t) for t in data["t"]], [sim.time(it, r) for it, r in rows])
    for n in call["vars"]:
        for c in etgen.components(n):
            if c not in data:
                return "variable %s (requested as %s) missing from the result (keys %s)" % (c, n, sorted(data))
            if len(data[c]) != len(rows):
                return "variable %s has %d entries for %d iterations" % (c, len(data[c]), len(rows))
            for i, (it, r) in enumerate(rows):
                exp = sim.truth(c, it, call["rl"], r)
                got = np.asarray(data[c][i])
                if got.shape != exp.shape:
                    return "%s it=%d rl=%d: shape %s, stored grid %s" % (c, it, call["rl"], got.shape, exp.shape)
                if not np.array_equal(got, exp):
                    w = np.argwhere(got != exp)[0]
                    return "%s it=%d rl=%d restart=%d at (x,y,z)=%s: got %s, stored %s" % (
                        c, it, call["rl"], r, tuple(int(v) for v in w), etgen.decode(got[tuple(w)]),
                        etgen.decode(exp[tuple(w)]))
    return None


def fingerprint(sim, call, what):
    d = sim.desc
    return {"site": "read_data", "per_proc": d["per_proc"], "grouped": d["grouped"],
            "chunks": [etgen.nchunks(lv["decomp"]) for lv in d["levels"]], "restart": call["restart"],
            "kind": what.split(":")[0][:40]}


def run_directory(ctx, root, desc, calls, sel_lines, sel_expect):
    """write one directory, run the calls, compare with the truth. Returns #violations."""
    found = 0
    sim = etgen.Sim(root, desc).write()
    try:
        param = sim.param()
        for call in calls:
            try:
                data = do_read(param, call)
                diff = check_against_truth(sim, call, data)
            except Exception as ex:  # noqa
                data, diff = None, "raised %s: %s" % (type(ex).__name__, str(ex)[:200])
            ctx.count("pipeline_reads")
            if diff:
                found += report(ctx, "read_data(%s) on a generated %s/%s directory: %s" % (
                    {k: call[k] for k in ("it", "vars", "rl", "restart")},
                    "file-per-process" if desc["per_proc"] else "one-file",
                    "grouped" if desc["grouped"] else "one-variable-per-file", diff),
                    {"kind": "input", "op": "pipeline", "desc": sim.describe(), "call": call},
                    fingerprint(sim, call, diff))
            if call["restart"] == -1 and data is not None and not diff:
                considered = sim.restart_numbers(call["skip_last"])
                av = ",".join("%d:%d:%d" % (r, min(sim.its_of(r)), max(sim.its_of(r))) for r in considered)
                its = [i for i in call["it"]]
                sel_lines.append("sel %s %s" % (av, ",".join(map(str, its))))
                c0 = etgen.components(call["vars"][0])[0]
                sel_expect.append("ok " + " ".join(
                    "%d:%d" % (int(it), etgen.decode(np.asarray(data[c0][i]).flat[0]).get("restart", -1))
                    for i, it in enumerate(data["it"])))
    finally:
        sim.remove()
    return found


def pipeline(ctx, root, ndirs):
    rng = ctx.rng
    found = 0
    sel_lines, sel_expect = [], []
    layouts = {}
    for k in range(ndirs):
        per_proc, grouped = bool(k & 1), bool(k & 2)       # all four layouts in turn
        desc = etgen.random_desc(rng, "c11sim%d" % k, per_proc=per_proc, grouped=grouped,
                                 nlevels=1 + (k // 4) % 2, nmax=ctx.budget(7, 12),
                                 kmax=rng.choice(((2, 2, 2), (3, 2, 2), (3, 3, 3))))
        skip_last = len(desc["restarts"]) >= 2 and rng.random() < 0.25
        sim = etgen.Sim(root, desc)
        calls = random_calls(rng, sim, ctx.budget(3, 5), skip_last)
        lay = "%s/%s" % ("proc" if per_proc else "onefile", "group" if grouped else "var")
        layouts[lay] = layouts.get(lay, 0) + 1
        ctx.count("pipeline_restarts", len(desc["restarts"]))
        ctx.count("pipeline_restarts_with_own_process_count", sum(1 for r in desc["restarts"] if "levels" in r))
        ctx.count("pipeline_chunks", sum(etgen.nchunks(lv["decomp"]) for lv in desc["levels"]))
        if k == 0:
            ctx.sample({"generated_directory": {kk: desc[kk] for kk in ("per_proc", "grouped", "levels", "restarts", "vars")},
                        "calls": calls[:2]})
        found += run_directory(ctx, root, desc, calls, sel_lines, sel_expect)
    ctx.cov["pipeline_directories"] = ndirs
    ctx.cov["pipeline_layouts"] = layouts
    return found, sel_lines, sel_expect


# --------------------------------------------------------------------------
def run(ctx):
    ctx.trusted += ["Lean 4.33 kernel; axioms propext, Classical.choice, Quot.sound",
                    "py2lean/varmaps.py (YAML tables copied; function bodies AST-compared with the look-up loops)",
                    "Model/Chunks.lean is hand-written; tied to join_chunks / fixij / read_ET_group_or_var / "
                    "the restart choice of read_data by correspondence",
                    "lib/etgen.py (generator and ground truth; its variable table is written from the thorn "
                    "documentation, not from aurel)", "h5py / HDF5, numpy slicing/append/transpose semantics"]
    ctx.assumptions += ["arrays with a zero extent are represented only up to emptiness (nested lists carry no shape)",
                        "one chunk per process and level; every level has the same number of chunks in the "
                        "file-per-process layout (what Carpet writes)",
                        "checkpoint reading (usecheckpoints=True) is outside this property",
                        "requested iterations exist in the restart whose [first,last] range contains them "
                        "(otherwise the code raises ValueError, which the property allows)"]
    try:
        changed, info = varmaps.regen()
        ctx.obligation("py2lean:varmaps", True, "regenerated (changed=%s) %s" % (changed, info), kind="translation")
    except Exception as ex:  # noqa
        ctx.obligation("py2lean:varmaps", False, "translation failed: %r" % ex, kind="translation")
    if not ctx.broken():
        ctx.prove(MODULE, THEOREMS)
        ctx.forbidden_scan(LEAN_FILES)
        if ctx.tier == "thorough":
            ctx.leanchecker([MODULE])
    tmp = tempfile.mkdtemp(prefix="c11_")
    found = 0
    try:
        cases, f = direct_cases(ctx, tmp)
        found += f
        try:
            cases += name_cases()
        except Exception as ex:  # noqa
            ctx.obligation("correspondence: name maps", False, repr(ex), kind="correspondence")
        ndirs = ctx.budget(40, 240) + (16 if ctx.broken() else 0)
        f, sel_lines, sel_expect = pipeline(ctx, tmp + "/", ndirs)
        found += f
        cases += [(l, e, "sel") for l, e in zip(sel_lines, sel_expect)]
        try:
            outs = ctx.run_driver("Driver/C11.lean", [c[0] for c in cases])
        except Exception as ex:  # noqa
            outs = None
            ctx.obligation("correspondence:driver", False, repr(ex), kind="correspondence")
        if outs is not None:
            kinds, bad = {}, {}
            for (line, real, kind), out in zip(cases, outs):
                k = kind + ("/err" if real == "err" else "/empty" if real == "ok empty" else "/ok")
                kinds[k] = kinds.get(k, 0) + 1
                if out != real:
                    bad.setdefault(kind, []).append("%s -> impl %s | model %s" % (line[:200], real[:120], out[:120]))
            ctx.cov["correspondence_cases"] = len(cases)
            ctx.cov["correspondence_distribution"] = kinds
            ctx.sample({"correspondence_case": cases[3][0], "model_output": outs[3][:160]})
            names = {"join": "joinChunks/chunks vs join_chunks on hierarchical decompositions",
                     "raw": "joinChunks vs join_chunks on arbitrary boxes (malformed stream)",
                     "read": "trimGhost+joinChunks+fixij vs read_ET_group_or_var on a real HDF5 file",
                     "trim": "pyTrim vs numpy [g:-g]", "fixij": "fixij vs reading.fixij",
                     "names": "Gen/VarMaps functions vs transform_vars_*", "sel": "readOrder vs restart chosen by read_data"}
            for kind, title in names.items():
                n = sum(1 for c in cases if c[2] == kind)
                ctx.obligation("correspondence: %s (%d cases)" % (title, n), kind not in bad,
                               "; ".join(bad.get(kind, [])[:4]), kind="correspondence")
    finally:
        shutil.rmtree(tmp, ignore_errors=True)


def replay(ctx, obj):
    tmp = tempfile.mkdtemp(prefix="c11_replay_")
    try:
        if obj.get("op") == "join":
            out, A, got = join_real(obj["case"])
            bad = out != show(A)
            print("replay join: %s" % ("still differs from the array that was cut" if bad else "now correct"))
            return 1 if bad else 0
        sim = etgen.Sim(tmp + "/", obj["desc"]).write()
        try:
            data = do_read(sim.param(), obj["call"])
            diff = check_against_truth(sim, obj["call"], data)
        except Exception as ex:  # noqa
            diff = "raised %s: %s" % (type(ex).__name__, ex)
        print("replay pipeline: %s" % (diff or "now correct"))
        return 1 if diff else 0
    finally:
        shutil.rmtree(tmp, ignore_errors=True)


MANIFEST = {
    "category": "proof",
    "technique": "Lean 4 theorems over a hand-written chunk model (unbounded sizes, chunk counts and enumeration "
                 "orders: List.Perm + sorting lemmas, one generic grouping-pass lemma instantiated on three axes) "
                 "and kernel-decided name-map tables regenerated from the YAML; model tied to the code by exact "
                 "integer correspondence, whole pipeline checked against a generator's ground truth",
    "text": "Proof for all grid sizes, all hierarchical decompositions (z-slabs, each cut in y, each strip cut in x at "
            "its own positions), all chunk counts and all enumeration orders that the model of join_chunks returns "
            "exactly the array that was cut; that trimming removes the ghost layers whatever they contain (widths "
            ">= 1; width 0 is the stated empty-slice boundary); that fixij is the (z,y,x)->(x,y,z) transposition and "
            "an involution; that mismatching cross-sections raise; that an iteration found in several restarts is "
            "taken from the latest one and rows come back in requested order; that every scalar name round-trips "
            "aurel->ET->aurel and every tensor expands to components that map back (tables regenerated from "
            "var_mappings.yml on every run). The model is tied to join_chunks, fixij, read_ET_group_or_var and the "
            "restart choice of read_data by exact correspondence; the whole read_data pipeline is compared with the "
            "ground truth of generated Carpet-style directories in all four layouts.",
    "note": "Trusted: Lean kernel + propext/Classical.choice/Quot.sound; the hand-written model (validated on 1500 "
            "quick / 8000 thorough random decompositions of 1-60 chunks, malformed boxes, ghost widths 0-4 through "
            "real HDF5 files); the generator lib/etgen.py; h5py/numpy. Not claimed: that every non-hierarchical "
            "partition raises (equal-sized blocks can concatenate silently); checkpoint files.",
}
