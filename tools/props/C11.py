"""C11 — Einstein Toolkit output is read back exactly for any file and process layout.

Tie A: Gen/VarMaps.lean regenerated from var_mappings.yml + the three
name-translation functions (AST-checked); kernel-decided round-trip theorems.
Tie B: Model/Chunks.lean (hand-written) against the real `join_chunks`, `fixij`,
`read_ET_group_or_var` (ghost trimming through a real HDF5 file) on
identity-encoded integer blocks, and against the restart choice of the real
`read_data` on generated directories.
Search oracle: the ground truth of the generator (lib/etgen.py) for the
directory it wrote, which knows nothing of aurel or of the Lean model.

Extension 2 (Props/C11d.lean): Model/MultiThorn.lean (literal multi-thorn branch of read_ET_checkpoints and
read_ET_group_or_var) tied by the `ckptm` and `gvar` correspondences (real HDF5 files with the same variable
name in 2-3 thorns, iterations written by different process counts); Spec/CheckpointMixed.lean; name maps for
every table entry and every string.

Extension (Props/C11b.lean, Props/C11c.lean):
 * Model/Restarts.lean (restart choice with / without checkpoints, explicit restart, flattening of the
   per-restart tables) tied to the real read_data by the `sel2` correspondence;
 * Model/Checkpoint.lean (read_ET_checkpoints) tied to the real function through real HDF5 checkpoint
   files (`ckpt` correspondence: well-formed and malformed files) and checked against the generator's
   ground truth through read_data(usecheckpoints=True);
 * the class-X witnesses of Props/C11b (accepted although not hierarchical), the duplicate-name witness
   of Props/C11c and the differing-columns witness of Props/C11b are replayed on the real code.
"""
import contextlib
import glob
import io
import os
import shutil
import tempfile

import numpy as np

from lib import etgen, fw
from py2lean import varmaps

MODULE = "AurelVerif.Props.C11"
THEOREMS = ["AurelVerif.C11." + t for t in (
    "join_split", "join_split_general_path", "trim_ghost", "trim_ghost_zero", "fixij_axes", "fixij_shape",
    "fixij_involutive", "join_mismatch_x", "join_mismatch_y", "join_mismatch_z", "read_chunks_exact",
    "restart_latest", "restart_none", "read_order_complete",
    "scalar_names_roundtrip", "tensor_components_roundtrip", "tensor_expansion_commutes",
    "group_members_are_ET_names")]
MODULE_B = "AurelVerif.Props.C11b"
THEOREMS_B = ["AurelVerif.C11." + t for t in (
    "accepted_structure", "structure_accepted", "gapfree_is_hierarchical", "accepted_dichotomy", "classX_gap",
    "classX_shifted_strip", "unsupported_layout_raises_full_is_false",
    "pick_latest", "pick_none", "pick_max", "pick_agrees_with_pickRestart", "rows_aligned", "rows_aligned_explicit",
    "active_restarts", "rows_aligned_when_columns_differ", "checkpoint_only_restart_shadows_3d")]
MODULE_C = "AurelVerif.Props.C11c"
THEOREMS_C = ["AurelVerif.C11." + t for t in (
    "checkpoint_file_selection", "checkpoint_it_exact", "checkpoint_it_auto_exact", "checkpoint_table_exact", "checkpoint_pipeline_exact",
    "checkpoint_duplicate_names_read_once", "checkpoint_prefix_body_duplicates", "ckGoodIt")]
MODULE_D = "AurelVerif.Props.C11d"
THEOREMS_D = ["AurelVerif.C11." + t for t in (
    "aurel_table_covered", "et_table_roundtrip", "scalar_names_injective", "tensor_expansions_disjoint",
    "name_roundtrip_every_string", "et_name_roundtrip_every_string", "canonical_names_idempotent",
    "checkpoint_process_count_irrelevant", "checkpoint_layout_found_per_iteration", "checkpoint_mixed_layouts_read",
    "checkpoint_onefile_then_perproc_read", "checkpoint_perproc_then_chunked_read",
    "checkpoint_perproc_then_lone_read", "multi_thorn_file_read", "multi_thorn_substring_raises",
    "multi_thorn_rest_differs_raises", "two_thorns_checkpoint_witness", "two_thorns_chunked_checkpoint_raises",
    "combined_name_next_to_plain_name_misaligns", "two_thorns_group_or_var_witness",
    "second_thorn_appearing_later_raises")]
MODULE_E = "AurelVerif.Props.C11e"
THEOREMS_E = ["AurelVerif.C11." + t for t in (
    "literal_file_loop_is_readFile", "literal_model_specialises", "old_model_read_transfers",
    "checkpoint_table_exact_literal", "checkpoint_pipeline_exact_literal", "group_or_var_is_chunk_read",
    "group_or_var_exact", "multi_thorn_iteration_read", "multi_thorn_table_read", "multi_thorn_table_exact",
    "multi_thorn_components_raise", "multi_thorn_components_call_raises", "fuel_never_exhausted_checkpoints",
    "fuel_never_exhausted_group_or_var", "none_means_raise", "instrumented_loop_is_the_model",
    "more_fuel_same_result", "loop_without_end_witness", "mtGoodIt")]
LEAN_FILES = ["AurelVerif/Props/C11e.lean", "AurelVerif/Lemmas/C11MultiThornEq.lean",
              "AurelVerif/Lemmas/C11MultiThornFuel.lean", "AurelVerif/Lemmas/C11GroupOrVar.lean",
              "AurelVerif/Props/C11d.lean", "AurelVerif/Model/MultiThorn.lean",
              "AurelVerif/Lemmas/C11Names.lean", "AurelVerif/Lemmas/C11MultiThorn.lean",
              "AurelVerif/Props/C11.lean", "AurelVerif/Lemmas/Chunks.lean", "AurelVerif/Model/Chunks.lean",
              "AurelVerif/Gen/VarMaps.lean", "Driver/C11.lean",
              "AurelVerif/Props/C11b.lean", "AurelVerif/Props/C11c.lean", "AurelVerif/Model/Restarts.lean",
              "AurelVerif/Model/Checkpoint.lean", "AurelVerif/Spec/ChunkLayout.lean",
              "AurelVerif/Spec/CheckpointSpec.lean", "AurelVerif/Lemmas/C11Accept.lean",
              "AurelVerif/Lemmas/C11AcceptPass.lean", "AurelVerif/Lemmas/C11AcceptMain.lean",
              "AurelVerif/Lemmas/C11AcceptCons.lean", "AurelVerif/Lemmas/C11AcceptConv.lean",
              "AurelVerif/Lemmas/C11Restarts.lean", "AurelVerif/Lemmas/C11Checkpoint.lean",
              "AurelVerif/Lemmas/C11CheckpointTable.lean", "AurelVerif/Lemmas/C11CheckpointE2E.lean"]


@contextlib.contextmanager
def quiet():
    buf = io.StringIO()
    with contextlib.redirect_stdout(buf):
        yield buf


def reading():
    from aurel import reading as r
    return r


MAX_REPORTS = 3


def report(ctx, what, replay, fp):
    """ctx.violation, at most MAX_REPORTS replay files per site (the rest is counted)"""
    seen = ctx.cov.setdefault("failing_inputs_by_site", {})
    seen[fp["site"]] = seen.get(fp["site"], 0) + 1
    if seen[fp["site"]] > MAX_REPORTS:
        return 1 if ctx.match_known(fp) is None else 0
    return 1 if ctx.violation(what, replay, fp) else 0


# --------------------------------------------------------------------------
# level (i): direct calls on identity-encoded integer blocks
# --------------------------------------------------------------------------
def show(a):
    a = np.asarray(a)
    if a.size == 0:
        return "ok empty"
    return "ok %d %d %d : %s" % (a.shape + (" ".join(str(int(v)) for v in a.ravel()),))


def index_block(v0, sz, sy, sx):
    return v0 + np.arange(sz * sy * sx, dtype=np.int64).reshape(sz, sy, sx)


def gen_join(rng, max_chunks=60):
    """random hierarchical decomposition + enumeration order + base origin"""
    while True:
        nx, ny, nz = (rng.randint(1, 8) for _ in range(3))
        kmax = rng.choice(((1, 1, 1), (2, 1, 1), (1, 2, 1), (1, 1, 2), (2, 2, 1), (2, 2, 2), (3, 2, 2), (3, 3, 3),
                           (3, 3, 3), (4, 4, 4), (4, 4, 4), (5, 4, 3), (4, 5, 6), (6, 5, 4)))
        dec = etgen.random_decomp(rng, nx, ny, nz, kmax, uniform_prob=0.15)
        n = etgen.nchunks(dec)
        if n <= max_chunks:
            break
    perm = list(range(n))
    mode = rng.random()
    if mode < 0.15:
        pass                      # canonical order
    elif mode < 0.3:
        perm.reverse()
    else:
        rng.shuffle(perm)
    base = [rng.choice((0, 0, 3, 17)) for _ in range(3)]
    return {"op": "join", "shape": [nx, ny, nz], "decomp": dec, "perm": perm, "base": base}


def join_line(c):
    nx, ny, nz = c["shape"]
    return "join %d %d %d %d %d %d %s %s" % (c["base"][0], c["base"][1], c["base"][2], nz, ny, nx,
                                              etgen.decomp_str(c["decomp"]), ",".join(map(str, c["perm"])))


def join_real(c):
    """(canonical output of the real join_chunks, expected array)"""
    nx, ny, nz = c["shape"]
    A = index_block(0, nz, ny, nx)
    chunks = etgen.canonical_chunks(c["decomp"])
    cut = {}
    for j in c["perm"]:
        ox, oy, oz, xl, yl, zl = chunks[j]
        cut[(c["base"][0] + ox, c["base"][1] + oy, c["base"][2] + oz)] = A[oz:oz + zl, oy:oy + yl, ox:ox + xl].copy()
    try:
        out = reading().join_chunks(cut)
    except Exception as ex:  # noqa
        return "err", A, type(ex).__name__
    return show(out), A, out


def gen_raw(rng):
    """malformed stream: boxes that are not a hierarchical partition"""
    n = rng.choice((0, 1, 2, 2, 3, 3, 4, 5, 6))
    cs = []
    for i in range(n):
        cs.append([rng.randint(0, 3), rng.randint(0, 2), rng.randint(0, 2),
                   rng.randint(1, 3), rng.randint(1, 3), rng.randint(1, 3), 100 * i])
    if n >= 2 and rng.random() < 0.5:     # make many of them joinable along one axis
        ax = rng.randrange(3)
        for i, c in enumerate(cs):
            c[0:3] = [0, 0, 0]
            c[ax] = i if rng.random() < 0.8 else 0
            for d in range(3):
                if d != 2 - ax and rng.random() < 0.85:
                    c[3 + d] = cs[0][3 + d]
    return {"op": "raw", "chunks": cs}


def raw_line(c, op="raw", ghost=None):
    head = op if ghost is None else "%s %d %d %d" % ((op,) + tuple(ghost))
    return (head + " " + " ".join(",".join(map(str, ch)) for ch in c["chunks"])).strip()


def raw_real(c):
    cut = {}
    for ix, iy, iz, sz, sy, sx, v0 in c["chunks"]:
        cut[(ix, iy, iz)] = index_block(v0, sz, sy, sx)
    try:
        return show(reading().join_chunks(cut))
    except (ValueError, IndexError):
        return "err"


def gen_read(rng):
    """ghost-padded chunks of a hierarchical decomposition, through a real HDF5 file"""
    nx, ny, nz = (rng.randint(1, 5) for _ in range(3))
    dec = etgen.random_decomp(rng, nx, ny, nz, rng.choice(((1, 1, 1), (2, 2, 2), (3, 2, 2))), 0.2)
    chunks = etgen.canonical_chunks(dec)
    n = len(chunks)
    r = rng.random()
    if r < 0.12:
        ghost = [0, 0, 0]                      # malformed: [0:-0] is empty
    elif r < 0.2 and n == 1:
        ghost = [rng.randint(0, 2) for _ in range(3)]
    else:
        g = rng.randint(1, 4)
        ghost = [g, g, g] if rng.random() < 0.5 else [rng.randint(1, 4) for _ in range(3)]
    order = list(range(n))
    rng.shuffle(order)
    cs = []
    for j, (ox, oy, oz, xl, yl, zl) in enumerate(chunks):
        cs.append([ox, oy, oz, zl + 2 * ghost[2], yl + 2 * ghost[1], xl + 2 * ghost[0], 1000 * order[j]])
    # dataset c=<k> holds canonical chunk j with order[j] = k; h5py lists keys alphabetically
    return {"op": "read", "ghost": ghost, "chunks": cs, "order": order}


def read_enumeration(c):
    """the order in which the real code meets the chunks: c = 0, 1, 2, ..."""
    n = len(c["chunks"])
    inv = [0] * n
    for j, k in enumerate(c["order"]):
        inv[k] = j
    return [c["chunks"][inv[k]] for k in range(n)]


def read_real(c, tmp):
    fn = os.path.join(tmp, "alp.h5")
    import h5py
    n = len(c["chunks"])
    with h5py.File(fn, "w") as f:
        for j, (ix, iy, iz, sz, sy, sx, v0) in enumerate(c["chunks"]):
            key = "ADMBASE::alp it=0 tl=0 rl=0" + (" c=%d" % c["order"][j] if n > 1 else "")
            ds = f.create_dataset(key, data=index_block(v0, sz, sy, sx).astype(np.float64))
            ds.attrs["cctk_nghostzones"] = np.array(c["ghost"], dtype=np.int32)
            ds.attrs["iorigin"] = np.array([ix, iy, iz], dtype=np.int32)
            ds.attrs["time"] = 0.0
    try:
        with quiet():
            out = reading().read_ET_group_or_var(["alp"], [fn], "in file", it=[0], rl=0)
        return show(out["alpha"][0])
    except (ValueError, IndexError):
        return "err"
    finally:
        os.remove(fn)


def read_regrid_real(cs, tmp):
    """several iterations of one variable in ONE file, each with its own decomposition / component
    count (a Carpet regrid), read by ONE call: list of canonical outputs, one per iteration"""
    fn = os.path.join(tmp, "alp.h5")
    import h5py
    its = [2 * i for i in range(len(cs))]
    with h5py.File(fn, "w") as f:
        for it, c in zip(its, cs):
            n = len(c["chunks"])
            for j, (ix, iy, iz, sz, sy, sx, v0) in enumerate(c["chunks"]):
                key = "ADMBASE::alp it=%d tl=0 rl=0" % it + (" c=%d" % c["order"][j] if n > 1 else "")
                ds = f.create_dataset(key, data=index_block(v0, sz, sy, sx).astype(np.float64))
                ds.attrs["cctk_nghostzones"] = np.array(c["ghost"], dtype=np.int32)
                ds.attrs["iorigin"] = np.array([ix, iy, iz], dtype=np.int32)
                ds.attrs["time"] = float(it)
    try:
        with quiet():
            out = reading().read_ET_group_or_var(["alp"], [fn], "in file", it=list(its), rl=0)
        return [show(a) for a in out["alpha"]]
    except (ValueError, IndexError, KeyError):
        return ["err"] * len(cs)
    finally:
        os.remove(fn)


def direct_cases(ctx, tmp):
    rng = ctx.rng
    cases = []   # (line, real output, kind)
    njoin = ctx.budget(1500, 8000)
    found = 0
    sizes = {}
    for _ in range(njoin):
        c = gen_join(rng)
        out, A, got = join_real(c)
        n = len(c["perm"])
        b = "1" if n == 1 else "2-3" if n <= 3 else "4-8" if n <= 8 else "9-27" if n <= 27 else "28-60"
        sizes[b] = sizes.get(b, 0) + 1
        cases.append((join_line(c), out, "join"))
        # independent oracle: the joined array is the array that was cut
        if out != show(A):
            found += report(
                ctx, "join_chunks of %d chunks of a %s grid (decomposition %s, order %s) %s" % (
                    n, c["shape"], etgen.decomp_str(c["decomp"]), c["perm"],
                    "raised " + got if out == "err" else "returned a different array"),
                {"kind": "input", "op": "join", "case": c}, {"site": "join_chunks", "chunks": n})
    ctx.cov["direct_join_chunk_counts"] = sizes
    for _ in range(ctx.budget(400, 3000)):
        c = gen_raw(rng)
        cases.append((raw_line(c), raw_real(c), "raw"))
    for _ in range(ctx.budget(200, 1500)):
        c = gen_read(rng)
        cc = dict(c, chunks=read_enumeration(c))
        cases.append((raw_line(cc, "read", c["ghost"]), read_real(c, tmp), "read"))
    regrid_counts = {}
    for _ in range(ctx.budget(60, 500)):
        cs = [gen_read(rng) for _ in range(rng.choice((2, 2, 3)))]
        outs = read_regrid_real(cs, tmp)
        ns = [len(c["chunks"]) for c in cs]
        kind = "more" if ns[-1] > ns[0] else "fewer" if ns[-1] < ns[0] else "same"
        regrid_counts[kind] = regrid_counts.get(kind, 0) + 1
        for c, out in zip(cs, outs):
            cc = dict(c, chunks=read_enumeration(c))
            cases.append((raw_line(cc, "read", c["ghost"]), out, "regrid"))
    ctx.cov["direct_regrid_component_count_later_vs_first"] = regrid_counts
    for _ in range(ctx.budget(60, 300)):
        g = [rng.randint(1, 3) for _ in range(3)]
        if rng.random() < 0.25:
            g[rng.randrange(3)] = 0
        s = [rng.randint(1, 8) if rng.random() < 0.1 else 2 * gi + rng.randint(1, 4) for gi in g]
        a = index_block(0, *s)
        cases.append(("trim %d %d %d %d %d %d" % tuple(g + s), show(a[g[2]:-g[2], g[1]:-g[1], g[0]:-g[0]]), "trim"))
    for _ in range(ctx.budget(20, 100)):
        s = [rng.randint(1, 6) for _ in range(3)]
        cases.append(("fixij %d %d %d" % tuple(s), show(reading().fixij(index_block(0, *s))), "fixij"))
    return cases, found


def name_cases():
    r = reading()
    names = set()
    for tab in (r.aurel_tensor_to_scalar, r.aurel_to_ET_varnames, r.known_groups):
        for k, v in tab.items():
            names.add(k)
            names.update(v)
    for k, v in r.ET_to_aurel_varnames.items():
        names.update((k, v))
    names.update(("notavariable", "x"))
    names = sorted(n for n in names if " " not in n)
    cases = []
    for n in names:
        cases.append(("var2et " + n, "ok " + ",".join(r.transform_vars_aurel_to_ET([n])), "names"))
        cases.append(("et2var " + n, "ok " + r.transform_vars_ET_to_aurel(n), "names"))
        cases.append(("comps " + n, "ok " + ",".join(r.transform_vars_tensor_to_scalar([n])), "names"))
    return cases


# --------------------------------------------------------------------------
# level (ii): whole pipeline on generated directories
# --------------------------------------------------------------------------
def random_calls(rng, sim, ncalls, skip_last):
    d = sim.desc
    calls = []
    considered = sim.restart_numbers(skip_last)
    pool = sorted({i for r in d["restarts"] if r["number"] in considered for i in r["its"]})
    for _ in range(ncalls):
        its = rng.sample(pool, rng.randint(1, len(pool)))
        if rng.random() < 0.3:
            its = its + [rng.choice(its)]           # duplicates, unsorted
        if rng.random() < 0.2:
            its = its + [max(sim.all_its()) + 1000]  # not present anywhere: dropped
        names = list(d["requests"])
        if rng.random() < 0.5:
            # components instead of (some of) the tensors, subsets
            names = [c for n in names for c in (etgen.components(n) if rng.random() < 0.5 else [n])]
            names = rng.sample(names, rng.randint(1, len(names)))
        call = {"it": its, "vars": names, "rl": rng.randrange(len(d["levels"])), "restart": -1,
                "skip_last": skip_last}
        if rng.random() < 0.25:
            r = rng.choice(considered)
            lo, hi = min(sim.its_of(r)), max(sim.its_of(r))
            if any(lo <= i <= hi for i in its):
                call["restart"] = r
        calls.append(call)
    return calls


def expected_rows(sim, call):
    """[(it, restart)] a correct reader returns, in order"""
    rows = []
    chk = call.get("usecheckpoints", False)
    for it in sorted(set(call["it"])):
        if call["restart"] >= 0:
            if chk:
                r = call["restart"] if it in sim.checkpoint_its(call["restart"]) else None
            else:
                its = sim.its_of(call["restart"])
                r = call["restart"] if its and min(its) <= it <= max(its) else None
        elif chk:
            r = sim.checkpoint_restart_of(it, call["skip_last"])
        else:
            r = sim.restart_of(it, call["skip_last"])
        if r is not None:
            rows.append((it, r))
    return rows


def do_read(param, call, split_per_it=False):
    kw = dict(it=list(call["it"]), vars=list(call["vars"]), rl=call["rl"], restart=call["restart"],
              split_per_it=split_per_it, verbose=False)
    if not call["skip_last"]:
        kw["skip_last"] = False
    if call.get("usecheckpoints"):
        kw["usecheckpoints"] = True
    import aurel
    with quiet():
        return aurel.read_data(param, **kw)


# Einstein Toolkit name -> aurel scalar name, from the generator's own table
ET_TO_AUREL = {v[1]: k for k, v in etgen.VARS.items()}


def request_components(name):
    """scalar components (aurel names) of a requested name: tensor, aurel scalar or ET name"""
    return etgen.components(ET_TO_AUREL.get(name, name))


def check_against_truth(sim, call, data):
    """None or a description of the first difference with the ground truth"""
    rows = expected_rows(sim, call)
    chk = bool(call.get("usecheckpoints", False))
    if not rows and data == {}:
        return None                                   # nothing to read: the empty dictionary
    if "it" not in data or [int(i) for i in data["it"]] != [it for it, _ in rows]:
        return "iterations returned %s, expected %s" % ([int(i) for i in data.get("it", [])], [it for it, _ in rows])
    if [float(t) for t in data["t"]] != [sim.time(it, r, chk) for it, r in rows]:
        return "times returned %s, expected %s" % ([float(t) for t in data["t"]],
                                                   [sim.time(it, r, chk) for it, r in rows])
    for n in call["vars"]:
        for c in request_components(n):
            if not any(sim.has_var(c, r) for _, r in rows):
                # no restart that is read wrote it: no column (or nothing but None)
                if c in data and any(x is not None for x in data[c]):
                    return "variable %s was not written by any restart read, yet data came back" % c
                continue
            if c not in data:
                return "variable %s (requested as %s) missing from the result (keys %s)" % (c, n, sorted(data))
            if len(data[c]) != len(rows):
                return "variable %s has %d entries for %d iterations" % (c, len(data[c]), len(rows))
            for i, (it, r) in enumerate(rows):
                if not sim.has_var(c, r):
                    if data[c][i] is not None:
                        return "%s it=%d: restart %d did not write it, expected None" % (c, it, r)
                    continue
                if data[c][i] is None:
                    return "%s it=%d restart=%d: None returned, the data is stored" % (c, it, r)
                exp = sim.truth(c, it, call["rl"], r, chk)
                got = np.asarray(data[c][i])
                if got.shape != exp.shape:
                    return "%s it=%d rl=%d: shape %s, stored grid %s" % (c, it, call["rl"], got.shape, exp.shape)
                if not np.array_equal(got, exp):
                    w = np.argwhere(got != exp)[0]
                    return "%s it=%d rl=%d restart=%d at (x,y,z)=%s: got %s, stored %s" % (
                        c, it, call["rl"], r, tuple(int(v) for v in w), etgen.decode(got[tuple(w)]),
                        etgen.decode(exp[tuple(w)]))
    return None


def fingerprint(sim, call, what):
    d = sim.desc
    return {"site": "read_data" + ("/checkpoints" if call.get("usecheckpoints") else ""),
            "per_proc": d["per_proc"], "grouped": d["grouped"],
            "chunks": [etgen.nchunks(lv["decomp"]) for lv in d["levels"]], "restart": call["restart"],
            "kind": what.split(":")[0][:40]}


def run_directory(ctx, root, desc, calls, sel_lines, sel_expect):
    """write one directory, run the calls, compare with the truth. Returns #violations."""
    found = 0
    sim = etgen.Sim(root, desc).write()
    try:
        param = sim.param()
        for call in calls:
            try:
                data = do_read(param, call)
                diff = check_against_truth(sim, call, data)
            except Exception as ex:  # noqa
                data, diff = None, "raised %s: %s" % (type(ex).__name__, str(ex)[:200])
            ctx.count("pipeline_reads")
            if diff:
                found += report(ctx, "read_data(%s) on a generated %s/%s directory: %s" % (
                    {k: call[k] for k in ("it", "vars", "rl", "restart")},
                    "file-per-process" if desc["per_proc"] else "one-file",
                    "grouped" if desc["grouped"] else "one-variable-per-file", diff),
                    {"kind": "input", "op": "pipeline", "desc": sim.describe(), "call": call},
                    fingerprint(sim, call, diff))
            if call["restart"] == -1 and data is not None and not diff:
                considered = sim.restart_numbers(call["skip_last"])
                av = ",".join("%d:%d:%d" % (r, min(sim.its_of(r)), max(sim.its_of(r))) for r in considered)
                its = [i for i in call["it"]]
                sel_lines.append("sel %s %s" % (av, ",".join(map(str, its))))
                c0 = etgen.components(call["vars"][0])[0]
                sel_expect.append("ok " + " ".join(
                    "%d:%d" % (int(it), etgen.decode(np.asarray(data[c0][i]).flat[0]).get("restart", -1))
                    for i, it in enumerate(data["it"])))
    finally:
        sim.remove()
    return found


def pipeline(ctx, root, ndirs):
    rng = ctx.rng
    found = 0
    sel_lines, sel_expect = [], []
    layouts = {}
    for k in range(ndirs):
        per_proc, grouped = bool(k & 1), bool(k & 2)       # all four layouts in turn
        desc = etgen.random_desc(rng, "c11sim%d" % k, per_proc=per_proc, grouped=grouped,
                                 nlevels=1 + (k // 4) % 2, nmax=ctx.budget(7, 12),
                                 kmax=rng.choice(((2, 2, 2), (3, 2, 2), (3, 3, 3))))
        if rng.random() < 0.5:
            # a regrid inside a restart: from some iteration on the levels are cut differently
            etgen.add_random_regrid(rng, desc, kmax=rng.choice(((2, 2, 2), (3, 2, 2), (3, 3, 3))))
        ctx.count("pipeline_restarts_with_regrid", sum(1 for r in desc["restarts"] if "regrid" in r))
        skip_last = len(desc["restarts"]) >= 2 and rng.random() < 0.25
        sim = etgen.Sim(root, desc)
        calls = random_calls(rng, sim, ctx.budget(3, 5), skip_last)
        for r in desc["restarts"]:
            if "regrid" in r and r["number"] in sim.restart_numbers(skip_last):
                # one request that spans the regrid, on every level
                for rl in range(len(desc["levels"])):
                    calls.append({"it": list(r["its"]), "vars": [desc["requests"][0]], "rl": rl,
                                  "restart": r["number"], "skip_last": skip_last})
        lay = "%s/%s" % ("proc" if per_proc else "onefile", "group" if grouped else "var")
        layouts[lay] = layouts.get(lay, 0) + 1
        ctx.count("pipeline_restarts", len(desc["restarts"]))
        ctx.count("pipeline_restarts_with_own_process_count", sum(1 for r in desc["restarts"] if "levels" in r))
        ctx.count("pipeline_chunks", sum(etgen.nchunks(lv["decomp"]) for lv in desc["levels"]))
        if k == 0:
            ctx.sample({"generated_directory": {kk: desc[kk] for kk in ("per_proc", "grouped", "levels", "restarts", "vars")},
                        "calls": calls[:2]})
        found += run_directory(ctx, root, desc, calls, sel_lines, sel_expect)
    ctx.cov["pipeline_directories"] = ndirs
    ctx.cov["pipeline_layouts"] = layouts
    return found, sel_lines, sel_expect


# --------------------------------------------------------------------------
# level (iii): read_ET_checkpoints on real HDF5 checkpoint files (Model/Checkpoint.lean)
# --------------------------------------------------------------------------
CK_POOL = [("ADMBASE", "alp", "alpha"), ("ADMBASE", "gxx", "gxx"), ("ADMBASE", "gxy", "gxy"),
           ("HYDROBASE", "rho", "rho0"), ("HYDROBASE", "vel[0]", "velx"), ("ML_BSSN", "H", "Hamiltonian"),
           ("ML_BSSN", "trK", "Ktrace"), ("ADMBASE", "betax", "betax")]


def gen_ckpt(rng):
    nlev = rng.choice((1, 1, 2))
    per_proc = rng.random() < 0.45
    while True:
        levels = []
        for _ in range(nlev):
            nx, ny, nz = (rng.randint(1, 4) for _ in range(3))
            dec = etgen.random_decomp(rng, nx, ny, nz, rng.choice(((1, 1, 1), (2, 1, 1), (2, 2, 1), (2, 2, 2))), 0.2)
            n = etgen.nchunks(dec)
            order = list(range(n))
            rng.shuffle(order)
            g = rng.randint(1, 2)
            ghost = [g, g, g] if rng.random() < 0.7 else [rng.randint(1, 2) for _ in range(3)]
            levels.append({"dec": dec, "order": order, "ghost": ghost, "base": [rng.choice((0, 0, 3)) for _ in range(3)]})
        counts = {len(lv["order"]) for lv in levels}
        if not per_proc or (len(counts) == 1 and min(counts) >= 2):
            break
    written = rng.sample(CK_POOL, rng.randint(1, 3))
    extra = [("ML_BSSN", "phi"), ("GRHYDRO", "dens")] if rng.random() < 0.4 else []
    chk_its = sorted(rng.sample([0, 1, 8, 10, 11, 16, 110], rng.randint(1, 3)))
    ntl = rng.randint(1, 3)
    m0 = rng.random() < 0.5
    files = {}
    counter = [0]

    def v0():
        counter[0] += 1
        return 1000 * counter[0]
    for it in chk_its:
        for rl, lv in enumerate(levels):
            chunks = etgen.canonical_chunks(lv["dec"])
            n = len(chunks)
            gx, gy, gz = lv["ghost"]
            for j, (ox, oy, oz, xl, yl, zl) in enumerate(chunks):
                c = lv["order"][j]
                fkey = (it, c if per_proc else None)
                lst = files.setdefault(fkey, [])
                for thorn, ev in [w[:2] for w in written] + extra:
                    for tl in range(ntl):
                        lst.append([thorn, ev, it, tl, rl, c if n > 1 else None, gx, gy, gz,
                                    lv["base"][0] + ox, lv["base"][1] + oy, lv["base"][2] + oz,
                                    500 + it - tl if tl == 0 else 300 + tl, zl + 2 * gz, yl + 2 * gy, xl + 2 * gx, v0()])
    case = {"op": "ckpt", "m0": m0, "files": [{"it": k[0], "file": k[1], "dsets": v} for k, v in files.items()]}
    # request
    its = rng.sample(chk_its, rng.randint(1, len(chk_its)))
    if rng.random() < 0.3:
        its.append(rng.choice((5, 1, 10, 11, 110)))        # maybe an iteration without checkpoint
    if rng.random() < 0.3:
        its.append(rng.choice(its))
    names = [w[2] for w in rng.sample(written, rng.randint(1, len(written)))]
    r = rng.random()
    if r < 0.12:
        names.append(rng.choice(names))                    # the same variable twice
    elif r < 0.2:
        names.append("eps")                                # not in the file
    elif r < 0.3:
        w = rng.choice(written)
        names[rng.randrange(len(names))] = "%s::%s" % w[:2]  # combined name
    elif r < 0.36 and any(w[2] == "alpha" for w in written):
        names.append("alp")                                # ET name next to the aurel name
    case.update({"its": its, "vars": names, "rl": rng.randrange(nlev + (1 if rng.random() < 0.1 else 0))})
    # malformed variants
    mut = rng.random()
    allds = [(f, i) for f in case["files"] for i in range(len(f["dsets"]))]
    if mut < 0.08:
        f, i = rng.choice(allds); del f["dsets"][i]        # a dataset is missing
    elif mut < 0.14:
        f, i = rng.choice(allds); f["dsets"][i][5] = None if f["dsets"][i][5] is not None else 0
    elif mut < 0.2:
        f, i = rng.choice(allds); f["dsets"][i][5] = (f["dsets"][i][5] or 0) + rng.choice((1, 2))
    elif mut < 0.25:
        f, i = rng.choice(allds); f["dsets"][i][4] = None   # no rl=
    elif mut < 0.3:
        g = 6 + rng.randrange(3)                            # ghost width 0 on one axis, everywhere: [0:-0] is empty
        for f, i in allds:                                  # (a zero extent in SOME blocks only is outside the
            f["dsets"][i][g] = 0                            #  nested-list representation of the model)
    elif mut < 0.34 and len(case["files"]) > 1:
        case["files"].pop(rng.randrange(len(case["files"])))
    elif mut < 0.38:
        f, i = rng.choice(allds); f["dsets"][i][9 + rng.randrange(3)] += rng.choice((1, 2))   # origin moved: class X / mismatch
    for f in case["files"]:                                  # HDF5 names are unique
        seen, keep = set(), []
        for d in f["dsets"]:
            k = ds_key(d, m0)
            if k not in seen:
                seen.add(k)
                keep.append(d)
        f["dsets"] = keep
    return case


def ds_key(d, m0):
    thorn, ev, it, tl, rl, c = d[:6]
    return "%s::%s it=%d tl=%d%s%s%s" % (thorn, ev, it, tl, " m=0" if m0 else "",
                                         "" if rl is None else " rl=%d" % rl, "" if c is None else " c=%d" % c)


def file_name(f):
    return "checkpoint.chkpt.it_%d%s.h5" % (f["it"], "" if f["file"] is None else ".file_%d" % f["file"])


def show_arr(a):
    a = np.asarray(a)
    if a.size == 0:
        return "empty"
    return "%dx%dx%d:%s" % (a.shape + (",".join(str(int(v)) for v in a.ravel()),))


def ckpt_real(c, tmp):
    """(canonical output of the real read_ET_checkpoints, file order met by glob)"""
    import h5py
    sim = "cksim"
    d = os.path.join(tmp, sim, "output-0000", sim)
    os.makedirs(d, exist_ok=True)
    try:
        for f in c["files"]:
            with h5py.File(os.path.join(d, file_name(f)), "w") as h:
                h.create_group("Parameters and Global Attributes")
                for ds in f["dsets"]:
                    x = h.create_dataset(ds_key(ds, c["m0"]), data=index_block(ds[16], ds[13], ds[14], ds[15]).astype(np.float64))
                    x.attrs["cctk_nghostzones"] = np.array(ds[6:9], dtype=np.int32)
                    x.attrs["iorigin"] = np.array(ds[9:12], dtype=np.int32)
                    x.attrs["time"] = np.float64(ds[12])
        order = [os.path.basename(p) for p in glob.glob(glob.escape(d) + "/checkpoint.chkpt.it_*.h5")]
        param = {"simpath": tmp.rstrip("/") + "/", "simname": sim}
        try:
            data = reading().read_ET_checkpoints(param, list(c["vars"]), it=list(c["its"]), restart=0, rl=c["rl"],
                                               verbose=False)
        except (ValueError, IndexError, KeyError, TypeError, NameError) as ex:
            return "err", order, type(ex).__name__
        out = "ok it=" + ",".join(str(int(i)) for i in data["it"])
        for k, v in data.items():
            if k == "it":
                continue
            out += "|" + k + "=" + "/".join(str(int(x)) if k == "t" else show_arr(x) for x in v)
        return out, order, data
    finally:
        shutil.rmtree(os.path.join(tmp, sim), ignore_errors=True)


def ckpt_line(c, order):
    byname = {file_name(f): f for f in c["files"]}
    toks = []
    for fn in order:
        f = byname[fn]
        ds = sorted(f["dsets"], key=lambda d: ds_key(d, c["m0"]))
        toks.append("%d:%s:%s" % (f["it"], "-" if f["file"] is None else f["file"], ";".join(
            ",".join("-" if x is None else str(x) for x in d) for d in ds)))
    return "ckpt %d %s %s %s" % (c["rl"], ",".join(map(str, c["its"])), ",".join(c["vars"]), " ".join(toks))


def ckpt_cases(ctx, tmp):
    """random well-formed and malformed checkpoint file sets: real read_ET_checkpoints vs the model"""
    cases = []
    kinds = {}
    for _ in range(ctx.budget(160, 1500)):
        c = gen_ckpt(ctx.rng)
        with quiet():
            out, order, _ = ckpt_real(c, tmp)
        cases.append((ckpt_line(c, order), out, "ckpt"))
        cases.append((ckpt_line(c, order).replace("ckpt ", "ckptm ", 1), out, "ckptm"))   # the literal model too
        k = "%s/%s" % ("proc" if any(f["file"] is not None for f in c["files"]) else "onefile",
                        "err" if out == "err" else "ok")
        kinds[k] = kinds.get(k, 0) + 1
    ctx.cov["checkpoint_direct_cases"] = kinds
    return cases


# --------------------------------------------------------------------------
# level (iii-b): the multi-thorn branch and mixed process counts (Model/MultiThorn.lean)
# --------------------------------------------------------------------------
def twin_thorn(rng, thorn):
    """a second thorn that carries the same variable name"""
    r = rng.random()
    if thorn == "ML_BSSN" and r < 0.5:
        return "ML_ADMCONSTRAINTS"
    if r < 0.7:
        return "A" + thorn          # sorts first, is not contained in the other name
    if r < 0.85:
        return thorn + "2"
    return "Z" + thorn              # sorts last and CONTAINS the other name: the substring look-up finds two keys


def gen_ckpt2(rng):
    """checkpoint file sets with (a) the same variable name in two thorns, (b) iterations written by
    different numbers of processes / different file layouts (cmax is decided per iteration since /repo bd9646b)"""
    nlev = rng.choice((1, 1, 2))
    chk_its = sorted(rng.sample([0, 1, 8, 10, 11, 16, 110], rng.randint(1, 3)))
    mixed = rng.random() < 0.5
    shapes = [[rng.randint(1, 4) for _ in range(3)] for _ in range(nlev)]

    def draw_layout():
        per_proc = rng.random() < 0.5
        for _ in range(200):
            levels = []
            for (nx, ny, nz) in shapes:
                dec = etgen.random_decomp(rng, nx, ny, nz, rng.choice(((1, 1, 1), (2, 1, 1), (2, 2, 1), (2, 2, 2))), 0.2)
                order = list(range(etgen.nchunks(dec)))
                rng.shuffle(order)
                g = rng.randint(1, 2)
                levels.append({"dec": dec, "order": order, "ghost": [g, g, g], "base": [rng.choice((0, 0, 3)) for _ in range(3)]})
            counts = {len(lv["order"]) for lv in levels}
            if not per_proc or (len(counts) == 1 and min(counts) >= 2):
                return per_proc, levels
        return False, levels
    layout0 = draw_layout()
    written = rng.sample(CK_POOL, rng.randint(1, 3))
    twins = []
    if rng.random() < 0.7:
        for w in rng.sample(written, rng.randint(1, len(written))):
            twins.append((twin_thorn(rng, w[0]), w[1]))
            if rng.random() < 0.2:
                twins.append(("B" + w[0], w[1]))           # three thorns
    late_twin = rng.random() < 0.1                          # the second thorn appears only from the 2nd checkpoint on
    ntl = rng.randint(1, 2)
    m0 = rng.random() < 0.5
    files = {}
    counter = [0]

    def v0():
        counter[0] += 1
        return 1000 * counter[0]
    for n_it, it in enumerate(chk_its):
        per_proc, levels = draw_layout() if (mixed and n_it > 0) else layout0
        for rl, lv in enumerate(levels):
            chunks = etgen.canonical_chunks(lv["dec"])
            n = len(chunks)
            gx, gy, gz = lv["ghost"]
            for j, (ox, oy, oz, xl, yl, zl) in enumerate(chunks):
                c = lv["order"][j]
                lst = files.setdefault((it, c if per_proc else None), [])
                names = [w[:2] for w in written] + ([] if (late_twin and n_it == 0) else twins)
                for thorn, ev in names:
                    for tl in range(ntl):
                        lst.append([thorn, ev, it, tl, rl, c if n > 1 else None, gx, gy, gz,
                                    lv["base"][0] + ox, lv["base"][1] + oy, lv["base"][2] + oz,
                                    500 + it - tl if tl == 0 else 300 + tl, zl + 2 * gz, yl + 2 * gy, xl + 2 * gx, v0()])
    case = {"op": "ckpt", "m0": m0, "files": [{"it": k[0], "file": k[1], "dsets": v} for k, v in files.items()]}
    its = rng.sample(chk_its, rng.randint(1, len(chk_its)))
    if rng.random() < 0.2:
        its.append(rng.choice(its))
    names = [w[2] for w in rng.sample(written, rng.randint(1, len(written)))]
    r = rng.random()
    if r < 0.1:
        names.append(rng.choice(names))
    elif r < 0.25:
        w = rng.choice(written)
        names.insert(rng.randrange(len(names) + 1), "%s::%s" % w[:2])     # combined name next to the plain one
    elif r < 0.35 and twins:
        names.append("%s::%s" % rng.choice(twins))
    case.update({"its": its, "vars": names, "rl": rng.randrange(nlev), "mixed": mixed, "twins": len(twins)})
    for f in case["files"]:
        seen, keep = set(), []
        for d in f["dsets"]:
            k = ds_key(d, m0)
            if k not in seen:
                seen.add(k)
                keep.append(d)
        f["dsets"] = keep
    return case


def ckpt2_cases(ctx, tmp):
    cases = []
    kinds = {}
    for _ in range(ctx.budget(120, 1200)):
        c = gen_ckpt2(ctx.rng)
        with quiet():
            out, order, _ = ckpt_real(c, tmp)
        cases.append((ckpt_line(c, order).replace("ckpt ", "ckptm ", 1), out, "ckptm"))
        k = "%s/%s/%s" % ("twins" if c["twins"] else "plain", "mixed" if c["mixed"] else "uniform",
                           "err" if out == "err" else "ok")
        kinds[k] = kinds.get(k, 0) + 1
    ctx.cov["checkpoint_multithorn_mixed_cases"] = kinds
    return cases


GV_GROUPS = [["H"], ["M1", "M2", "M3"], ["alp"], ["gxx", "gxy"], ["rho"], ["H", "H2"]]


def gen_gvar(rng):
    """one variable / one group of a 3D output restart, handed to read_ET_group_or_var: the three
    chunk layouts, several iterations, optionally the same variable names in a second (third) thorn"""
    nx, ny, nz = (rng.randint(1, 4) for _ in range(3))
    layout = rng.choice(("nochunks", "onefile", "proc"))
    for _ in range(200):
        dec = etgen.random_decomp(rng, nx, ny, nz, (1, 1, 1) if layout == "nochunks" else rng.choice(((2, 1, 1), (2, 2, 1), (2, 2, 2))), 0.2)
        n = etgen.nchunks(dec)
        if layout == "nochunks" or n >= 2 or (layout == "onefile" and rng.random() < 0.05):
            break
    if layout == "proc" and n < 2:
        layout = "nochunks"
    chunks = etgen.canonical_chunks(dec)
    order = list(range(n))
    rng.shuffle(order)
    g = rng.randint(1, 2)
    variables = list(rng.choice(GV_GROUPS))
    thorns = ["ML_BSSN"]
    if rng.random() < 0.75:
        thorns.append(twin_thorn(rng, "ML_BSSN"))
        if rng.random() < 0.2:
            thorns.append("BML_BSSN")
    twin_vars = variables if rng.random() < 0.7 else rng.sample(variables, rng.randint(1, len(variables)))
    its = sorted(rng.sample([0, 2, 4, 8], rng.randint(1, 3)))
    late = rng.random() < 0.08
    files = {}
    counter = [0]
    for it in its:
        for j, (ox, oy, oz, xl, yl, zl) in enumerate(chunks):
            c = order[j]
            lst = files.setdefault(c if layout == "proc" else None, [])
            for ti, thorn in enumerate(thorns):
                for ev in variables:
                    if ti > 0 and (ev not in twin_vars or (late and it == its[0])):
                        continue
                    counter[0] += 1
                    lst.append([thorn, ev, it, 0, 0, c if (n > 1 or layout == "onefile" and rng.random() < 0.0) else None,
                                g, g, g, ox, oy, oz, 700 + it, zl + 2 * g, yl + 2 * g, xl + 2 * g, 1000 * counter[0]])
    req = list(variables)
    if variables == ["H", "H2"] and rng.random() < 0.5:
        req = ["H"] if rng.random() < 0.5 else ["H2", "H"]
    r = rng.random()
    if r < 0.1:
        req.append("%s::%s" % (thorns[0], req[0]))          # combined name next to the plain one
    elif r < 0.15:
        req = ["%s::%s" % (thorns[-1], v) for v in req]
    fl = [{"it": 0, "file": k, "dsets": v} for k, v in files.items()]
    rng.shuffle(fl)
    cmax = None if layout != "proc" else max(f["file"] for f in fl)
    return {"op": "gvar", "m0": rng.random() < 0.3, "files": fl, "its": rng.sample(its, rng.randint(1, len(its))),
            "vars": req, "rl": 0, "cmax": cmax, "layout": layout, "thorns": len(thorns)}


def gvar_real(c, tmp):
    import h5py
    d = os.path.join(tmp, "gv")
    os.makedirs(d, exist_ok=True)
    try:
        paths = []
        for f in c["files"]:
            fn = os.path.join(d, "x%s.h5" % ("" if f["file"] is None else ".file_%d" % f["file"]))
            paths.append(fn)
            with h5py.File(fn, "w") as h:
                h.create_group("Parameters and Global Attributes")
                for ds in f["dsets"]:
                    x = h.create_dataset(ds_key(ds, c["m0"]), data=index_block(ds[16], ds[13], ds[14], ds[15]).astype(np.float64))
                    x.attrs["cctk_nghostzones"] = np.array(ds[6:9], dtype=np.int32)
                    x.attrs["iorigin"] = np.array(ds[9:12], dtype=np.int32)
                    x.attrs["time"] = np.float64(ds[12])
        try:
            with quiet():
                out = reading().read_ET_group_or_var(list(c["vars"]), paths, "in file" if c["cmax"] is None else c["cmax"],
                                                    it=list(c["its"]), rl=c["rl"])
        except (ValueError, IndexError, KeyError, TypeError, NameError) as ex:
            return "err", type(ex).__name__
        s = "ok t=" + ",".join(str(int(t)) for t in out.get("t", []))
        for k, v in out.items():
            if k != "t":
                s += "|" + k + "=" + "/".join(show_arr(x) for x in v)
        return s, out
    finally:
        shutil.rmtree(d, ignore_errors=True)


def gvar_line(c):
    toks = []
    for f in c["files"]:
        ds = sorted(f["dsets"], key=lambda d: ds_key(d, c["m0"]))
        toks.append("0:%s:%s" % ("-" if f["file"] is None else f["file"], ";".join(
            ",".join("-" if x is None else str(x) for x in d) for d in ds)))
    return "gvar %s %d %s %s %s" % ("-" if c["cmax"] is None else c["cmax"], c["rl"], ",".join(map(str, c["its"])),
                                    ",".join(c["vars"]), " ".join(toks))


def gvar_cases(ctx, tmp):
    cases = []
    kinds = {}
    for _ in range(ctx.budget(150, 1500)):
        c = gen_gvar(ctx.rng)
        out, _ = gvar_real(c, tmp)
        cases.append((gvar_line(c), out, "gvar"))
        k = "%s/%dthorn/%s" % (c["layout"], c["thorns"], "err" if out == "err" else "ok")
        kinds[k] = kinds.get(k, 0) + 1
    ctx.cov["group_or_var_multithorn_cases"] = kinds
    return cases


# --------------------------------------------------------------------------
# level (iv): read_data(usecheckpoints=True) on generated directories; restart choice (Model/Restarts.lean)
# --------------------------------------------------------------------------
def cats_str(sim, considered):
    """the catalogue as `sel2` wants it: r:lo-hi:c1+c2 (e = empty checkpoint list)"""
    out = []
    for r in considered:
        its = sim.its_of(r)
        ck = sim.checkpoint_its(r)
        out.append("%d:%d-%d:%s" % (r, min(its), max(its), "+".join(map(str, sorted(ck))) if ck else "e"))
    return ",".join(out)


def sel2_case(sim, call, data):
    """(driver line, expected) for the restart choice of one call; data None = the call raised"""
    considered = sim.restart_numbers(call["skip_last"])
    line = "sel2 %d %s %s %s" % (1 if call.get("usecheckpoints") else 0,
                                 "-" if call["restart"] < 0 else call["restart"], cats_str(sim, considered),
                                 ",".join(map(str, call["it"])))
    if data is None:
        return line, "err"
    if "it" not in data:
        return line, "ok"
    # the restart of a row is read off the time column (it/4 + 1000*restart [+ 500 for checkpoints])
    return line, ("ok " + " ".join("%d:%d" % (int(it), int(float(data["t"][i]) // 1000))
                                   for i, it in enumerate(data["it"]))).strip()


def checkpoint_calls(rng, sim, ncalls, skip_last):
    d = sim.desc
    considered = sim.restart_numbers(skip_last)
    pool = sorted({i for r in considered for i in sim.checkpoint_its(r)})
    calls = []
    if not pool:
        return calls
    for _ in range(ncalls):
        its = rng.sample(pool, rng.randint(1, len(pool)))
        if rng.random() < 0.3:
            its = its + [rng.choice(its)]
        if rng.random() < 0.3:
            others = [i for i in sim.all_its() if i not in pool]
            if others:
                its = its + [rng.choice(others)]         # has 3D output but no checkpoint: dropped
        if rng.random() < 0.08:
            its = [max(sim.all_its()) + 1000]             # nothing to read: IndexError
        names = list(d["requests"])
        if rng.random() < 0.5:
            names = [c for n in names for c in (etgen.components(n) if rng.random() < 0.5 else [n])]
            names = rng.sample(names, rng.randint(1, len(names)))
        # duplicates (read once since /repo a25772a): the same name twice, a component next to its
        # tensor, the Einstein Toolkit name next to the aurel name
        r = rng.random()
        if r < 0.2:
            names = names + [rng.choice(names)]
        elif r < 0.4:
            tens = [n for n in names if n in etgen.TENSORS]
            if tens:
                names.insert(rng.randrange(len(names) + 1), rng.choice(etgen.components(rng.choice(tens))))
        elif r < 0.6:
            sc = [n for n in names if n in etgen.VARS]
            if sc:
                names.insert(rng.randrange(len(names) + 1), etgen.VARS[rng.choice(sc)][1])
        call = {"it": its, "vars": names, "rl": rng.randrange(len(d["levels"])), "restart": -1,
                "skip_last": skip_last, "usecheckpoints": True}
        if rng.random() < 0.25:
            r = rng.choice(considered)
            if any(i in sim.checkpoint_its(r) for i in its):
                call["restart"] = r
        calls.append(call)
    return calls


def checkpoint_pipeline(ctx, root, ndirs):
    rng = ctx.rng
    found = 0
    cases = []
    stats = {"reads": 0, "raised_as_expected": 0, "restarts_with_checkpoints": 0, "per_proc_checkpoints": 0}
    for k in range(ndirs):
        per_proc, grouped = bool(k & 1), bool(k & 2)
        desc = etgen.random_desc(rng, "c11ck%d" % k, per_proc=per_proc, grouped=grouped,
                                 nlevels=1 + (k // 4) % 2, nmax=ctx.budget(6, 9),
                                 kmax=rng.choice(((2, 2, 2), (3, 2, 2))))
        if rng.random() < 0.3:
            etgen.add_random_regrid(rng, desc, kmax=(2, 2, 2))
        etgen.add_random_checkpoints(rng, desc)
        skip_last = len(desc["restarts"]) >= 2 and rng.random() < 0.25
        sim = etgen.Sim(root, desc)
        calls = checkpoint_calls(rng, sim, ctx.budget(3, 5), skip_last)
        # a few 3D calls with an explicit restart for the general restart model
        for call in random_calls(rng, sim, 1, skip_last):
            calls.append(call)
        stats["restarts_with_checkpoints"] += sum(1 for r in desc["restarts"] if r.get("checkpoints"))
        stats["per_proc_checkpoints"] += sum(1 for r in desc["restarts"]
                                             if r.get("checkpoints", {}).get("per_proc"))
        if k == 0:
            ctx.sample({"generated_checkpoints": [r.get("checkpoints") for r in desc["restarts"]],
                        "checkpoint_calls": calls[:2]})
        sim.write()
        try:
            param = sim.param()
            for call in calls:
                rows = expected_rows(sim, call)
                data, diff = None, None
                try:
                    data = do_read(param, call)
                    diff = check_against_truth(sim, call, data)
                except Exception as ex:  # noqa
                    if rows:
                        diff = "raised %s: %s" % (type(ex).__name__, str(ex)[:200])
                    else:
                        stats["raised_as_expected"] += 1     # nothing to read: raising is allowed
                stats["reads"] += 1
                if diff:
                    found += report(ctx, "read_data(%s) on a generated directory with checkpoints: %s" % (
                        {kk: call[kk] for kk in ("it", "vars", "rl", "restart") + (
                            ("usecheckpoints",) if call.get("usecheckpoints") else ())}, diff),
                        {"kind": "input", "op": "pipeline", "desc": sim.describe(), "call": call},
                        fingerprint(sim, call, diff))
                else:
                    cases.append(sel2_case(sim, call, data) + ("sel2",))
        finally:
            sim.remove()
    ctx.cov["checkpoint_pipeline"] = dict(stats, directories=ndirs)
    return found, cases


def missing_variable_pipeline(ctx, root, ndirs):
    """directories in which one restart did not output one of the requested variables (plain 3D path):
    None expected for that restart's rows (/repo e8cb585), judged by the generator's ground truth"""
    rng = ctx.rng
    found = 0
    cases = []
    stats = {"reads": 0, "reads_with_None": 0, "raised_restart_without_any_requested_variable": 0}
    for k in range(ndirs):
        per_proc, grouped = bool(k & 1), bool(k & 2)
        desc = etgen.random_desc(rng, "c11mv%d" % k, per_proc=per_proc, grouped=grouped, nlevels=1,
                                 nrest=rng.randint(2, 3), nmax=ctx.budget(5, 8), kmax=(2, 2, 2),
                                 nvars=rng.randint(2, 3))
        etgen.add_random_skips(rng, desc)
        skip_last = False
        sim = etgen.Sim(root, desc)
        calls = random_calls(rng, sim, ctx.budget(3, 5), skip_last)
        if k == 0:
            ctx.sample({"restart_without_a_variable": [(r["number"], r.get("skip_vars")) for r in desc["restarts"]],
                        "calls": calls[:1]})
        sim.write()
        try:
            param = sim.param()
            for call in calls:
                rows = expected_rows(sim, call)
                comps = [c for n in call["vars"] for c in request_components(n)]
                starved = any(not any(sim.has_var(c, r) for c in comps) for _, r in rows)
                data, diff = None, None
                try:
                    data = do_read(param, call)
                    diff = check_against_truth(sim, call, data)
                except Exception as ex:  # noqa
                    if starved:
                        # a restart that is read wrote none of the requested variables: no time is
                        # collected for it and the call raises (reported; outside the theorem's reader)
                        stats["raised_restart_without_any_requested_variable"] += 1
                    else:
                        diff = "raised %s: %s" % (type(ex).__name__, str(ex)[:200])
                stats["reads"] += 1
                if data is not None and any(x is None for c in comps for x in data.get(c, [])):
                    stats["reads_with_None"] += 1
                if diff:
                    found += report(ctx, "read_data(%s) on a generated directory in which restart(s) %s lack %s: %s" % (
                        {kk: call[kk] for kk in ("it", "vars", "rl", "restart")},
                        [r["number"] for r in desc["restarts"] if r.get("skip_vars")],
                        [r["skip_vars"] for r in desc["restarts"] if r.get("skip_vars")], diff),
                        {"kind": "input", "op": "pipeline", "desc": sim.describe(), "call": call},
                        fingerprint(sim, call, diff))
                elif data is not None:
                    cases.append(sel2_case(sim, call, data) + ("sel2",))
        finally:
            sim.remove()
    ctx.cov["missing_variable_pipeline"] = dict(stats, directories=ndirs)
    return found, cases


def default_path_histories(ctx, root, ndirs):
    """read_data as users call it (split_per_it=True, the default): several calls on ONE directory
    without clearing the per-iteration cache in between - a component first and then its tensor,
    fewer iterations first and then more, another variable in between - each call judged against
    the generator's ground truth including the time column"""
    rng = ctx.rng
    found = 0
    stats = {"calls": 0, "histories": 0}
    for k in range(ndirs):
        per_proc, grouped = bool(k & 1), bool(k & 2)
        desc = etgen.random_desc(rng, "c11hist%d" % k, per_proc=per_proc, grouped=grouped, nlevels=1 + k % 2,
                                 nrest=rng.randint(1, 2), nmax=ctx.budget(5, 7), kmax=(2, 2, 2),
                                 nvars=rng.randint(2, 3), nits=4)
        sim = etgen.Sim(root, desc)
        pool = sim.all_its()
        tens = [n for n in desc["requests"] if n in etgen.TENSORS]
        main = rng.choice(tens) if tens else rng.choice(desc["requests"])
        first = rng.choice(etgen.components(main))                 # a component, later its tensor
        others = [n for n in desc["requests"] if n != main]
        other = rng.choice(others) if others else main
        few = sorted(rng.sample(pool, rng.randint(1, max(1, len(pool) - 1))))
        mid = sorted(rng.sample(pool, rng.randint(1, len(pool))))
        rl = 0
        hist = [{"it": few, "vars": [first]}, {"it": mid, "vars": [other]},
                {"it": list(pool), "vars": [main] if rng.random() < 0.5 else [main, other]}]
        if rng.random() < 0.5:
            hist.append({"it": rng.sample(pool, rng.randint(1, len(pool))), "vars": list(desc["requests"])})
        if rng.random() < 0.3:
            hist = hist[::2] + hist[1::2]
        nlev = len(desc["levels"])
        if nlev > 1:
            # the levels share the per-iteration cache files: the same requests at the finest level first, then at
            # level 0, then the finest again (each level must get its own data back)
            hist = [dict(h, rl=nlev - 1) for h in hist[:2]] + [dict(h, rl=0) for h in hist] + [dict(hist[-1], rl=nlev - 1)]
        stats["histories"] += 1
        if k == 0:
            ctx.sample({"default_path_history": hist})
        sim.write()
        try:
            param = sim.param()
            done = []
            for h in hist:
                call = {"it": list(h["it"]), "vars": list(h["vars"]), "rl": h.get("rl", rl), "restart": -1, "skip_last": False}
                try:
                    data = do_read(param, call, split_per_it=True)
                    diff = check_against_truth(sim, call, data)
                except Exception as ex:  # noqa
                    diff = "raised %s: %s" % (type(ex).__name__, str(ex)[:200])
                stats["calls"] += 1
                done.append({"it": call["it"], "vars": call["vars"], "rl": call["rl"]})
                if diff:
                    fp = fingerprint(sim, call, diff)
                    fp["site"] = "read_data/default_path_history"
                    found += report(ctx, "read_data (default split_per_it=True), call %d of the history %s on one "
                                    "generated directory: %s" % (len(done), done, diff),
                                    {"kind": "input", "op": "history", "desc": sim.describe(), "history": done,
                                     "rl": rl}, fp)
                    break
        finally:
            sim.remove()
    ctx.cov["default_path_histories"] = dict(stats, directories=ndirs)
    return found


# --------------------------------------------------------------------------
# witnesses of the Lean theorems, replayed on the real code
# --------------------------------------------------------------------------
def witness_cases(ctx, tmp):
    """witnesses of the Lean theorems on the real code: every one is also a correspondence case
    (model output = real output); the two unrepaired ones are reported as known findings"""
    cases = []
    notes = {}
    # class X (Props/C11b classX_gap, classX_shifted_strip): accepted, blocks packed side by side
    for name, raw, stated in (
            ("classX_gap", {"op": "raw", "chunks": [[0, 0, 0, 1, 2, 2, 1], [5, 0, 0, 1, 2, 2, 5]]},
             "ok 1 2 4 : 1 2 5 6 3 4 7 8"),
            ("classX_shifted_strip", {"op": "raw", "chunks": [[0, 0, 0, 1, 1, 2, 1], [2, 0, 0, 1, 1, 2, 3],
                                                              [1, 1, 0, 1, 1, 2, 5], [3, 1, 0, 1, 1, 2, 7]]},
             "ok 1 2 4 : 1 2 3 4 5 6 7 8")):
        real = raw_real(raw)
        ctx.obligation("witness %s replays on the real join_chunks (accepted, packed side by side)" % name,
                       real == stated, "real %s | stated in the theorem %s" % (real, stated), kind="correspondence")
        cases.append((raw_line(raw), real, "witness"))
        if real == stated:
            ctx.violation("join_chunks accepts the class-X dictionary %s (origins with a gap / a shifted strip) and "
                          "returns the blocks packed side by side: %s" % (name, real),
                          {"kind": "input", "op": "classx", "case": raw, "stated": stated},
                          {"kind": "classX_accepted_silently"})
    # the same at the level of read_data: a refinement level made of two separate boxes
    notes["two_box_level_through_read_data"] = two_box_level(tmp)
    if notes["two_box_level_through_read_data"].startswith("returned"):
        ctx.violation("read_data on a refinement level made of two separate boxes: "
                      + notes["two_box_level_through_read_data"],
                      {"kind": "input", "op": "twobox"}, {"kind": "classX_accepted_silently"})
    # a restart that holds only checkpoint files shadows the 3D data of an earlier restart
    notes["checkpoint_only_restart"] = checkpoint_only_restart(tmp)
    if notes["checkpoint_only_restart"].startswith("raised"):
        ctx.violation("read_data(it=[2, 6]) with a restart 1 that contains only checkpoint files (its 4, 8): "
                      + notes["checkpoint_only_restart"] + " although restart 0 stores both iterations",
                      {"kind": "input", "op": "chkonly"}, {"kind": "checkpoint_only_restart_shadows_3d"})
    # a variable requested twice through the checkpoint path (Props/C11c checkpoint_duplicate_names_read_once)
    dup = {"op": "ckpt", "m0": True, "rl": 0, "its": [0, 8], "vars": ["alpha", "alp"], "files": [
        {"it": it, "file": None, "dsets": [["ADMBASE", "alp", it, tl, 0, None, 1, 1, 1, 0, 0, 0, 500 + it, 3, 3, 3,
                                             1000 * it + 100 * tl] for tl in (0, 1)]} for it in (8, 0)]}
    with quiet():
        out, order, data = ckpt_real(dup, tmp)
    stated = "ok it=0,8|t=500/508|alpha=1x1x1:13/1x1x1:8013"
    ctx.obligation("witness checkpoint_duplicate_names_read_once replays on the real read_ET_checkpoints "
                   "(a variable requested twice: one entry per iteration, the right one)", out == stated,
                   "real %s | expected %s" % (out[:200], stated), kind="correspondence")
    cases.append((ckpt_line(dup, order), out, "witness"))
    # a variable missing in a middle / in the first restart (Props/C11b rows_aligned_when_columns_differ)
    for missing, stated in ((1, "ok it=0,6,10|alpha=0,6,10|rho0=0,None,10"),
                            (0, "ok it=0,6,10|alpha=0,6,10|rho0=None,6,10")):
        line, real = differing_columns(tmp, missing)
        ctx.obligation("witness rows_aligned_when_columns_differ replays on the real read_data (rho missing in "
                       "restart %d: None next to its iteration)" % missing, real == stated,
                       "real %s | expected %s" % (real, stated), kind="correspondence")
        cases.append((line, real, "witness"))
    # the checkpoint path does not meet a missing column: a variable that is not in a checkpoint raises
    notes["variable_missing_in_a_checkpoint"] = checkpoint_without_variable(tmp)
    ctx.cov["witness_replays"] = notes
    cases += multi_thorn_findings(ctx, tmp)
    return cases


# --------------------------------------------------------------------------
# known findings of the multi-thorn branch (not repaired): deterministic witnesses, rebuilt on every run
# --------------------------------------------------------------------------
TWIN_DIGIT = 3        # restart digit that marks the data of the second thorn (ML_ADMCONSTRAINTS::H)


def two_thorn_sim(tmp, grouped):
    """a directory whose restart 0 wrote H of BOTH ML_BSSN and ML_ADMCONSTRAINTS at iterations 0 and 8:
    one-variable-per-file -> both in H.h5; one-group-per-file -> ml_bssn-ml_ham.h5 and ml_admconstraints-ml_ham.h5.
    ML_ADMCONSTRAINTS's values carry restart digit TWIN_DIGIT."""
    import h5py
    desc = {"name": "twothorn%d" % grouped, "per_proc": False, "grouped": grouped, "m0": False,
            "vars": ["Hamiltonian"],
            "levels": [{"shape": [3, 2, 2], "ghost": [1, 1, 1], "base": [0, 0, 0], "decomp": [[2, [[2, [3]]]]],
                        "order": [0]}],
            "restarts": [{"number": 0, "its": [0, 8]}], "par_in": 0, "requests": ["Hamiltonian"]}
    sim = etgen.Sim(tmp + "/", desc).write()
    out = sim.outdir(0)

    def copy(f, g):
        for k in list(f.keys()):
            if k.startswith("ML_BSSN::H "):
                d = np.array(f[k])
                d = np.where(d >= 0, d + TWIN_DIGIT * etgen.NX ** 3, d)
                ds = g.create_dataset(k.replace("ML_BSSN", "ML_ADMCONSTRAINTS"), data=d)
                for a, v in f[k].attrs.items():
                    ds.attrs[a] = v
    if grouped:
        with h5py.File(os.path.join(out, "ml_bssn-ml_ham.h5"), "r") as f, \
                h5py.File(os.path.join(out, "ml_admconstraints-ml_ham.h5"), "w") as g:
            g.create_group("Parameters and Global Attributes")
            copy(f, g)
    else:
        with h5py.File(os.path.join(out, "H.h5"), "a") as f:
            copy(f, f)
    return sim


def _cols(sim, data):
    """{key: [restart digit of the data of each entry | None]} of a read_data result"""
    out = {}
    for k, v in data.items():
        if k in ("it", "t"):
            continue
        out[k] = [None if x is None else etgen.decode(np.asarray(x).flat[0]).get("restart") for x in v]
    return out


def two_thorns_default_path(tmp):
    """D1: H.h5 holds ML_BSSN::H and ML_ADMCONSTRAINTS::H. -> (uncached columns, default-path columns, exact?)"""
    sim = two_thorn_sim(tmp, False)
    try:
        call = {"it": [0, 8], "vars": ["Hamiltonian"], "rl": 0, "restart": -1, "skip_last": False}
        un = do_read(sim.param(), call, split_per_it=False)
        exact = all(k in un and all(np.array_equal(np.asarray(un[k][i]), sim.truth("Hamiltonian", it, 0, r))
                                    for i, it in enumerate((0, 8)))
                    for k, r in (("ML_BSSN::H", 0), ("ML_ADMCONSTRAINTS::H", TWIN_DIGIT)))
        sim.clear_caches()
        de = do_read(sim.param(), call, split_per_it=True)
        return _cols(sim, un), _cols(sim, de), exact
    finally:
        sim.remove()


def two_thorn_group_files(tmp):
    """D2: ml_bssn-ml_ham.h5 and ml_admconstraints-ml_ham.h5 next to each other -> columns of the uncached read"""
    sim = two_thorn_sim(tmp, True)
    try:
        call = {"it": [0, 8], "vars": ["Hamiltonian"], "rl": 0, "restart": -1, "skip_last": False}
        return _cols(sim, do_read(sim.param(), call, split_per_it=False))
    finally:
        sim.remove()


def _mt(thorn, ev, it, v0):
    return [thorn, ev, it, 0, 0, None, 1, 1, 1, 0, 0, 0, 500 + it, 3, 3, 3, v0]


SUBSTRING_CASE = {"op": "gvar", "m0": False, "cmax": None, "rl": 0, "its": [0], "vars": ["H"], "layout": "nochunks",
                  "thorns": 2, "files": [{"it": 0, "file": None, "dsets": [_mt("A", "H", 0, 1000), _mt("BA", "H", 0, 2000)]}]}
TWICE_CASE = {"op": "ckpt", "m0": False, "rl": 0, "its": [0, 8], "vars": ["Hamiltonian", "ML_BSSN::H"],
              "files": [{"it": it, "file": None, "dsets": [_mt("ML_ADMCONSTRAINTS", "H", it, 2000 + 10 * it),
                                                            _mt("ML_BSSN", "H", it, 1000 + 10 * it)]} for it in (8, 0)]}
TWICE_STATED = ("ok it=0,8|t=500/508|ML_ADMCONSTRAINTS::H=1x1x1:2013/1x1x1:2093"
                "|ML_BSSN::H=1x1x1:1013/1x1x1:1013/1x1x1:1093/1x1x1:1093")


def multi_thorn_findings(ctx, tmp):
    """the four unrepaired findings of the multi-thorn branch: built, replayed on the real code, reported through
    ctx.violation (fingerprints listed in known_findings.json); D4 / D5 are also correspondence cases"""
    cases = []
    notes = {}
    # D1 ------------------------------------------------------------------
    un, de, exact = two_thorns_default_path(tmp)
    notes["two_thorns_default_path"] = {"split_per_it=False": un, "default": de, "uncached_data_exact": exact}
    ctx.obligation("witness two thorns in H.h5: the uncached read returns both thorns' H exactly, under THORN::H "
                   "(Props/C11d two_thorns_group_or_var_witness)",
                   exact and un == {"ML_ADMCONSTRAINTS::H": [TWIN_DIGIT, TWIN_DIGIT], "ML_BSSN::H": [0, 0]},
                   "columns %s" % un, kind="correspondence")
    if exact and all(x is None for v in de.values() for x in v):
        ctx.violation("H.h5 holds ML_BSSN::H and ML_ADMCONSTRAINTS::H: read_data(vars=['Hamiltonian'], "
                      "split_per_it=False) returns the stored data under %s, the default split_per_it=True returns %s "
                      "- the stored data cannot be read on the default path" % (sorted(un), de),
                      {"kind": "input", "op": "twothorns_default"}, {"kind": "two_thorns_default_path_none"})
    # D2 ------------------------------------------------------------------
    gr = two_thorn_group_files(tmp)
    notes["two_thorn_group_files"] = gr
    if gr == {"Hamiltonian": [0, 0]}:
        ctx.violation("ml_bssn-ml_ham.h5 and ml_admconstraints-ml_ham.h5 in one restart: read_data(vars=['Hamiltonian']) "
                      "returns %s (restart digit 0 = ML_BSSN's data); ML_ADMCONSTRAINTS::H (digit %d) is stored but "
                      "unreachable, no error" % (gr, TWIN_DIGIT),
                      {"kind": "input", "op": "twothorns_groups"}, {"kind": "two_thorn_group_files_shadowed"})
    # D4 ------------------------------------------------------------------
    out, exn = gvar_real(SUBSTRING_CASE, tmp)
    notes["substring_lookup"] = "%s %s" % (out, exn if out == "err" else "")
    ctx.obligation("witness multi_thorn_substring_raises replays on the real read_ET_group_or_var (thorns A and BA)",
                   out == "err" and exn == "ValueError", "real %s" % notes["substring_lookup"], kind="correspondence")
    cases.append((gvar_line(SUBSTRING_CASE), out, "witness"))
    if out == "err":
        ctx.violation("read_ET_group_or_var(['H']) on a file holding A::H and BA::H raises %s: after the rewrite the "
                      "look-up is a substring test and 'A::H' is contained in 'BA::H'" % exn,
                      {"kind": "input", "op": "substring"}, {"kind": "thorn_substring_lookup_raises"})
    # D5 ------------------------------------------------------------------
    with quiet():
        out, order, _ = ckpt_real(TWICE_CASE, tmp)
    notes["combined_name_twice"] = out
    ctx.obligation("witness combined_name_next_to_plain_name_misaligns replays on the real read_ET_checkpoints "
                   "(two entries per iteration in the ML_BSSN::H column)", out == TWICE_STATED,
                   "real %s | stated %s" % (out[:200], TWICE_STATED), kind="correspondence")
    cases.append((ckpt_line(TWICE_CASE, order).replace("ckpt ", "ckptm ", 1), out, "witness"))
    if out == TWICE_STATED:
        ctx.violation("read_ET_checkpoints(vars=['Hamiltonian', 'ML_BSSN::H'], it=[0, 8]): the rewrite puts ML_BSSN::H "
                      "in the request list twice, its column has 4 entries for 2 iterations (entry 1 is iteration "
                      "0's data): %s" % out,
                      {"kind": "input", "op": "combined_twice"}, {"kind": "combined_name_requested_twice"})
    ctx.cov["multi_thorn_known_findings"] = notes
    return cases


def two_box_level(tmp):
    desc = {"name": "twobox", "per_proc": False, "grouped": False, "m0": True, "vars": ["alpha"],
            "levels": [{"shape": [6, 4, 4], "ghost": [1, 1, 1], "base": [0, 0, 0], "decomp": [[4, [[4, [6]]]]],
                        "order": [0]},
                       {"shape": [6, 4, 4], "ghost": [1, 1, 1], "base": [10, 4, 4], "decomp": [[4, [[4, [3, 3]]]]],
                        "order": [0, 1]}],
            "restarts": [{"number": 0, "its": [0, 1]}], "par_in": 0, "requests": ["alpha"]}
    sim = etgen.Sim(tmp + "/", desc).write()
    try:
        import h5py
        for fn in glob.glob(sim.outdir(0) + "/*.h5"):
            with h5py.File(fn, "a") as f:
                for k in f.keys():
                    if "rl=1 c=1" in k:      # the second component is a box 20 points further in x
                        f[k].attrs["iorigin"] = (f[k].attrs["iorigin"] + np.array([20, 0, 0])).astype(np.int32)
        try:
            data = do_read(sim.param(), {"it": [0], "vars": ["alpha"], "rl": 1, "restart": -1, "skip_last": False})
            a = np.asarray(data["alpha"][0])
            return "returned shape %s without error: x index 3 holds the point recorded at x = 33" % (a.shape,)
        except Exception as ex:  # noqa
            return "raised %s" % type(ex).__name__
    finally:
        sim.remove()


def differing_columns(tmp, missing):
    """restarts 0/1/2, restart `missing` did not output rho; returns (flat line, real result)"""
    rs = [{"number": 0, "its": [0, 2, 4]}, {"number": 1, "its": [4, 6, 8]}, {"number": 2, "its": [8, 10, 12]}]
    rs[missing]["skip_vars"] = ["rho0"]
    desc = {"name": "diffcols", "per_proc": False, "grouped": False, "m0": True, "vars": ["alpha", "rho0"],
            "levels": [{"shape": [4, 2, 2], "ghost": [1, 1, 1], "base": [0, 0, 0], "decomp": [[2, [[2, [4]]]]],
                        "order": [0]}],
            "restarts": rs, "par_in": 0, "requests": ["alpha", "rho0"]}
    sim = etgen.Sim(tmp + "/", desc).write()
    try:
        line = "flat 0,6,10 " + " ".join("%d:%d:alpha=%d%s" % (r, it, it, "" if r == missing else ";rho0=%d" % it)
                                         for r, it in ((0, 0), (1, 6), (2, 10)))
        try:
            data = do_read(sim.param(), {"it": [0, 6, 10], "vars": ["alpha", "rho0"], "rl": 0, "restart": -1,
                                         "skip_last": False})
            real = "ok it=" + ",".join(str(int(i)) for i in data["it"]) + "".join(
                "|%s=%s" % (k, ",".join("None" if a is None else str(etgen.decode(np.asarray(a).flat[0])["it"])
                                        for a in data[k]))
                for k in ("alpha", "rho0") if k in data)
        except Exception as ex:  # noqa
            real = "err %s" % type(ex).__name__
        return line, real
    finally:
        sim.remove()


def checkpoint_only_restart(tmp):
    desc = {"name": "onlychk", "per_proc": False, "grouped": False, "m0": True, "vars": ["alpha"],
            "levels": [{"shape": [4, 2, 2], "ghost": [1, 1, 1], "base": [0, 0, 0], "decomp": [[2, [[2, [4]]]]],
                        "order": [0]}],
            "restarts": [{"number": 0, "its": [0, 2, 4, 6]},
                         {"number": 1, "its": [4, 6, 8], "checkpoints": {"its": [4, 8], "ntl": 1}}],
            "par_in": 0, "requests": ["alpha"]}
    sim = etgen.Sim(tmp + "/", desc).write()
    try:
        for fn in glob.glob(sim.outdir(1) + "/alp*.h5"):
            os.remove(fn)                                   # restart 1 wrote checkpoints only
        try:
            data = do_read(sim.param(), {"it": [2, 6], "vars": ["alpha"], "rl": 0, "restart": -1,
                                         "skip_last": False})
            return "returned iterations %s" % [int(i) for i in data.get("it", [])]
        except Exception as ex:  # noqa
            return "raised %s" % type(ex).__name__
    finally:
        sim.remove()


def checkpoint_without_variable(tmp):
    desc = {"name": "chkmiss", "per_proc": False, "grouped": False, "m0": True, "vars": ["alpha", "rho0"],
            "levels": [{"shape": [4, 2, 2], "ghost": [1, 1, 1], "base": [0, 0, 0], "decomp": [[2, [[2, [4]]]]],
                        "order": [0]}],
            "restarts": [{"number": 0, "its": [0, 2, 4], "checkpoints": {"its": [0, 4]}},
                         {"number": 1, "its": [4, 6, 8], "skip_vars": ["rho0"], "checkpoints": {"its": [8]}}],
            "par_in": 0, "requests": ["alpha", "rho0"]}
    sim = etgen.Sim(tmp + "/", desc).write()
    try:
        try:
            data = do_read(sim.param(), {"it": [0, 8], "vars": ["alpha", "rho0"], "rl": 0, "restart": -1,
                                         "skip_last": False, "usecheckpoints": True})
            return "returned %s" % {k: len(v) for k, v in data.items()}
        except Exception as ex:  # noqa
            return "raised %s" % type(ex).__name__
    finally:
        sim.remove()


# --------------------------------------------------------------------------
def run(ctx):
    ctx.trusted += ["Lean 4.33 kernel; axioms propext, Classical.choice, Quot.sound",
                    "py2lean/varmaps.py (YAML tables copied; function bodies AST-compared with the look-up loops)",
                    "Model/Chunks.lean is hand-written; tied to join_chunks / fixij / read_ET_group_or_var / "
                    "the restart choice of read_data by correspondence",
                    "Model/Restarts.lean (restart choice with/without checkpoints, flattening) and "
                    "Model/Checkpoint.lean (read_ET_checkpoints) are hand-written; tied to read_data and to "
                    "read_ET_checkpoints (real HDF5 checkpoint files) by correspondence",
                    "Spec/CheckpointSpec.lean, Spec/ChunkLayout.lean: hand-written statements of 'well-formed "
                    "checkpoint' and 'accepted although not hierarchical'",
                    "lib/etgen.py (generator and ground truth; its variable table is written from the thorn "
                    "documentation, not from aurel)", "h5py / HDF5, numpy slicing/append/transpose semantics"]
    ctx.assumptions += ["arrays with a zero extent are represented only up to emptiness (nested lists carry no shape)",
                        "one chunk per process and level; every level has the same number of chunks in the "
                        "file-per-process layout (what Carpet writes)",
                        "the same variable name in two thorns of one file: modelled literally (Model/MultiThorn.lean, "
                        "tied by the ckptm / gvar correspondences); Model/Checkpoint.lean and the chunk read of "
                        "Model/Chunks.lean are proven to be its specialisation to the ordinary case (Props/C11e), the "
                        "C11c theorems hold for the literal model; the multi-thorn read-back theorem "
                        "(multi_thorn_table_exact) needs the rewrite to happen in the first file of the first "
                        "requested iteration (one component per file) - a thorn appearing later misaligns or raises",
                        "termination of the growing-list loop is proven for files whose dataset names are distinct and "
                        "whose variable names are no THORN::var names (NamesOK: every Cactus file); for other HDF5 "
                        "files the real loop need not end (loop_without_end_witness)",
                        "zero extents: Carpet never writes a component with a zero interior extent (to our knowledge: a "
                        "process always owns at least one interior point per direction); the code "
                        "produces empty slices only for cctk_nghostzones = 0 (the stated [0:-0] boundary, all "
                        "chunks alike), so 'zero extent in only some chunks' needs chunks with DIFFERENT ghost "
                        "widths in one variable - not a Carpet layout; the nested-list limit is kept and documented",
                        "row alignment (None where a restart lacks a column) is proven around per-restart readers "
                        "that deliver one entry per iteration in every column they have; a restart that is read "
                        "but wrote NONE of the requested variables collects no time and the call raises",
                        "requested iterations exist in the restart whose [first,last] range contains them "
                        "(otherwise the code raises ValueError, which the property allows)"]
    try:
        changed, info = varmaps.regen()
        ctx.obligation("py2lean:varmaps", True, "regenerated (changed=%s) %s" % (changed, info), kind="translation")
    except Exception as ex:  # noqa
        ctx.obligation("py2lean:varmaps", False, "translation failed: %r" % ex, kind="translation")
    if not ctx.broken():
        ctx.prove(MODULE, THEOREMS)
        ctx.prove(MODULE_B, THEOREMS_B)
        ctx.prove(MODULE_C, THEOREMS_C)
        ctx.prove(MODULE_D, THEOREMS_D)
        ctx.prove(MODULE_E, THEOREMS_E)
        ctx.forbidden_scan(LEAN_FILES)
        if ctx.tier == "thorough":
            ctx.leanchecker([MODULE, MODULE_B, MODULE_C, MODULE_D, MODULE_E])
    tmp = tempfile.mkdtemp(prefix="c11_")
    found = 0
    try:
        cases, f = direct_cases(ctx, tmp)
        found += f
        try:
            cases += name_cases()
        except Exception as ex:  # noqa
            ctx.obligation("correspondence: name maps", False, repr(ex), kind="correspondence")
        ndirs = ctx.budget(40, 240) + (16 if ctx.broken() else 0)
        f, sel_lines, sel_expect = pipeline(ctx, tmp + "/", ndirs)
        found += f
        cases += [(l, e, "sel") for l, e in zip(sel_lines, sel_expect)]
        try:
            cases += ckpt_cases(ctx, tmp)
        except Exception as ex:  # noqa
            ctx.obligation("correspondence: read_ET_checkpoints cases", False, repr(ex), kind="correspondence")
        try:
            cases += ckpt2_cases(ctx, tmp)
            cases += gvar_cases(ctx, tmp)
        except Exception as ex:  # noqa
            ctx.obligation("correspondence: multi-thorn / mixed process count cases", False, repr(ex),
                           kind="correspondence")
        f, sel2 = checkpoint_pipeline(ctx, tmp + "/", ctx.budget(12, 80) + (8 if ctx.broken() else 0))
        found += f
        cases += sel2
        found += default_path_histories(ctx, tmp + "/", ctx.budget(8, 60) + (8 if ctx.broken() else 0))
        f, sel2 = missing_variable_pipeline(ctx, tmp + "/", ctx.budget(8, 60) + (8 if ctx.broken() else 0))
        found += f
        cases += sel2
        try:
            cases += witness_cases(ctx, tmp)
        except Exception as ex:  # noqa
            ctx.obligation("witness replays", False, repr(ex), kind="correspondence")
        try:
            outs = ctx.run_driver("Driver/C11.lean", [c[0] for c in cases])
        except Exception as ex:  # noqa
            outs = None
            ctx.obligation("correspondence:driver", False, repr(ex), kind="correspondence")
        if outs is not None:
            kinds, bad = {}, {}
            for (line, real, kind), out in zip(cases, outs):
                k = kind + ("/err" if real == "err" else "/empty" if real == "ok empty" else "/ok")
                kinds[k] = kinds.get(k, 0) + 1
                if out != real:
                    bad.setdefault(kind, []).append("%s -> impl %s | model %s" % (line[:200], real[:120], out[:120]))
            ctx.cov["correspondence_cases"] = len(cases)
            ctx.cov["correspondence_distribution"] = kinds
            ctx.sample({"correspondence_case": cases[3][0], "model_output": outs[3][:160]})
            names = {"join": "joinChunks/chunks vs join_chunks on hierarchical decompositions",
                     "raw": "joinChunks vs join_chunks on arbitrary boxes (malformed stream)",
                     "read": "trimGhost+joinChunks+fixij vs read_ET_group_or_var on a real HDF5 file",
                     "regrid": "the same per iteration when ONE call reads several iterations of one file whose "
                               "component count changes between them (Carpet regrid)",
                     "trim": "pyTrim vs numpy [g:-g]", "fixij": "fixij vs reading.fixij",
                     "names": "Gen/VarMaps functions vs transform_vars_*", "sel": "readOrder vs restart chosen by read_data",
                     "ckpt": "Model/Checkpoint.readCheckpoints vs read_ET_checkpoints on real HDF5 checkpoint files "
                             "(well-formed and malformed)",
                     "ckptm": "Model/MultiThorn.readCheckpointsM (literal: request list rewritten while iterated over) vs "
                              "read_ET_checkpoints on real HDF5 checkpoint files with the same variable name in 2-3 "
                              "thorns and with iterations written by different numbers of processes / layouts",
                     "gvar": "Model/MultiThorn.readGroupOrVar vs read_ET_group_or_var on real HDF5 files (3 chunk "
                             "layouts, several iterations, 1-3 thorns with common variable names, substring thorn "
                             "names, a second thorn appearing later, combined names in the request)",
                     "sel2": "Model/Restarts.readETData vs restart chosen by read_data (with/without checkpoints, "
                             "explicit restart, nothing to read)",
                     "witness": "witnesses of the Lean theorems: model output vs real output"}
            for kind, title in names.items():
                n = sum(1 for c in cases if c[2] == kind)
                ctx.obligation("correspondence: %s (%d cases)" % (title, n), kind not in bad,
                               "; ".join(bad.get(kind, [])[:4]), kind="correspondence")
    finally:
        shutil.rmtree(tmp, ignore_errors=True)


def replay(ctx, obj):
    tmp = tempfile.mkdtemp(prefix="c11_replay_")
    try:
        if obj.get("op") == "join":
            out, A, got = join_real(obj["case"])
            bad = out != show(A)
            print("replay join: %s" % ("still differs from the array that was cut" if bad else "now correct"))
            return 1 if bad else 0
        if obj.get("op") == "history":
            sim = etgen.Sim(tmp + "/", obj["desc"]).write()
            diff = None
            for n, h in enumerate(obj["history"]):
                call = {"it": h["it"], "vars": h["vars"], "rl": obj.get("rl", 0), "restart": -1, "skip_last": False}
                try:
                    diff = check_against_truth(sim, call, do_read(sim.param(), call, split_per_it=True))
                except Exception as ex:  # noqa
                    diff = "raised %s: %s" % (type(ex).__name__, ex)
                if diff:
                    diff = "call %d: %s" % (n + 1, diff)
                    break
            print("replay history: %s" % (diff or "now correct"))
            return 1 if diff else 0
        if obj.get("op") == "classx":
            real = raw_real(obj["case"])
            print("replay class X: join_chunks gives %s" % real)
            return 1 if real == obj.get("stated") else 0
        if obj.get("op") == "twobox":
            res = two_box_level(tmp)
            print("replay two-box level: %s" % res)
            return 1 if res.startswith("returned") else 0
        if obj.get("op") == "chkonly":
            res = checkpoint_only_restart(tmp)
            print("replay checkpoint-only restart: %s" % res)
            return 1 if res.startswith("raised") else 0
        if obj.get("op") == "twothorns_default":
            un, de, exact = two_thorns_default_path(tmp)
            print("replay two thorns in H.h5: split_per_it=False %s (exact %s); default path %s" % (un, exact, de))
            return 1 if exact and all(x is None for v in de.values() for x in v) else 0
        if obj.get("op") == "twothorns_groups":
            gr = two_thorn_group_files(tmp)
            print("replay ml_bssn-ml_ham + ml_admconstraints-ml_ham: %s (restart digit 0 = ML_BSSN, %d = "
                  "ML_ADMCONSTRAINTS)" % (gr, TWIN_DIGIT))
            return 1 if gr == {"Hamiltonian": [0, 0]} else 0
        if obj.get("op") == "substring":
            out, exn = gvar_real(SUBSTRING_CASE, tmp)
            print("replay thorns A / BA: read_ET_group_or_var gives %s %s" % (out, exn if out == "err" else ""))
            return 1 if out == "err" else 0
        if obj.get("op") == "combined_twice":
            with quiet():
                out, _, _ = ckpt_real(TWICE_CASE, tmp)
            print("replay ['Hamiltonian', 'ML_BSSN::H']: %s" % out[:300])
            return 1 if out == TWICE_STATED else 0
        if obj.get("op") == "ckpt":
            out, order, _ = ckpt_real(obj["case"], tmp)
            print("replay ckpt: real read_ET_checkpoints gives %s" % out[:300])
            return 0
        sim = etgen.Sim(tmp + "/", obj["desc"]).write()
        try:
            data = do_read(sim.param(), obj["call"])
            diff = check_against_truth(sim, obj["call"], data)
        except Exception as ex:  # noqa
            diff = "raised %s: %s" % (type(ex).__name__, ex)
        print("replay pipeline: %s" % (diff or "now correct"))
        return 1 if diff else 0
    finally:
        shutil.rmtree(tmp, ignore_errors=True)


MANIFEST = {
    "category": "proof",
    "technique": "Lean 4 theorems over a hand-written chunk model (unbounded sizes, chunk counts and enumeration "
                 "orders: List.Perm + sorting lemmas, one generic grouping-pass lemma instantiated on three axes) "
                 "and kernel-decided name-map tables regenerated from the YAML; model tied to the code by exact "
                 "integer correspondence, whole pipeline checked against a generator's ground truth",
    "text": "Proof for all grid sizes, all hierarchical decompositions (z-slabs, each cut in y, each strip cut in x at "
            "its own positions), all chunk counts and all enumeration orders that the model of join_chunks returns "
            "exactly the array that was cut; that trimming removes the ghost layers whatever they contain (widths "
            ">= 1; width 0 is the stated empty-slice boundary); that fixij is the (z,y,x)->(x,y,z) transposition and "
            "an involution; that mismatching cross-sections raise; that every scalar name round-trips "
            "aurel->ET->aurel and every tensor expands to components that map back (tables regenerated from "
            "var_mappings.yml on every run). "
            "ACCEPTED LAYOUTS (Props/C11b): exact characterisation of the chunk dictionaries join_chunks accepts: "
            "accepted <=> (up to order) the blocks of an ORDERED origin-annotated decomposition of the result, cut at "
            "the cumulative offsets of the block extents - origins are used only to group and to sort; hence accepted "
            "=> hierarchical chunks under their true origins (exact read-back) OR class X (origins with gaps, overlaps, "
            "shifted strips/slabs: blocks packed side by side, silently); concrete class-X witnesses, replayed on the "
            "real code; 'every unsupported layout raises' is proven FALSE of the code. "
            "RESTARTS (Props/C11b, Model/Restarts.lean, code as of e8cb585): for any number of restarts, any overlap, "
            "with and without usecheckpoints, any request (duplicates, unsorted, absent iterations) and for an explicit "
            "restart: the iteration is taken from the last catalogue entry holding it (= largest restart number for a "
            "sorted catalogue); rows come back increasing, once each; the columns are the union of the columns of the "
            "restarts read; the t column and every variable column have exactly one entry per row: the chosen restart's "
            "value or None when that restart lacks the column - no hypothesis on the columns the restarts deliver. "
            "CHECKPOINTS (Props/C11c, Model/Checkpoint.lean written after read_ET_checkpoints): a well-formed checkpoint "
            "(one file / one file with n components / one file per process; any file order, component numbering, "
            "hierarchical decomposition, ghost content; other iterations, levels, past time levels, other variables in "
            "the file) is read back exactly per iteration, as a table over all requested iterations, and through the "
            "restart selection of read_ET_data(usecheckpoints=True), for ANY request list: a name requested twice (same "
            "name, component next to its tensor, ET name next to the aurel name) is read once (a25772a) and every column "
            "has exactly one entry per returned iteration. "
            "NAMES, every entry and every string (Props/C11d): the D6 lists are the whole generated table; every entry of "
            "the ET->aurel table maps back; no two aurel scalar names share an ET variable; tensor expansions are "
            "disjoint; aurel->ET->aurel is the identity on EVERY string that is neither a tensor nor an ET-table key, "
            "ET->aurel->ET on every string the aurel table leaves alone; result column names are canonical. "
            "MIXED LAYOUTS (/repo bd9646b: cmax is decided per iteration; Model/Checkpoint.cmaxOf, Spec GoodItAuto): "
            "checkpoints of one restart written by different numbers of processes or in different layouts (one file, "
            "one file with components, one file per process) are read back exactly - the table and pipeline theorems "
            "of C11c carry NO cmax hypothesis any more; the number in a numeric cmax is never used; the formerly "
            "raising mixtures (one file then per-process files; per-process then one file with components) are "
            "kernel-evaluated witnesses of a correct read and are generated on every run. "
            "SAME VARIABLE NAME IN SEVERAL THORNS (Model/MultiThorn.lean, literal: the request list is rewritten "
            "while it is iterated over, state carried over chunks, files and iterations; read_ET_checkpoints and "
            "read_ET_group_or_var): for one component per file every thorn's dataset is read exactly once under "
            "THORN::var and the list becomes pre ++ THORN0::var :: post ++ [THORN1::var..] (multi_thorn_file_read); "
            "the substring look-up raises when one THORN::var is contained in another dataset name; kernel-evaluated "
            "witnesses: both thorns returned under combined names, one file with several components raises, a "
            "combined name next to the plain name doubles the column (misaligned), a second thorn appearing at a "
            "later iteration raises. "
            "ONE IMPLEMENTATION, OLD MODELS = ITS SPECIALISATION (Props/C11e): in the ordinary case (no requested name "
            "answered by two datasets of one iteration/level/component) the literal model readCheckpointsM equals "
            "readCheckpoints of Model/Checkpoint.lean, raising or not (literal_model_specialises); whatever the old model "
            "reads the literal model reads with the same result (old_model_read_transfers), so checkpoint_table_exact and "
            "checkpoint_pipeline_exact hold for the literal model (..._literal); the literal model readGroupOrVar of "
            "read_ET_group_or_var is, in the three regular layouts, fixij(joinChunks(toDict(selected blocks))) - the chunk "
            "read of Model/Chunks.lean (group_or_var_is_chunk_read) - hence well-formed 3D output over all files, "
            "components, iterations and variables is read back exactly by the literal model (group_or_var_exact). "
            "MULTI-THORN OVER FILES AND ITERATIONS: when the first file of the first requested iteration holds one "
            "component (no c=, or one file per process) and answers a name by several thorns, the request is rewritten "
            "there and everything after it (the other process files, the joins, every later iteration in whichever "
            "layout) is an ordinary read of the rewritten list: every thorn's variable is read back exactly in a column "
            "THORN::var, one entry per iteration (multi_thorn_iteration_read, multi_thorn_table_read, "
            "multi_thorn_table_exact). Where it fails: ONE file with several components c=0.. and a name shared by two "
            "thorns ALWAYS raises - the second look-up runs over all components (multi_thorn_components_raise, "
            "..._call_raises: theorems about the literal model). "
            "TERMINATION: the index loop over the growing request list never exhausts the model's fuel for files with "
            "distinct dataset names whose variable names are no THORN::var names (fuel_never_exhausted_checkpoints / "
            "_group_or_var; list length <= L0 + L0*R), so `none` of the model always means that the code raises "
            "(none_means_raise, more_fuel_same_result); the hypothesis is needed (loop_without_end_witness). "
            "All models are tied to the code by exact integer correspondence (join_chunks, fixij, "
            "read_ET_group_or_var and read_ET_checkpoints through real HDF5 files, restart choice of read_data); the "
            "whole read_data pipeline, with and without usecheckpoints, with duplicate names and with restarts that "
            "lack a requested variable (None expected), is compared with the ground truth of generated Carpet-style "
            "directories in all four layouts.",
    "note": "Trusted: Lean kernel + propext/Classical.choice/Quot.sound; the hand-written models and specs (validated on "
            "1500 quick / 8000 thorough random decompositions of 1-60 chunks, malformed boxes, ghost widths 0-4 through "
            "real HDF5 files; 160 / 1500 random checkpoint file sets incl. malformed ones); the generator lib/etgen.py; "
            "h5py/numpy. KNOWN FINDINGS reported on every run (not repaired): class X - 'an unsupported layout raises' is "
            "false, e.g. a refinement level made of two separate boxes is glued together; a restart holding only "
            "checkpoint files shadows the 3D data of earlier restarts (IndexError). The multi-thorn / mixed-count "
            "model is validated on 120+160 / 1200+1500 checkpoint file sets and 150 / 1500 read_ET_group_or_var "
            "file sets per run (2-3 thorns with a common variable name, substring thorn names, combined names in the "
            "request, layouts changing between iterations). NOT claimed for the multi-thorn branch: a rewrite that "
            "happens AFTER the first file of the first requested iteration (a second thorn appearing later: misaligned "
            "columns or KeyError, witnesses in Props/C11d); a read-back theorem for read_ET_group_or_var with two thorns "
            "over several files (witnesses + correspondence only); the degenerate plans of read_ET_group_or_var (numeric "
            "cmax 0, one file whose names carry only c=0: relevant_keys_with_c is stale or unbound) are outside "
            "`Ordinary`. OBSERVATION (not a Cactus layout): a variable literally named `T1::V1` in thorn A next to "
            "T1::V1 makes the real loop append for ever (loop_without_end_witness; the real call does not return). KNOWN FINDINGS of the multi-thorn branch, rebuilt and replayed on the real "
            "code on every run (not repaired: the in-place rewrite of the request list spans four functions): with "
            "the default split_per_it=True a variable stored by two thorns of one file comes back as None "
            "(two_thorns_default_path_none); two group files ml_bssn-ml_ham / ml_admconstraints-ml_ham are read as "
            "chunks of ONE variable, the second silently wins (two_thorn_group_files_shadowed); the substring "
            "look-up raises for thorns A / BA (thorn_substring_lookup_raises); a combined name next to the plain "
            "name doubles the column (combined_name_requested_twice). Also not claimed: a variable "
            "absent from a checkpoint (raises ValueError, no None); a restart that is read but wrote none of the "
            "requested variables (raises IndexError); blocks with a zero extent in only some chunks (needs different "
            "ghost widths inside one variable: not a Carpet layout; nested lists carry no shape).",
}
