"""C09 — fluid variables, stress-energy tensor, Eulerian projections."""
import numpy as np

from lib import corecheck

MODULE = "AurelVerif.Props.C09"
THEOREMS = ["AurelVerif.C09." + t for t in (
    "uup_spec", "udown4_spec", "u_unit", "u_unit_down", "u_dot_n", "udown_spatial",
    "hdown4_spec", "hup4_spec", "hmixed4_spec", "h_orthogonal_u", "Tdown4_spec", "Tup4_spec",
    "rho_n_spec", "rho_n_closed", "fluxdown3_spec", "press_n_spec", "Stresstrace_spec", "anisotropic_spec",
    "Ttrace_alternatives", "conserved_spec", "eos_specs", "eos_consistent", "enthalpy_density")]
NEEDED = ["uup0", "uup3", "uup4", "udown4", "hdown4", "hup4", "hmixed4", "Tdown4", "Tup4", "rho_n", "fluxup3_n",
          "fluxdown3_n", "press_n", "Stresstrace_n", "Stressup3_n", "Stressdown3_n", "anisotropic_press_down3_n",
          "Ttrace", "conserved_D", "conserved_E", "conserved_Sdown4", "conserved_Sup4", "rho", "rho0", "eps",
          "enthalpy", "velup3", "nup4", "gdown4"]


def search(ctx, n):
    found = 0
    for it in range(n):
        seed = ctx.rng.randrange(10 ** 6)
        rng = np.random.default_rng(seed)
        rel = corecheck.make_rel(rng, N=6, order=2, fluid=True)
        g3, a, b = rel["gammadown3"], rel["alpha"], rel["betaup3"]
        W = rel["w_lorentz"]
        v = np.array([rel["velx"], rel["vely"], rel["velz"]])
        rho0, eps, p = rel["rho0"], rel["eps"], rel["press"]
        rho = rho0 * (1 + eps)
        # independent closed forms from the inputs
        bd = np.einsum("i...,ij...->j...", b, g3)
        g4 = np.empty((4, 4) + a.shape)
        g4[0, 0] = -a ** 2 + np.einsum("i...,i...->...", b, bd)
        g4[0, 1:] = bd
        g4[1:, 0] = bd
        g4[1:, 1:] = g3
        uu = np.concatenate([(W / a)[None], W * (v - b / a)])
        ud = np.einsum("ab...,b...->a...", g4, uu)
        vd = np.einsum("ij...,j...->i...", g3, v)
        T = rho * np.einsum("a...,b...->ab...", ud, ud) + p * (g4 + np.einsum("a...,b...->ab...", ud, ud))
        rhoh = rho + p
        checks = [
            ("u^mu", "uup4", rel["uup4"], uu), ("u_mu", "udown4", rel["udown4"], ud),
            ("u.u = -1 (down,up)", "udown4", np.einsum("a...,a...->...", rel["udown4"], rel["uup4"]), -np.ones_like(a)),
            ("g^{mu nu}u_mu u_nu = -1", "gup4", np.einsum("ab...,a...,b...->...", rel["gup4"], rel["udown4"], rel["udown4"]), -np.ones_like(a)),
            ("T_mu_nu = rho u_mu u_nu + p h_mu_nu", "Tdown4", rel["Tdown4"], T),
            ("E = rho h W^2 - p", "rho_n", rel["rho_n"], rhoh * W ** 2 - p),
            ("S_i = rho h W^2 v_i", "fluxdown3_n", rel["fluxdown3_n"], rhoh * W ** 2 * vd),
            ("S^i = rho h W^2 v^i", "fluxup3_n", rel["fluxup3_n"], rhoh * W ** 2 * v),
            ("S_ij = rho h W^2 v_i v_j + p gamma_ij", "Stressdown3_n", rel["Stressdown3_n"],
             rhoh * W ** 2 * np.einsum("i...,j...->ij...", vd, vd) + p * g3),
            ("P = S/3", "press_n", rel["press_n"], (rhoh * W ** 2 * np.einsum("i...,i...->...", v, vd) + 3 * p) / 3),
            ("trace T = -rho + 3 p", "Ttrace", rel["Ttrace"], -rho + 3 * p),
            ("D = rho0 W sqrt(gamma)", "conserved_D", rel["conserved_D"], rho0 * W * np.sqrt(np.linalg.det(np.moveaxis(g3, (0, 1), (-2, -1))))),
            ("S_mu = D h u_mu", "conserved_Sdown4", rel["conserved_Sdown4"],
             rho0 * W * np.sqrt(rel["gammadet"]) * (1 + eps + p / rho0) * ud),
            ("h_mu_nu u^nu = 0", "hdown4", np.einsum("ab...,b...->a...", rel["hdown4"], rel["uup4"]), np.zeros_like(ud)),
            ("anisotropic stress trace-free", "anisotropic_press_down3_n",
             np.einsum("ij...,ij...->...", rel["gammaup3"], rel["anisotropic_press_down3_n"]), np.zeros_like(a)),
        ]
        # the other alternative of Ttrace: with Tdown4 present
        rel2 = corecheck.make_rel(np.random.default_rng(seed), N=6, order=2, fluid=True, extra={"Tdown4": T})
        checks.append(("trace T (Tdown4 supplied) = g^{mu nu} T_mu_nu", "Ttrace", rel2["Ttrace"], -rho + 3 * p))
        checks.append(("E from supplied T", "rho_n", rel2["rho_n"], rhoh * W ** 2 - p))
        # the alternatives taken when NOTHING else is cached yet: every key once more, each on a fresh instance
        # (the list above requests Tdown4 first, so e.g. Ttrace would otherwise only ever see a cached Tdown4)
        firsts = [("trace T = -rho + 3 p", "Ttrace", -rho + 3 * p), ("E = rho h W^2 - p", "rho_n", rhoh * W ** 2 - p),
                  ("P = S/3", "press_n", (rhoh * W ** 2 * np.einsum("i...,i...->...", v, vd) + 3 * p) / 3),
                  ("S_i = rho h W^2 v_i", "fluxdown3_n", rhoh * W ** 2 * vd), ("S^i = rho h W^2 v^i", "fluxup3_n", rhoh * W ** 2 * v),
                  ("S_ij = rho h W^2 v_i v_j + p gamma_ij", "Stressdown3_n",
                   rhoh * W ** 2 * np.einsum("i...,j...->ij...", vd, vd) + p * g3),
                  ("u_mu", "udown4", ud), ("S_mu = D h u_mu", "conserved_Sdown4", rho0 * W * np.sqrt(rel["gammadet"]) * (1 + eps + p / rho0) * ud)]
        ctx.rng.shuffle(firsts)
        for what, key, exp in firsts[:ctx.budget(3, 8)]:
            relf = corecheck.make_rel(np.random.default_rng(seed), N=6, order=2, fluid=True)
            checks.append((what + " (requested first on a fresh instance)", key, relf[key], exp))
        # "spatial Ricci from T" with a cosmological constant: R_ij = Lambda gamma_ij + kappa (T_ij - T g_ij / 2), requested
        # first on a fresh instance, and its agreement with the spatial block of st_Ricci_down4 (the other derivation)
        Lam = 0.3
        kappa = 8 * np.pi
        rell = corecheck.make_rel(np.random.default_rng(seed), N=6, order=2, fluid=True, Lambda=Lam)
        if abs(rell.kappa - kappa) < 1e-12:
            gu4 = np.linalg.inv(np.moveaxis(g4, (0, 1), (-2, -1)))
            trT = np.einsum("...ab,ab...->...", gu4, T)
            R3 = Lam * g3 + kappa * (T[1:, 1:] - 0.5 * trT * g3)
            checks.append(("st_Ricci_down3 = Lambda gamma_ij + kappa (T_ij - T g_ij / 2) (requested first)", "st_Ricci_down3",
                           rell["st_Ricci_down3"], R3))
            rel4 = corecheck.make_rel(np.random.default_rng(seed), N=6, order=2, fluid=True, Lambda=Lam)
            # (Tdown4 first: st_Ricci_down4 then takes its 'from T' derivation, which is exact algebra; without it the
            # code contracts the finite-difference Riemann tensor and agrees only up to truncation error, 1e-5 here)
            rel4["Tdown4"]
            R4 = np.asarray(rel4["st_Ricci_down4"])
            checks.append(("st_Ricci_down4 spatial block = the same (other derivation)", "st_Ricci_down4", R4[1:, 1:], R3))
            checks.append(("st_Ricci_down3 after st_Ricci_down4 = its spatial block", "st_Ricci_down3", rel4["st_Ricci_down3"], R4[1:, 1:]))
        for what, key, got, exp in checks:
            ctx.count("oracle_evaluations")
            scale = max(1.0, float(np.max(np.abs(exp))))
            err = float(np.max(np.abs(np.asarray(got) - exp))) / scale
            if not (err <= 1e-9):
                found += ctx.violation("%s: max relative deviation %.3g" % (what, err),
                                       {"kind": "input", "oracle": what, "key": key, "generator_seed": seed, "residual": err},
                                       {"site": key, "oracle": what})
    return found


def run(ctx):
    ctx.trusted += corecheck.TRUSTED
    ctx.assumptions += ["round-off is not modelled; hypotheses: alpha != 0, symmetric gamma, W^2 (1 - gamma_ij v^i v^j) = 1",
                        "closed forms of the stress S_ij and of trace T = -rho + 3p are checked by the numerical oracle only; E and S^i, S_i have theorems"]
    r = corecheck.regen_and_validate(ctx, NEEDED)
    if r is not None and not ctx.broken():
        ctx.prove(MODULE, THEOREMS, timeout=2400)
        ctx.prove("AurelVerif.Props.C09b", ["AurelVerif.C09." + t for t in ("fluxup3_spec", "T_dot_n", "flux_closed", "fluxdown_closed", "quad_form_inverse", "trace_inverse", "Ttrace_closed", "lower_raise", "Stress_specs", "stress_closed")], timeout=2400)
        ctx.forbidden_scan(["AurelVerif/Props/C09.lean", "AurelVerif/Props/C09b.lean", "AurelVerif/Props/C08.lean", "AurelVerif/Lemmas/CoreTac.lean",
                            "AurelVerif/Gen/CoreKeys.lean"])
        if ctx.tier == "thorough":
            ctx.leanchecker([MODULE])
    with np.errstate(all="ignore"):
        search(ctx, ctx.budget(4, 30) + (20 if ctx.broken() else 0))
        if r is not None:
            hseed = ctx.rng.randrange(10 ** 6)
            corecheck.history_pass(ctx, r[2], ["Tdown4", "Ttrace", "rho_n", "fluxup3_n", "fluxdown3_n", "Stressdown3_n", "Stressup3_n",
                                               "Stresstrace_n", "press_n", "anisotropic_press_down3_n", "conserved_D", "conserved_E",
                                               "conserved_Sdown4", "udown4", "uup4", "hdown4"],
                                   lambda N: corecheck.make_rel(np.random.default_rng(hseed), N=N, order=4, fluid=True),
                                   "C09", Ns=(8, 16), max_alts=None if ctx.tier == "thorough" or ctx.broken() else 14)


def replay(ctx, obj):
    with np.errstate(all="ignore"):
        n = search(ctx, 10)
    return 1 if n else 0


MANIFEST = {
    "category": "proof",
    "technique": "Lean 4 theorems (field_simp / linear_combination over an arbitrary field) about formulas regenerated from core.py by symbolic execution; translation validation each run; closed-form oracle on the real code as failing-input search",
    "text": "Proof for every lapse != 0, shift, symmetric metric, velocity with W^2(1-v^2)=1, rho0, eps, p: u^mu from (W, v, alpha, beta) is unit timelike, u_mu = g u, u.n = -W, u_i = W v_i, h projects orthogonally to u, T_mu_nu = rho u_mu u_nu + p h_mu_nu with indices DOWN, E = T n n = rho h W^2 - p, the definitions of flux / stress / pressure / trace / conserved variables as the stated contractions, both alternatives of trace T, and the rho/rho0/eps/enthalpy relations including the value at rho0 = 0.",
    "note": "Trusted: Lean kernel + 3 standard axioms; symbolic-execution translator (validated each run); numpy semantics; exact arithmetic. Closed forms S^i = rho h W^2 v^i and S_i = rho h W^2 v_i are theorems (C09b); trace T = -rho + 3p is a theorem too (Ttrace_closed).",
}
