"""C02 — requests never modify user inputs or values already handed out.

Static half: tools/py2lean/aliasir.py regenerates the alias IR of every
function of core.py, maths.py, finitedifference.py, numerical.py, time.py,
reading.py (Gen/AliasIR.lean); Lean proves, for every IR program that passes the
may-alias check, that no request changes a pre-existing root (Props/C02Core.lean),
the kernel decides that the generated program passes (Gen/AliasChk*.lean,
Props/C02.lean), and Props/C02Containers.lean reads the container-level claim
off the kernel-checked summaries of the functions the property names
(read_data, read_ET_data, read_aurel_data, save_data, join_chunks,
read_ET_group_or_var, the transform_vars_* helpers, over_time: nothing that
existed before the call is changed in any way; process_single_timestep: only the
dict passed as `data`).  tools/py2lean/alias_constructs.py runs ~165 small
functions - one per way of changing / aliasing an argument - for real, checks
that their IR reproduces what happened, and the kernel decides that the check
rejects every mutating one and accepts its non-mutating twin
(Gen/AliasConstructs.lean, Props/C02Constructs.lean).  When a function fails, the
obligation names the source lines that defeat the analysis
(tools/py2lean/aliasdiag.py, a Python replay of `analyse`).

Dynamic half (this file), on the REAL code:
  * search oracle, independent of model and translator: every input array is
    made read-only and SHA-1-hashed, likewise every array in rel.data and every
    array returned so far; after every request of a random history everything
    is re-hashed; a write into a read-only array raises inside numpy and is
    caught with its stack.  Every description key is requested at least once
    (non-vacuum, non-zero shift, matter; computed and served from the cache).
    over_time / process_single_timestep with EVERY entry of est_functions and
    custom estimators / variables, list-of-arrays and stacked layouts, read-only
    and writable arrays, and a second over_time call on the returned dict (what
    was handed out earlier must not change); save_data / read_data /
    read_aurel_data / join_chunks / the transform_* helpers / read_data on
    generated Einstein Toolkit directories: arguments deep-copied before and
    compared after (lists by identity of their elements and by content, arrays
    by hash).
  * translation validation: a sys.setprofile hook watches every call of a
    translated function and compares what happened with what the Lean analysis
    claims in its summary (argument arrays changed -> must be in mutA; list /
    dict arguments of reading / time functions changed -> must be in mutC; result
    shares memory with an argument / a protected array -> must be in retOwn /
    retReach).  A disagreement is a translator-soundness failure.
"""
import copy
import hashlib
import os
import random
import shutil
import sys
import tempfile
import traceback

import numpy as np

from lib import fw
from py2lean import aliasdiag, aliasir, alias_constructs

MODULE = "AurelVerif.Props.C02"            # D2 + T3 for the generated program (imports Gen/AliasCheck)
MODULE_CORE = "AurelVerif.Props.C02Core"   # program-independent theorems
MODULE_CONT = "AurelVerif.Props.C02Containers"    # container-level claims per function (summaries of the program)
MODULE_CONS = "AurelVerif.Props.C02Constructs"    # the check on every mutating / aliasing construct (generated IR)
THEOREMS_CONT = ["AurelVerif.C02." + t for t in (
    "check_sound_by_summary", "containerClaimFns_summaries", "aurel_argument_containers_untouched",
    "process_single_timestep_summary", "process_single_timestep_only_data")]
THEOREMS_CONS = ["AurelVerif.C02." + t for t in (
    "constructs_mutating_rejected", "constructs_harmless_accepted", "constructs_conservative_rejected")]
THEOREMS_CORE = ["AurelVerif.C02." + t for t in (
    "check_sound", "check_sound_aliasCheck", "returned_allocated", "check_sound_containers",
    "check_sound_helpers", "history_sound")]
THEOREMS = ["AurelVerif.C02." + t for t in ("aurel_alias_ok", "aurel_history_sound")]
LEAN_FILES = ["AurelVerif/Props/C02.lean", "AurelVerif/Props/C02Core.lean", "AurelVerif/Lemmas/Heap.lean",
              "AurelVerif/Model/Heap.lean", "AurelVerif/Props/C02Containers.lean", "AurelVerif/Lemmas/C02Containers.lean",
              "AurelVerif/Props/C02Constructs.lean", "AurelVerif/Gen/AliasConstructs.lean",
              "AurelVerif/Gen/AliasIR.lean", "AurelVerif/Gen/AliasSumm.lean", "AurelVerif/Gen/AliasCheck.lean"] + [
              "AurelVerif/Gen/AliasChk%d.lean" % k for k in range(aliasir.NCHUNKS)]
MODFILE = {"maths": "maths.py", "numerical": "numerical.py", "fd": "finitedifference.py", "core": "core.py",
           "time": "time.py", "reading": "reading.py"}
N = 8


# ------------------------------------------------------------------ registry
def root_of(a):
    while isinstance(a.base, np.ndarray):
        a = a.base
    return a


def arrays_in(obj, depth=3):
    """ndarrays reachable from obj through lists / tuples / dicts"""
    if isinstance(obj, np.ndarray):
        if obj.dtype != object:
            yield obj
        return
    if depth == 0:
        return
    if isinstance(obj, (list, tuple)):
        for e in obj:
            yield from arrays_in(e, depth - 1)
    elif isinstance(obj, dict):
        for e in obj.values():
            yield from arrays_in(e, depth - 1)


def sha(a):
    return hashlib.sha1(np.ascontiguousarray(a).view(np.uint8).tobytes() if a.dtype != object else b"").hexdigest()


class Registry:
    """every protected root: made read-only, hashed"""

    def __init__(self):
        self.roots = {}      # id(root) -> (root, sha, label)

    def protect(self, obj, label):
        for a in arrays_in(obj):
            r = root_of(a)
            if id(r) not in self.roots:
                try:
                    r.setflags(write=False)
                except ValueError:
                    pass
                self.roots[id(r)] = (r, sha(r), label)
            if a is not r:
                try:
                    a.setflags(write=False)
                except ValueError:
                    pass

    def changed(self):
        out = []
        for rid, (r, h, label) in self.roots.items():
            if sha(r) != h:
                out.append(label)
                self.roots[rid] = (r, sha(r), label)
        return out


# --------------------------------------------------------------- real objects
def make_inputs(rng, fd):
    x, y, z = fd.x, fd.y, fd.z
    a = [rng.uniform(0.5, 1.5) for _ in range(12)]
    inp = {
        "gxx": 1 + 0.1 * np.sin(a[0] * x), "gxy": 0.02 * np.cos(a[1] * y), "gxz": 0.01 * np.sin(z) * x,
        "gyy": 1.1 + 0.1 * np.cos(x * y), "gyz": 0.03 * np.sin(x + a[2] * z), "gzz": 0.9 + 0.05 * z * z,
        "kxx": 0.1 * x, "kxy": 0.02 * y * a[3], "kxz": 0.01 * z, "kyy": -0.05 * x * y,
        "kyz": 0.02 * np.sin(z), "kzz": 0.03 * np.cos(a[4] * x),
        "alpha": 1 + 0.1 * np.cos(x + y), "dtalpha": 0.01 * np.sin(z),
        "betax": 0.05 * np.sin(a[5] * y), "betay": 0.02 * x, "betaz": 0.01 * np.cos(z),
        "dtbetax": 0.001 * x, "dtbetay": 0.002 * y, "dtbetaz": 0.001 * np.sin(x),
        "rho0": 1 + 0.1 * np.sin(x * z), "press": 0.1 + 0.01 * y * y, "eps": 0.2 + 0.01 * np.cos(z),
        "velx": 0.1 * np.sin(a[6] * z), "vely": 0.05 * x, "velz": 0.02 * y, "w_lorentz": 1.01 + 0.001 * x * x,
    }
    return {k: np.array(v, dtype=float) for k, v in inp.items()}


def make_fd(verbose=False):
    import aurel
    param = {"Nx": N, "Ny": N, "Nz": N, "xmin": -1.0, "ymin": -1.0, "zmin": -1.0,
             "dx": 0.25, "dy": 0.25, "dz": 0.25}
    return aurel.FiniteDifference(param, boundary="no boundary", fd_order=2, verbose=verbose)


def make_rel(cfg, fd, inp, reg):
    import aurel
    rel = aurel.AurelCore(fd, verbose=False, vacuum=cfg["vacuum"], tetrad=cfg["tetrad"], lmax=2,
                          Lambda=cfg["Lambda"], clear_cache_every_nbr_calc=cfg["clear"])
    data = dict(inp)
    if cfg["tensor_inputs"]:
        # hand some inputs over as tensors instead of components
        data["gammadown3"] = np.array([[inp["gxx"], inp["gxy"], inp["gxz"]], [inp["gxy"], inp["gyy"], inp["gyz"]],
                                       [inp["gxz"], inp["gyz"], inp["gzz"]]])
        data["betaup3"] = np.array([inp["betax"], inp["betay"], inp["betaz"]])
        for k in ("gxx", "gxy", "gxz", "gyy", "gyz", "gzz", "betax", "betay", "betaz"):
            del data[k]
    for k, v in data.items():
        rel.data[k] = v
    rel.freeze_data()
    reg.protect(data, "input")
    reg.protect([fd.x, fd.y, fd.z, fd.cartesian_coords, fd.r, fd.theta, fd.phi, fd.spherical_coords,
                 fd.xarray, fd.yarray, fd.zarray], "fd attribute")
    return rel


def description_keys():
    import aurel
    from aurel import core
    return [k for k in core.descriptions if hasattr(aurel.AurelCore, k)
            and getattr(aurel.AurelCore, k).__code__.co_argcount == 1]


HELPERS = [  # (name, [argument specs]); a spec names a key of rel (protected object) or a literal
    ("s_covd", ["alpha", ""]), ("s_covd", ["betaup3", "u"]), ("s_covd", ["betadown3", "d"]),
    ("s_covd", ["gammaup3", "uu"]), ("s_covd", ["Kdown3", "dd"]), ("s_covd", ["Kdown3", "ud"]),
    ("s_covd", ["Kdown3", "du"]),
    ("st_covd", ["alpha", "dtalpha", ""]), ("st_covd", ["uup4", "uup4", "u"]), ("st_covd", ["udown4", "udown4", "d"]),
    ("s_div", ["betaup3", "u"]), ("s_div", ["betadown3", "d"]), ("s_div", ["gammaup3", "uu"]),
    ("s_div", ["Kdown3", "ud"]), ("s_div", ["Kdown3", "du"]), ("s_div", ["Kdown3", "dd"]),
    ("s_curl", ["Kdown3", "dd"]),
    ("Lie_beta", ["alpha", ""]), ("Lie_beta", ["betaup3", "s_u"]), ("Lie_beta", ["betadown3", "s_d"]),
    ("Lie_beta", ["uup4", "st_u"]), ("Lie_beta", ["udown4", "st_d"]), ("Lie_beta", ["gammaup3", "s_uu"]),
    ("Lie_beta", ["Kdown3", "s_ud"]), ("Lie_beta", ["Kdown3", "s_du"]), ("Lie_beta", ["Kdown3", "s_dd"]),
    ("Lie_beta", ["gammadown3", "s_dd", ("kw", "weight", 0.5)]), ("Lie_beta", ["alpha", "", ("kw", "weight", 2)]),
    ("s_to_st", ["Kdown3"]), ("trace3", ["Kdown3"]), ("trace4", ["gdown4"]), ("tracefree3", ["Kdown3"]),
    ("magnitude3", ["Kdown3"]), ("magnitude4", ["gdown4"]), ("norm3", ["betaup3"]), ("norm4", ["uup4"]),
    ("vector_inner_product3", ["betaup3", "velup3"]), ("vector_inner_product4", ["uup4", "nup4"]),
    ("tetrad_base", []), ("null_vector_base", []), ("kronecker_delta3", []), ("kronecker_delta4", []),
    ("levicivita_down3", []), ("levicivita_down4", []), ("levicivita_symbol_down3", []),
    ("levicivita_symbol_down4", []), ("null_ray_expansion", ["alpha", ("kw", "direction", "in")]),
    ("null_ray_expansion", ["alpha"]),
    ("fd.d3x", ["alpha"]), ("fd.d3y", ["alpha"]), ("fd.d3z", ["alpha"]), ("fd.d3_scalar", ["alpha"]),
    ("fd.d3_rank1tensor", ["betaup3"]), ("fd.d3_rank2tensor", ["Kdown3"]), ("fd.d3x_rank2tensor", ["Kdown3"]),
    ("fd.d3_rank3tensor", ["s_Gamma_udd3"]), ("fd.cutoffmask", ["alpha"]), ("fd.cutoffmask2", ["alpha"]),
    ("fd.excision", ["alpha"]), ("fd.excision2", ["alpha"]),
    ("fd.cartesian_to_spherical", ["gxx", "gyy", "gzz"]), ("fd.spherical_to_cartesian", ["gxx", "gyy", "gzz"]),
    ("maths.getcomponents3", ["Kdown3"]), ("maths.getcomponents4", ["gdown4"]),
    ("maths.format_rank2_3", ["Kdown3"]), ("maths.format_rank2_4", ["gdown4"]),
    ("maths.determinant3", ["gammadown3"]), ("maths.determinant4", ["gdown4"]),
    ("maths.inverse3", ["gammadown3"]), ("maths.inverse4", ["gdown4"]),
    ("maths.symmetrise_tensor", ["Kdown3"]), ("maths.antisymmetrise_tensor", ["Kdown3"]),
    ("maths.safe_division", ["alpha", "gxx"]), ("maths.safe_division", ["Kdown3", "alpha"]),
    ("maths.sYlm_coefficients", [("lit", -2), ("lit", 2), "sphere", "sphere", "sphere", "sphere", ("lit", 0.1)]),
    ("maths.sYlm_reconstruct", [("lit", 0), ("lit", 1), "alm", "sphere", "sphere"]),
]


def resolve_arg(rel, spec, aux):
    if isinstance(spec, tuple) and spec[0] == "lit":
        return spec[1]
    if spec == "sphere":
        return aux["sphere"]
    if spec == "alm":
        return aux["alm"]
    if spec in ("", "u", "d", "uu", "dd", "ud", "du", "s_u", "s_d", "st_u", "st_d", "s_uu", "s_ud", "s_du", "s_dd"):
        return spec
    return rel[spec]


def do_request(rel, fd, req, aux):
    import aurel
    if req[0] == "key":
        return rel[req[1]]
    name, specs = req[1], req[2]
    args, kw = [], {}
    for s in specs:
        if isinstance(s, (tuple, list)) and s[0] == "kw":
            kw[s[1]] = s[2]
        else:
            args.append(resolve_arg(rel, tuple(s) if isinstance(s, list) else s, aux))
    if name.startswith("fd."):
        f = getattr(fd, name[3:])
    elif name.startswith("maths."):
        f = getattr(aurel.maths, name[6:])
    else:
        f = getattr(rel, name)
    return f(*args, **kw)


# ------------------------------------------------------- translation validation
class Watch:
    """sys.setprofile hook: compare every call of a translated function with its Lean summary"""

    def __init__(self, info, reg, containers=False):
        self.reg = reg
        self.containers = containers      # also watch list / dict arguments of the reading / time functions
        self.kwarg = {q: (len(ps) - 1 if ps and ps[-1] == "kwargs" else None) for q, ps in info["params"].items()}
        self.rows = {r["name"]: r for r in info["rows"]}
        self.params = info["params"]
        self.code2q = {}
        for q, (mod, line) in info["lines"].items():
            if mod in MODFILE and line:
                self.code2q[(MODFILE[mod], line)] = q
        self.stack = []
        self.problems = []
        self.calls = 0
        self.container_changes = 0
        self.src = os.path.join(fw.SRC, "")

    def lookup(self, code):
        fn = code.co_filename
        if not fn.startswith(self.src):
            return None
        return self.code2q.get((os.path.basename(fn), code.co_firstlineno))

    def __call__(self, frame, event, arg):
        if event == "call":
            q = self.lookup(frame.f_code)
            if q is None:
                self.stack.append(None)
                return
            rec = {"q": q, "args": []}
            loc = frame.f_locals
            for i, p in enumerate(self.params[q]):
                roots = {}
                if p in loc:
                    for a in arrays_in(loc[p], 2):
                        r = root_of(a)
                        roots[id(r)] = (r, sha(r))
                rec["args"].append(roots)
            if self.containers and q.split(".")[0] in aliasir.CONTAINER_CLAIM_MODULES:
                # list / dict arguments: (object, snapshot); for **kwargs (a dict Python builds per call) its values
                rec["cont"] = []
                for i, p in enumerate(self.params[q]):
                    o = loc.get(p)
                    if i == self.kwarg.get(q) and isinstance(o, dict):
                        rec["cont"].append([(v, snapshot(v)) for v in o.values() if isinstance(v, (list, dict))])
                    elif isinstance(o, (list, dict)):
                        rec["cont"].append([(o, snapshot(o))])
                    else:
                        rec["cont"].append([])
            self.stack.append(rec)
            self.calls += 1
        elif event == "return":
            if not self.stack:
                return
            rec = self.stack.pop()
            if rec is None:
                return
            q = rec["q"]
            sm = self.rows.get(q)
            if sm is None:
                return
            for i, roots in enumerate(rec["args"]):
                for rid, (r, h) in roots.items():
                    if sha(r) != h:
                        allowed = {2 * i + 1, 2 * i + 2} & set(sm["mutA"])
                        self.problems.append({"kind": "mutated-argument", "function": q, "param": self.params[q][i],
                                              "allowed_by_summary": bool(allowed),
                                              "protected": rid in self.reg.roots})
            for i, objs in enumerate(rec.get("cont", [])):
                for o, snap in objs:
                    if snapshot(o) != snap:
                        allowed = ({2 * i + 1, 2 * i + 2} & set(sm["mutC"])) or (0 in sm["mutC"])
                        self.problems.append({"kind": "mutated-container-argument", "function": q,
                                              "param": self.params[q][i], "allowed_by_summary": bool(allowed)})
                        self.container_changes += 1
            if arg is not None:
                claim = set(sm["retOwn"]) | set(sm["retReach"])
                for a in arrays_in(arg, 2):
                    rid = id(root_of(a))
                    hit = [i for i, roots in enumerate(rec["args"]) if rid in roots]
                    if hit:
                        if 0 not in claim and not any({2 * i + 1, 2 * i + 2} & claim for i in hit):
                            self.problems.append({"kind": "result-aliases-argument", "function": q,
                                                  "param": self.params[q][hit[0]], "summary_ret": sorted(claim)})
                    elif rid in self.reg.roots and not claim:
                        self.problems.append({"kind": "result-aliases-protected", "function": q,
                                              "label": self.reg.roots[rid][2], "summary_ret": sorted(claim)})


# ------------------------------------------------------------------ histories
def gen_history(rng, keys, n):
    hist = []
    for _ in range(n):
        if rng.random() < 0.72:
            hist.append(["key", rng.choice(keys)])
        else:
            nm, specs = rng.choice(HELPERS)
            hist.append(["helper", nm, [list(s) if isinstance(s, tuple) else s for s in specs]])
    return hist


FORCED = [  # cache states the property text names
    [["key", "st_Riemann_down4"], ["key", "st_Weyl_down4"], ["key", "st_Riemann_down4"], ["key", "Weyl_Psi"]],
    [["key", "st_Weyl_down4"], ["key", "st_Riemann_down4"], ["key", "st_Weyl_down4"]],
    [["key", "Tdown4"], ["key", "st_Ricci_down4"], ["key", "st_Ricci_down3"], ["key", "Ttrace"]],
    [["key", "gdown4"], ["key", "gtt"], ["key", "gtx"], ["key", "gdet"], ["key", "Momentumx"], ["key", "Momentumup3"]],
    [["key", "dts_Gamma_bssnok"], ["key", "s_Ricci_down3_bssnok"], ["key", "dtAdown3_bssnok"], ["key", "Psi4_lm"]],
]


def run_history(ctx, cfg, hist, info=None, watch=False, done=None):
    """returns list of findings (dicts); each finding is a mutation of a protected array.
    done: set collecting the description keys whose request returned a value"""
    rng = random.Random(cfg["seed"])
    reg = Registry()
    fd = make_fd()
    inp = make_inputs(rng, fd)
    rel = make_rel(cfg, fd, inp, reg)
    th = np.linspace(0.1, 3.0, 6)[:, None] * np.ones((6, 8))
    aux = {"sphere": th, "alm": {(l, m): 0.5 + 0.1j for l in range(2) for m in range(-l, l + 1)}}
    reg.protect(aux, "helper input")
    findings = []
    w = Watch(info, reg) if (watch and info) else None
    for idx, req in enumerate(hist):
        err = None
        try:
            if w:
                sys.setprofile(w)
            try:
                out = do_request(rel, fd, req, aux)
            finally:
                if w:
                    sys.setprofile(None)
        except ValueError as ex:
            out = None
            if "read-only" in str(ex):
                tb = traceback.extract_tb(ex.__traceback__)
                site = [f for f in tb if f.filename.startswith(fw.SRC)]
                s = site[-1] if site else tb[-1]
                findings.append({"request": idx, "req": req, "how": "write into a protected (read-only) array",
                                 "site": "%s:%s" % (os.path.basename(s.filename), s.name), "line": s.lineno})
            else:
                err = ex
        except Exception as ex:  # noqa  (a request that fails for other reasons is not C02's business)
            out, err = None, ex
        if err is not None:
            ctx.count("requests_raising_other_errors")
        elif done is not None and req[0] == "key":
            done.add(req[1])
        for lab in reg.changed():
            findings.append({"request": idx, "req": req, "how": "contents of a protected array changed",
                             "site": "hash:" + lab, "line": 0})
        reg.protect(out, "returned by request %d" % idx)
        reg.protect(list(rel.data.values()), "rel.data after request %d" % idx)
        ctx.count("requests")
    problems = w.problems if w else []
    calls = w.calls if w else 0
    return findings, problems, calls


# ---------------------------------------------------- argument objects (time / reading)
def snapshot(obj):
    """structure with element identities and array hashes"""
    if isinstance(obj, np.ndarray):
        return ("arr", sha(obj))
    if isinstance(obj, list):
        return ("list", [id(e) for e in obj], [snapshot(e) for e in obj])
    if isinstance(obj, tuple):
        return ("tuple", [snapshot(e) for e in obj])
    if isinstance(obj, dict):
        return ("dict", [(k, id(v)) for k, v in obj.items()], [snapshot(v) for v in obj.values()])
    return ("val", repr(obj))


def arg_objects_checks(ctx, rng, findings, info=None):
    """over_time, process_single_timestep, save_data, read_data, read_aurel_data, transform_vars_*, join_chunks ...
    Every call: the argument objects are deep-compared (identity of the elements of lists / dicts, contents, SHA-1 of
    arrays) before and after, once with every argument array read-only (a write raises inside numpy) and - for the
    time-series driver - once writable (a library that only writes when it is allowed to is caught by the hash).
    With `info`, a profile hook compares every call of a reading / time function with its Lean summary (arrays AND
    list / dict arguments).  Returns the hook's problems."""
    import aurel
    from aurel import reading, time as atime
    fd = make_fd()
    tmp = tempfile.mkdtemp(prefix="c02_", dir="/tmp")
    import contextlib
    import io
    watch = Watch(info, Registry(), containers=True) if info else None

    def check(name, args, kwargs, call, expect_changed=(), readonly=True):
        before = [snapshot(a) for a in args] + [snapshot(v) for v in kwargs.values()]
        reg = Registry()
        if readonly:
            reg.protect(list(args) + list(kwargs.values()), "argument of " + name)
        try:
            with contextlib.redirect_stdout(io.StringIO()):
                if watch:
                    sys.setprofile(watch)
                try:
                    call()
                finally:
                    if watch:
                        sys.setprofile(None)
        except ValueError as ex:
            if "read-only" in str(ex):
                tb = traceback.extract_tb(ex.__traceback__)
                site = [f for f in tb if f.filename.startswith(fw.SRC)]
                s = site[-1] if site else tb[-1]
                findings.append({"req": [name], "how": "write into a read-only argument array",
                                 "site": "%s:%s" % (os.path.basename(s.filename), s.name), "line": s.lineno})
            else:
                ctx.count("arg_checks_raising_other_errors")
                ctx.cov.setdefault("arg_check_errors", []).append("%s: %s" % (name, str(ex)[:80]))
        except Exception as ex:  # noqa
            ctx.count("arg_checks_raising_other_errors")
            ctx.cov.setdefault("arg_check_errors", []).append("%s: %r" % (name, ex))
        after = [snapshot(a) for a in args] + [snapshot(v) for v in kwargs.values()]
        names = ["arg%d" % i for i in range(len(args))] + list(kwargs)
        for nm, b, a in zip(names, before, after):
            if b != a and nm not in expect_changed:
                findings.append({"req": [name], "how": "argument object %s modified" % nm,
                                 "site": name.split("[")[0] + ":" + nm, "line": 0})
        for lab in reg.changed():
            findings.append({"req": [name], "how": "argument array changed", "site": "hash:" + name.split("[")[0],
                             "line": 0})
        ctx.count("argument_object_checks")

    try:
        inp = make_inputs(rng, fd)
        nt = 3

        def series(layout):
            """the caller's time series: spatially non-uniform C-contiguous 3-d arrays per time step, as a list of
            arrays per key or as one stacked (nt, N, N, N) array per key"""
            d = {"it": np.arange(nt), "t": np.arange(nt) * 0.1}
            for k, v in inp.items():
                steps = [np.ascontiguousarray(v * (1 + 0.1 * i) + 0.01 * i * fd.x) for i in range(nt)]
                d[k] = steps if layout == "list" else np.array(steps)
            return d
        data = series("list")
        for vacuum in (False, True):
            vars_ = ["Ktrace", "st_Weyl_down4", "Hamiltonian", {"mine": lambda rel: rel["alpha"] * 2}]
            est = ["max", "mean", {"mymin": np.min}]
            kw = {"vars": vars_, "estimates": est, "verbose": False, "vacuum": vacuum}
            check("over_time", [data, fd], kw, lambda: atime.over_time(data, fd, **kw))
        # --- over_time with EVERY built-in estimator and custom ones, both layouts, read-only and writable arrays;
        #     then again on the dict it returned: what was handed out earlier must stay as it was
        all_est = list(atime.est_functions.keys())
        ctx.cov["est_functions_exercised"] = len(all_est)
        custom_est = [{"p10": lambda a: np.percentile(a, 10), "corner": lambda a: a[0, 0, 0]},
                      {"spread": lambda a: float(np.max(a) - np.min(a))}]
        custom_vars = [{"twice_alpha": lambda rel: rel["alpha"] * 2,
                        "gxx_view": lambda rel: rel["gammadown3"][0, 0]}]      # a view of a cached array
        for layout in ("list", "stacked"):
            for readonly in (True, False):
                d = series(layout)
                half = all_est[::2]
                kw = {"vars": ["Ktrace", "s_RicciS"] + custom_vars, "estimates": half + custom_est[:1],
                      "verbose": False, "Lambda": 0.1}
                name = "over_time[%s,%s]" % (layout, "read-only" if readonly else "writable")

                def twice(d=d, kw=kw, readonly=readonly, name=name):
                    res1 = atime.over_time(d, fd, **kw)
                    held = Registry()
                    if readonly:
                        held.protect(res1, "returned by the first over_time call")
                    snap1 = snapshot(res1)
                    res2 = atime.over_time(res1, fd, vars=[], estimates=all_est + custom_est, verbose=False)
                    if snapshot(res1) != snap1 or held.changed():
                        findings.append({"req": [name], "how": "an array returned by an earlier over_time call changed "
                                         "during a later call", "site": "over_time:returned-earlier", "line": 0})
                    missing = [k + "_" + e for k in ("Ktrace", "alpha") for e in all_est if k + "_" + e not in res2]
                    if missing:
                        ctx.cov.setdefault("over_time_missing_estimates", []).extend(missing[:5])
                    ctx.count("over_time_estimator_applications", len(all_est) + 3)
                check(name, [d, fd], kw, twice, readonly=readonly)
        step = {k: (v[0] if isinstance(v, list) else v[0]) for k, v in data.items()}
        v1, e1 = ["Ktrace", "s_RicciS"], ["max"]
        check("process_single_timestep", [step, fd, v1, e1], {},
              lambda: atime.process_single_timestep(step, fd, v1, e1, False, None, {}),
              expect_changed=("arg0",))      # documented: adds the computed variables to its dict
        for readonly in (True, False):
            step2 = {k: v[1] for k, v in series("list").items()}
            v2, e2, sk, rk = ["Ktrace"] + custom_vars, all_est + custom_est, None, {"Lambda": 0.2}
            check("process_single_timestep[all estimators]", [step2, fd, v2, e2, rk], {},
                  lambda: atime.process_single_timestep(step2, fd, v2, e2, False, sk, rk),
                  expect_changed=("arg0",), readonly=readonly)
        # save / read (Aurel format)
        param = {"datapath": os.path.join(tmp, "run1")}
        sdata = {"it": [0, 10, 20], "t": [0.0, 0.1, 0.2], "rho": [inp["rho0"], inp["rho0"] * 2, inp["rho0"] * 3],
                 "alpha": [inp["alpha"], inp["alpha"], inp["alpha"]]}
        for vs, its in ((["rho"], [0, 20]), ([], [10]), (["rho", "alpha", "t"], [0, 10, 20])):
            kw = {"vars": vs, "it": its}
            check("save_data", [param, sdata], kw, lambda: reading.save_data(param, sdata, **kw))
        for vs, its in ((["rho"], [0, 20]), ([], [10, 30]), (["alpha", "rho"], [20, 0, 0])):
            kw = {"vars": vs, "it": its}
            check("read_data", [param], kw, lambda: reading.read_data(param, **kw))
            check("read_aurel_data", [param], kw, lambda: reading.read_aurel_data(param, **kw))
        # read_data / read_ET_data on generated Einstein Toolkit directories (lib/etgen.py, the generator of C11):
        # all four file layouts, several restarts, with and without the per-iteration cache, checkpoints, an
        # explicit restart; the caller's `it` / `vars` lists and `param` dict are deep-compared and the profile hook
        # validates the summaries of read_ET_data, read_ET_variables, read_ET_group_or_var, read_ET_checkpoints,
        # join_chunks, iterations ... on what really happens
        try:
            from lib import etgen
            root = os.path.join(tmp, "et") + "/"
            os.makedirs(root)
            for k in range(ctx.budget(4, 12)):
                desc = etgen.random_desc(rng, "c02sim%d" % k, per_proc=bool(k & 1), grouped=bool(k & 2), nlevels=1,
                                         nmax=5, kmax=(2, 2, 2))
                if k % 2 == 0:
                    etgen.add_random_checkpoints(rng, desc)
                sim = etgen.Sim(root, desc).write()
                try:
                    eparam = sim.param()
                    pool = sorted(sim.all_its())
                    for split in (False, True, True):
                        its = rng.sample(pool, rng.randint(1, len(pool)))
                        its = its + [its[0]]                                   # duplicates, unsorted
                        names = list(desc["requests"])
                        ekw = {"it": its, "vars": names, "rl": 0, "restart": -1, "split_per_it": split,
                               "verbose": False, "skip_last": False}
                        check("read_data[ET]", [eparam], ekw, lambda: reading.read_data(eparam, **ekw))
                        ctx.count("read_data_ET_calls")
                    r0 = sim.restart_numbers()[0]
                    ekw = {"it": list(sim.its_of(r0)), "vars": [], "restart": r0, "split_per_it": False, "verbose": False,
                           "skip_last": False}
                    check("read_data[ET]", [eparam], ekw, lambda: reading.read_data(eparam, **ekw))
                    ck = sim.checkpoint_its(r0)
                    if ck:
                        ekw = {"it": list(ck), "vars": list(desc["requests"]), "usecheckpoints": True, "verbose": False,
                               "skip_last": False}
                        check("read_data[ET]", [eparam], ekw, lambda: reading.read_data(eparam, **ekw))
                        ctx.count("read_data_ET_checkpoint_calls")
                finally:
                    sim.remove()
        except ImportError:
            pass
        for fn, arg in ((reading.transform_vars_tensor_to_scalar, ["gammadown3", "alpha", "Kdown3"]),
                        (reading.transform_vars_aurel_to_ET, ["gammadown3", "alpha", "rho0"]),
                        (reading.transform_vars_ET_to_aurel, "gxx")):
            check(fn.__name__, [arg], {}, lambda: fn(arg))
        # the module tables the transform_* helpers read must stay what the YAML file says
        tables = [reading.aurel_tensor_to_scalar, reading.aurel_to_ET_varnames, reading.ET_to_aurel_varnames,
                  reading.known_groups]
        check("transform_vars (module tables)", tables, {},
              lambda: [reading.transform_vars_tensor_to_scalar(["gammadown3", "Kdown3", "x"]),
                       reading.transform_vars_aurel_to_ET(["gammadown3", "x"]),
                       reading.transform_vars_ET_to_aurel_groups(["gxx", "gxy", "gxz", "gyy", "gyz", "gzz", "alp"])])
        # the two direct-call findings
        vs = list(reading.aurel_to_ET_varnames[next(iter(reading.aurel_to_ET_varnames))]) + ["alp"]
        check("transform_vars_ET_to_aurel_groups", [vs], {}, lambda: reading.transform_vars_ET_to_aurel_groups(vs))
        # join_chunks: 1, 2, 4 and 8 chunks keyed by their origins
        for nchunk in (1, 2, 4, 8):
            cut = {}
            for c in range(nchunk):
                org = ((c & 1) * 3, ((c >> 1) & 1) * 3, ((c >> 2) & 1) * 3)
                cut[org] = np.ascontiguousarray(rng.random() + np.arange(27.0).reshape(3, 3, 3) * (c + 1))
            jkw = {"veryextraverbose": False}
            check("join_chunks[%d]" % nchunk, [cut], jkw, lambda: reading.join_chunks(cut, **jkw))
        try:
            import h5py
            fn = os.path.join(tmp, "admbase-metric.h5")
            with h5py.File(fn, "w") as f:
                for thorn in ("ADMBASE", "OTHER"):
                    d = f.create_dataset("%s::gxx it=0 tl=0 rl=0" % thorn, data=np.ones((4, 4, 4)))
                    d.attrs["cctk_nghostzones"] = [1, 1, 1]
                    d.attrs["iorigin"] = [0, 0, 0]
                    d.attrs["time"] = 0.0
            variables, files = ["gxx"], [fn]
            check("read_ET_group_or_var", [variables, files, "in file"], {"it": [0]},
                  lambda: reading.read_ET_group_or_var(variables, files, "in file", it=[0]))
        except ImportError:
            pass
    finally:
        shutil.rmtree(tmp, ignore_errors=True)
    if watch:
        ctx.cov["tv_calls_watched_reading_time"] = watch.calls
        ctx.cov["tv_container_changes_seen"] = watch.container_changes
        return watch.problems
    return []


# ------------------------------------------------------- static diagnostics
def defeating_statements(info, q):
    """why function q fails `fnOK`: the atoms of its summary that its flags forbid, each with the source lines
    (statement / call) that put it there (replay of the analysis by tools/py2lean/aliasdiag.py)"""
    rows = {r["name"]: r for r in info["rows"]}
    pub, cpub, strict = info["flags"][q]
    mod, _ = info["lines"][q]
    try:
        s, blame = aliasdiag.explain(q, info["diag"]["irs"][q], rows, info["diag"]["keyfn_name"])
    except Exception as ex:  # noqa
        return ["(diagnostics failed: %r)" % ex]
    out = []
    for kind in ("mutA", "mutC"):
        for a in s[kind]:
            bad = (kind == "mutA" and (a == 0 or pub)) or (
                kind == "mutC" and ((strict and a % 2 == 0) or (cpub and a % 2 == 1)))
            if not bad:
                continue
            sites = blame.get((kind, a), [])
            out.append("%s: %s changed in place (%s) by %s" % (
                q, aliasdiag.atom_name(a, info["params"][q]), "array contents" if kind == "mutA" else "any kind",
                "; ".join("%s.py:%s %s" % (MODFILE.get(mod, mod)[:-3], l, w) for l, w in sites[:6]) or "?"))
    return out


def static_section(ctx, info):
    """obligations about what the static half establishes for the functions the property names"""
    rows = {r["name"]: r for r in info["rows"]}
    bad = [r["name"] for r in info["rows"] if not r["fnOK"]]
    detail = []
    for q in bad[:8]:
        detail += defeating_statements(info, q)[:6]
    ctx.obligation("analysis (Driver/C02.lean): every function of the generated IR passes the alias check",
                   bool(info["check"]) and not bad,
                   ("failing: %s | " % bad[:12]) + " || ".join(detail)[:3000] if bad else "all %d pass" % len(rows),
                   kind="translation")
    # the container-level claim: which of the named functions carry it, and with which flags
    named = {}
    for q in aliasir.NAMED_FUNCTIONS:
        pub, cpub, strict = info["flags"][q]
        named[q] = {"pub": pub, "cpub": cpub, "strict": strict, "mutC": rows[q]["mutC"], "mutA": rows[q]["mutA"]}
    ctx.cov["container_claim"] = named
    lacking = [q for q, f in named.items() if not (f["strict"] and (f["cpub"] or q in aliasir.CPUB_EXEMPT))]
    ctx.obligation("container-level claim carried statically (flags strict+cpub) by every function the property names "
                   "(process_single_timestep: strict, its documented `data` argument exempt)",
                   not lacking, "without the claim: %s" % lacking, kind="translation")
    # the Python replay used for diagnostics agrees with the Lean driver on the named functions
    diff = []
    for q in aliasir.NAMED_FUNCTIONS:
        s, _ = aliasdiag.explain(q, info["diag"]["irs"][q], rows, info["diag"]["keyfn_name"])
        if any(set(s[k]) != set(rows[q][k]) for k in ("mutA", "mutC", "retOwn", "retReach", "esc")):
            diff.append(q)
    ctx.cov["diagnostic_replay_disagrees_with_lean"] = diff


# ----------------------------------------------------------------------- run
def fingerprint(f):
    return {"site": f["site"]}


def report(ctx, findings, replay_extra):
    seen = set()
    n = 0
    for f in findings:
        key = (f["site"], f["how"])
        if key in seen:
            continue
        seen.add(key)
        n += bool(ctx.violation("%s at %s (request %s)" % (f["how"], f["site"], f.get("req")),
                                dict(kind="history", finding=f, **replay_extra), fingerprint(f)))
    return n


def dynamic(ctx, info, nhist, nreq, watch_hist):
    keys = description_keys()
    ctx.cov["description_keys"] = len(keys)
    ctx.cov["helper_patterns"] = len(HELPERS)
    rng = ctx.rng
    total, tv_problems, tv_calls = 0, [], 0
    hists = [list(h) for h in FORCED] + [None] * nhist
    for hi, h in enumerate(hists):
        cfg = {"seed": rng.randrange(10 ** 9), "vacuum": rng.random() < 0.5,
               "tetrad": rng.choice(["quasi-Kinnersley", "arbitrary"]), "Lambda": rng.choice([0.0, 0.3]),
               "clear": rng.choice([5, 20, 1000]), "tensor_inputs": rng.random() < 0.4}
        if h is None:
            h = gen_history(rng, keys, nreq)
        variants = [cfg] if hi >= len(FORCED) else [dict(cfg, vacuum=False), dict(cfg, vacuum=True)]
        for c in variants:
            findings, problems, calls = run_history(ctx, c, h, info, watch=(hi < watch_hist))
            tv_problems += problems
            tv_calls += calls
            ctx.count("histories")
            if findings:
                total += report(ctx, findings, {"cfg": c, "history": h[:max(f["request"] for f in findings) + 1]})
    # every description key at least once, computed (non-vacuum, non-zero shift, matter) and then served from the
    # cache, with and without evictions, inputs as components and as tensors
    done = set()
    for c in (dict(seed=rng.randrange(10 ** 9), vacuum=False, tetrad="quasi-Kinnersley", Lambda=0.3, clear=1000,
                   tensor_inputs=False),
              dict(seed=rng.randrange(10 ** 9), vacuum=False, tetrad="arbitrary", Lambda=0.0, clear=7,
                   tensor_inputs=True)):
        order = list(keys)
        rng.shuffle(order)
        h = [["key", k] for k in order] + [["key", k] for k in reversed(order)]
        findings, problems, calls = run_history(ctx, c, h, info, watch=False, done=done)
        ctx.count("histories")
        if findings:
            total += report(ctx, findings, {"cfg": c, "history": h[:max(f["request"] for f in findings) + 1]})
    ctx.cov["description_keys_computed_in_sweep"] = len(done)
    ctx.cov["description_keys_never_computed"] = sorted(set(keys) - done)
    findings = []
    tv_problems += arg_objects_checks(ctx, rng, findings, info)
    total += report(ctx, findings, {"cfg": None, "history": "arg_objects_checks"})
    ctx.cov["tv_calls_watched"] = tv_calls
    return total, tv_problems


def run(ctx):
    ctx.trusted += [
        "Lean 4.33 kernel; axioms propext, Classical.choice, Quot.sound",
        "py2lean/aliasir.py (AST -> alias IR: numpy fresh/view/in-place tables checked against numpy's own signatures for "
        "positional `out` / `overwrite_input`, kind inference, call resolution, element variables of simple local "
        "containers, `del p` renaming); validated on every run by the profile hook that compares each observed call "
        "with the Lean summary of its function, and by the construct tests (real run vs IR vs kernel-decided check)",
        "Model/Heap.lean: roots / versions / absorb semantics as an over-approximation of Python object graphs",
        "numpy: views share memory with their base, everything else the table calls fresh allocates",
    ]
    ctx.assumptions += [
        "A1: callers pass the parameter types the docstrings declare (str/int/list/dict), also for the documented "
        "entries of **kwargs (it: list of int, vars: list of str, restart/rl: int ...)",
        "A2: an entry of rel.data under a description key has the type the key's method returns",
        "A3: user callbacks (custom vars / estimates; numerical.dichotomy's function) do not modify their arguments",
        "A4: AurelCore.data is the cache of the model and last_accessed / var_importance its bookkeeping: inserting or "
        "evicting an entry is not an in-place change of a pre-existing heap object (side conditions - created in "
        "__init__, hold numbers only, never escape - are checked by the translator on every run)",
        "objects the IR does not see (numpy internals, h5py buffers, file handles) are not modelled",
    ]
    info = None
    try:
        changed, info = aliasir.regen()
        ctx.obligation("py2lean:aliasir", True, "regenerated (changed=%s): %d functions, %d statements; callbacks %s"
                       % (changed, info["functions"], info["statements"], info["callback_sites"]), kind="translation")
        static_section(ctx, info)
        ctx.cov["simple_local_containers"] = sum(len(v) for v in info["simple_locals"].values())
        ctx.cov["ir_functions"] = info["functions"]
        ctx.cov["ir_statements"] = info["statements"]
        ctx.cov["exemptions"] = {k: sorted(v) for k, v in info["exempt"].items()}
        ctx.sample({"summary_of": "core.AurelCore.st_Weyl_down4",
                    "summary": next((r for r in info["rows"] if r["name"] == "core.AurelCore.st_Weyl_down4"), None)})
        ctx.sample({"summary_of": "fd.FiniteDifference.cutoffmask",
                    "summary": next((r for r in info["rows"] if r["name"] == "fd.FiniteDifference.cutoffmask"), None)})
    except aliasir.TranslationError as ex:
        ctx.obligation("py2lean:aliasir", False, "translation refused: %s" % ex, kind="translation")
    except Exception as ex:  # noqa
        ctx.obligation("py2lean:aliasir", False, "translator crashed: %r" % ex, kind="translation")
    if info is not None:
        ctx.prove(MODULE_CORE, THEOREMS_CORE, timeout=2400)
        n0 = len(ctx.obligs)
        ctx.prove(MODULE, THEOREMS, timeout=2400)
        # a failing chunk names the functions of the source that no longer pass
        bad = [r["name"] for r in info["rows"] if not r["fnOK"]]
        for o in ctx.obligs[n0:]:
            if not o["ok"] and bad:
                o["detail"] = ("kernel: checkWith program summaries = false; functions failing the alias check: %s | "
                               % bad[:12]) + o["detail"][:600]
        # container-level claims per function (kernel: the summaries of the named functions have mutC = [] / [1])
        n1 = len(ctx.obligs)
        ctx.prove(MODULE_CONT, THEOREMS_CONT, timeout=2400)
        for o in ctx.obligs[n1:]:
            if not o["ok"]:
                why = []
                for q in aliasir.NAMED_FUNCTIONS:
                    r = next((r for r in info["rows"] if r["name"] == q), None)
                    allowed = [1] if q == "time.process_single_timestep" else []
                    if r and sorted(r["mutC"]) != allowed:
                        info["flags"][q] = (True, True, True)
                        why += defeating_statements(info, q)[:4]
                o["detail"] = ("summary of a named function is not `changes nothing in place`: %s | "
                               % " || ".join(why)[:2500]) + o["detail"][:400]
        # construct tests: real run vs IR (Python port of the concrete semantics) vs kernel-decided check
        try:
            res = alias_constructs.run()
            ctx.cov["constructs"] = res["counts"]
            ctx.obligation("construct tests: every way of changing / aliasing an argument (augmented assignment, out=, "
                           "positional out, overwrite_input=, in-place methods, views, list / dict mutators, nested "
                           "containers ...) is run for real and its IR reproduces the change; unclassified constructs "
                           "are refused", not res["problems"] and not res["refused_bad"],
                           "; ".join(res["problems"][:6] + ["NOT refused: %s" % n for n in res["refused_bad"]]),
                           kind="translation")
            ctx.prove(MODULE_CONS, THEOREMS_CONS, timeout=1200)
        except Exception as ex:  # noqa
            ctx.obligation("construct tests", False, "crashed: %r" % ex, kind="translation")
        ctx.forbidden_scan(LEAN_FILES)
        if ctx.tier == "thorough":
            ctx.leanchecker([MODULE, MODULE_CONT, MODULE_CONS])
    # dynamic monitor: search oracle (always) + translation validation
    broken = bool(ctx.broken())
    nhist = ctx.budget(150, 1500) * (3 if broken else 1)
    found, tv = dynamic(ctx, info, nhist, ctx.budget(30, 40), watch_hist=ctx.budget(10, 60) if info else 0)
    if info is not None:
        bad = [p for p in tv if not (p["kind"] in ("mutated-argument", "mutated-container-argument")
                                     and p["allowed_by_summary"])]
        ctx.obligation("translation validation: every observed call agrees with the Lean summary of its function "
                       "(%d calls watched)" % ctx.cov.get("tv_calls_watched", 0),
                       not bad, "; ".join(str(p) for p in bad[:5]), kind="correspondence")
    ctx.cov["violations_found_by_monitor"] = found


def replay(ctx, obj):
    f = obj.get("finding", {})
    if obj.get("history") == "arg_objects_checks" or not obj.get("cfg"):
        findings = []
        arg_objects_checks(ctx, random.Random(obj.get("seed", 0)), findings)
    else:
        findings, _, _ = run_history(ctx, obj["cfg"], obj["history"])
    same = [g for g in findings if g["site"] == f.get("site")]
    print("replay: %d finding(s) now, %d at the recorded site %s" % (len(findings), len(same), f.get("site")))
    for g in same[:3]:
        print("  ", g)
    return 1 if same else 0


MANIFEST = {
    "category": "proof",
    "technique": "Lean 4: soundness theorem for a summary-based may-alias / taint analysis over an alias IR "
                 "(induction on call depth and statements, checked post-fixpoints for loops and recursion); the IR "
                 "of every function is regenerated from the ASTs and the kernel decides that it passes; per-function "
                 "container claims read off the kernel-checked summaries; construct tests (real run vs IR vs "
                 "kernel-decided check) for every way of changing or aliasing an argument; dynamic read-only/SHA-1 "
                 "monitor on the real code as search oracle and per-call translation validation",
    "text": "Proof for every alias-IR program, initial heap, argument list, branch/loop oracle and request history: "
            "if the may-alias check accepts the program, a request by a public function never changes the contents "
            "of an array that existed before it (inputs, cache entries, everything returned earlier), and what it "
            "returns is such an unmodified object or was allocated during the request; whatever ANY function changes "
            "in place is covered by an atom of its summary (T1s). For the code as it is now the kernel checks the "
            "summaries of all 297 functions of core, maths, finitedifference, numerical, time and reading "
            "(regenerated from the source on every run) and, from them: read_data, read_ET_data, read_aurel_data, "
            "save_data, join_chunks, read_ET_group_or_var, read_ET_variables, read_ET_checkpoints, the four "
            "transform_vars helpers and over_time change nothing that existed before the call - not the caller's "
            "it/vars lists, param dict, data dict of lists, per-time-step arrays, module tables; "
            "process_single_timestep changes only the dict passed as `data` (documented). ~165 constructs "
            "(augmented assignment, out=, positional out, overwrite_input=, in-place methods, views, list/dict "
            "mutators, nested containers) are run for real, their IR reproduces the change, and the kernel decides "
            "that the check rejects every mutating one and accepts its non-mutating twin. A profile hook validates "
            "the IR against every observed call (arrays and list/dict arguments).",
    "note": "Trusted: Lean kernel (+propext/Classical.choice/Quot.sound); the AST->IR translator (numpy "
            "fresh/view/in-place tables checked against numpy's signatures, kind inference, element variables of "
            "simple local containers; validated per call and by the construct tests on every run); the heap model as "
            "an over-approximation of Python object graphs. Assumptions: A1 documented parameter and keyword-entry "
            "types; A2 cache entries have the type their method returns; A3 user callbacks are pure "
            "(call sites time.py:381/429/435/483/559, numerical.py:39/45/50); A4 AurelCore.data / last_accessed / "
            "var_importance are the cache and its bookkeeping, not heap objects (side conditions checked). Not "
            "covered statically: collect_overall_iterations and saveprint update their argument by design; mutation "
            "through objects the IR does not see (numpy internals, h5py). Translator gaps found and closed in this "
            "round: einsum(out=) and positional out were ignored, overwrite_input=, np.flip and x.conj() (views) were "
            "classified as fresh, list.sort(x) through the type, impure entries of function tables.",
}
