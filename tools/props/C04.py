"""C04 — spacetime (4-D) connection and curvature from 3+1 data match their definitions.

Proof part: Props/C04.lean (+ Lemmas/C04*.lean, Spec/Curvature.lean) about the
definitions regenerated from the current core.py / maths.py on every run.

Failing-input search (independent of model and code): a symbolic 4-metric
g_{mu nu}(t,x,y,z) is differentiated exactly with sympy (first and second
derivatives), the textbook 4-D Christoffel symbols, Riemann tensor (all index
positions), Ricci tensor and scalar, Einstein tensor and Kretschmann scalar are
evaluated from those derivatives with numpy.linalg; lapse, shift, spatial metric,
K_ij = -(1/2 alpha)(d_t gamma_ij - D_i beta_j - D_j beta_i), d_t alpha, d_t beta^i
are derived from the same exact derivatives and given to the REAL AurelCore at
t = t0 on two resolutions.  Required: error small AND error ratio ~ 2^p at the
points common to both grids (interior: two stencil widths away from the faces).
Metrics: random 3+1 data (non-unit time-dependent lapse, non-zero shift, non-diagonal
metric; non-vacuum, T := (G + Lambda g)/kappa supplied as Tdown4), Kasner in wavy
coordinates and Kerr-Schild Schwarzschild (vacuum = True), and (thorough) a metric
without any shift key (zero-shift shortcut of s_to_st).
"""
import numpy as np

from lib import corecheck, fw

MODULE = "AurelVerif.Props.C04"
THEOREMS = ["AurelVerif.C04." + t for t in (
    "populate_table", "populate_blocks", "populate_sym",
    "st_Riemann_down4_betaup3_matter_spec", "st_Riemann_down4_dflt_matter_spec",
    "st_Riemann_down4_betaup3_vacuum_spec", "st_Riemann_down4_dflt_vacuum_spec",
    "s_covd_dd_spec", "s_to_st_spec", "KK4_is_KK3", "KK4_is_KK3_noshift", "gup4_3p1", "st_Riemann_down4_sym",
    "st_Riemann_uddd4_spec", "st_Riemann_uudd4_spec", "Kretschmann_spec",
    "st_Ricci_down4_dflt_spec", "st_Ricci_down4_Tdown4_spec", "st_Ricci_down3_dflt_spec", "st_Ricci_down3_cached_spec",
    "st_RicciS_spec", "Einsteindown4_spec", "st_Ricci_down3_coherent",
    "st_Ricci_down4_dflt_symm", "st_Ricci_down4_Tdown4_symm", "Einsteindown4_symm",
    "st_Gamma_udd4_spec", "st_Gamma_udd4_symm", "st_Gamma_udd4_is_christoffel", "christoffel3p1_is_christoffel",
    "dmetric3p1_is_derivative", "gammaup3_lowers_back")]
MODULE_B = "AurelVerif.Props.C04b"      # extension round: Gauss / Codazzi / Mainardi ARE the Riemann tensor of the assembled metric
THEOREMS_B = ["AurelVerif.C04." + t for t in (
    "gauss_offshell", "codazzi_offshell", "mainardi_onshell", "mainardi_algebraic", "mainardi_algebraic_iff",
    "riemann4_is_populate",
    "riemannDown_symmetries", "riem4_symmetries", "gup3p1_is_inverse", "gup3p1_contraction", "christoffel1_normal",
    "kinematic_lie_form", "ddmetric3p1_is_second_derivative", "ddtgam_is_derivative", "ricci_of_einstein",
    "riemannDown_is_lowered_Riem", "riem4_is_lowered_Riem",
    "st_Riemann_down4_gauss", "st_Riemann_down4_codazzi", "st_Riemann_down4_is_riemann_matter",
    "st_Riemann_down4_is_riemann_vacuum", "st_Riemann_down4_is_riemann_matter_noshift",
    "st_Riemann_down4_is_riemann_vacuum_noshift", "st_Ricci_down3_of_einstein", "s_Riemann_down3_is_textbook",
    "leviCivita_of_code")]
NEEDED = ["st_Gamma_udd4", "st_Riemann_down4", "st_Riemann_uddd4", "st_Riemann_uudd4", "Kretschmann",
          "maths_populate_4Riemann", "st_Ricci_down4", "st_Ricci_down3", "st_RicciS", "Einsteindown4",
          "s_to_st", "s_covd_dd", "Ttrace", "gdown4", "gup4", "gdet", "gammadet", "gammaup3"]
LEAN_FILES = ["AurelVerif/Props/C04.lean", "AurelVerif/Spec/Curvature.lean", "AurelVerif/Lemmas/C04Populate.lean",
              "AurelVerif/Lemmas/C04Contract.lean", "AurelVerif/Lemmas/C04Blocks.lean",
              "AurelVerif/Lemmas/C04RiemannMatter.lean", "AurelVerif/Lemmas/C04RiemannVacuum.lean",
              "AurelVerif/Lemmas/C04Gamma.lean", "AurelVerif/Lemmas/C04GammaCode.lean", "AurelVerif/Lemmas/C04Gup.lean",
              "AurelVerif/Props/C04b.lean", "AurelVerif/Spec/Riemann4Jet.lean", "AurelVerif/Lemmas/C04Jet2.lean",
              "AurelVerif/Lemmas/C04Jet2Deriv.lean", "AurelVerif/Lemmas/C04Gauss.lean", "AurelVerif/Lemmas/C04Codazzi.lean",
              "AurelVerif/Lemmas/C04Mainardi.lean", "AurelVerif/Lemmas/C04RiemSym.lean", "AurelVerif/Lemmas/C04RiemLower.lean",
              "AurelVerif/Lemmas/C04RiemLink.lean", "AurelVerif/Lemmas/C04CurvCode.lean",
              "AurelVerif/Gen/CoreCurv.lean", "AurelVerif/Gen/CoreBig_st_Riemann_down4.lean",
              "AurelVerif/Gen/CoreBig_st_Riemann_uddd4.lean", "AurelVerif/Gen/CoreBig_st_Riemann_uudd4.lean",
              "AurelVerif/Gen/CoreBig_Kretschmann.lean", "AurelVerif/Gen/CoreBig_maths_populate_4Riemann.lean"]

KEYS = ["gdown4", "gup4", "gdet", "st_Gamma_udd4", "st_Riemann_down4", "st_Riemann_uddd4", "st_Riemann_uudd4",
        "st_Ricci_down4", "st_RicciS", "Einsteindown4", "Kretschmann"]
ALGEBRAIC = {"gdown4", "gup4", "gdet"}                      # no finite differences involved
RICCI_LIKE = {"st_Ricci_down4", "st_RicciS", "Einsteindown4"}
SMALL = {2: 5e-2, 4: 2e-4, 6: 2e-5, 8: 2e-5}                # relative error allowed on the finer grid
FLOOR = 2e-11                                               # below this (relative) round-off dominates: no ratio test


# ----------------------------------------------------------------------------- symbolic metrics

def _sym():
    import sympy as sp
    T, X, Y, Z = sp.symbols("t x y z", real=True)
    return sp, (T, X, Y, Z)


def metric_from_3p1(alpha, beta, gam):
    sp, _ = _sym()
    g = sp.zeros(4, 4)
    bd = [sum(gam[i][j] * beta[j] for j in range(3)) for i in range(3)]
    g[0, 0] = -alpha ** 2 + sum(beta[i] * bd[i] for i in range(3))
    for i in range(3):
        g[0, i + 1] = g[i + 1, 0] = bd[i]
        for j in range(3):
            g[i + 1, j + 1] = gam[i][j]
    return g


def metric_random(rng, shift=True):
    """random smooth 3+1 data: time-dependent lapse > 0, shift, non-diagonal positive definite gamma."""
    sp, (T, X, Y, Z) = _sym()
    a = rng.uniform(0.05, 0.15, size=10)
    ph = rng.uniform(0, 2 * np.pi, size=10)
    k = rng.uniform(0.5, 1.3, size=(10, 4)) * rng.choice([-1, 1], size=(10, 4))

    def w(i):
        return sp.Float(a[i]) * sp.sin(sp.Float(k[i, 0]) * T + sp.Float(k[i, 1]) * X + sp.Float(k[i, 2]) * Y
                                       + sp.Float(k[i, 3]) * Z + sp.Float(ph[i]))
    alpha = sp.Float(1.3) + 2 * w(0)
    beta = [sp.Float(0.25) + w(1), sp.Float(-0.2) + w(2), sp.Float(0.15) + w(3)] if shift else [sp.Integer(0)] * 3
    gam = [[1.5 + w(4), 0.3 + w(5), -0.25 + w(6)],
           [0.3 + w(5), 1.8 + w(7), 0.2 + w(8)],
           [-0.25 + w(6), 0.2 + w(8), 1.4 + w(9)]]
    return metric_from_3p1(alpha, beta, gam)


def metric_kasner(rng):
    """Kasner (p = 2/3, 2/3, -1/3; vacuum) in coordinates (t,x,y,z) -> (t + a sin, x + a sin, ...):
    time-dependent lapse, shift and non-diagonal spatial metric, exactly Ricci flat."""
    sp, (T, X, Y, Z) = _sym()
    a = rng.uniform(0.04, 0.1, size=4)
    ph = rng.uniform(0, 2 * np.pi, size=4)
    old = [T + sp.Float(a[0]) * sp.sin(0.9 * X - 0.7 * Y + 0.8 * Z + sp.Float(ph[0])),
           X + sp.Float(a[1]) * sp.sin(0.6 * T + 0.8 * Y - 0.5 * Z + sp.Float(ph[1])),
           Y + sp.Float(a[2]) * sp.sin(-0.7 * T + 0.9 * X + 0.6 * Z + sp.Float(ph[2])),
           Z + sp.Float(a[3]) * sp.sin(0.8 * T - 0.6 * X + 0.7 * Y + sp.Float(ph[3]))]
    p = [sp.Rational(2, 3), sp.Rational(2, 3), sp.Rational(-1, 3)]
    g_old = sp.diag(-1, old[0] ** (2 * p[0]), old[0] ** (2 * p[1]), old[0] ** (2 * p[2]))
    J = sp.Matrix(4, 4, lambda i, m: sp.diff(old[i], (T, X, Y, Z)[m]))
    return J.T * g_old * J


def metric_kerr_schild(rng):
    """Schwarzschild in Kerr-Schild Cartesian coordinates, away from r = 0 (vacuum, non-zero shift)."""
    sp, (T, X, Y, Z) = _sym()
    M = sp.Float(rng.uniform(0.3, 0.6))
    r = sp.sqrt(X ** 2 + Y ** 2 + Z ** 2)
    l = [1, X / r, Y / r, Z / r]
    eta = sp.diag(-1, 1, 1, 1)
    return sp.Matrix(4, 4, lambda a, b: eta[a, b] + 2 * M / r * l[a] * l[b])


class Exact:
    """textbook 4-D geometry of a symbolic metric: derivatives exact (sympy), tensor algebra in numpy."""

    def __init__(self, g):
        sp, CO = _sym()
        exprs = [g[a, b] for a in range(4) for b in range(a, 4)]
        exprs += [sp.diff(g[a, b], CO[c]) for c in range(4) for a in range(4) for b in range(a, 4)]
        exprs += [sp.diff(g[a, b], CO[c], CO[d]) for c in range(4) for d in range(c, 4)
                  for a in range(4) for b in range(a, 4)]
        self.f = sp.lambdify(CO, exprs, modules="numpy", cse=True)

    def evaluate(self, t0, x, y, z):
        shp = x.shape
        it = iter([np.broadcast_to(np.asarray(v, dtype=float), shp) for v in self.f(t0, x, y, z)])
        g = np.empty((4, 4) + shp)
        dg = np.empty((4, 4, 4) + shp)        # dg[c,a,b]   = d_c g_ab
        ddg = np.empty((4, 4, 4, 4) + shp)    # ddg[c,d,a,b] = d_c d_d g_ab
        for a in range(4):
            for b in range(a, 4):
                g[a, b] = g[b, a] = next(it)
        for c in range(4):
            for a in range(4):
                for b in range(a, 4):
                    dg[c, a, b] = dg[c, b, a] = next(it)
        for c in range(4):
            for d in range(c, 4):
                for a in range(4):
                    for b in range(a, 4):
                        v = next(it)
                        ddg[c, d, a, b] = ddg[c, d, b, a] = ddg[d, c, a, b] = ddg[d, c, b, a] = v

        def inv(m):
            return np.moveaxis(np.linalg.inv(np.moveaxis(m, (0, 1), (-2, -1))), (-2, -1), (0, 1))
        gu = inv(g)
        out = {"gdown4": g, "gup4": gu, "gdet": np.linalg.det(np.moveaxis(g, (0, 1), (-2, -1)))}
        # Gamma_{dbc} = 1/2 (d_b g_dc + d_c g_db - d_d g_bc);  Gamma^a_bc = g^ad Gamma_dbc
        G1 = 0.5 * (np.einsum("bdc...->dbc...", dg) + np.einsum("cdb...->dbc...", dg) - dg)
        Gam = np.einsum("ad...,dbc...->abc...", gu, G1)
        out["st_Gamma_udd4"] = Gam
        # R_abcd = 1/2 (g_ad,bc + g_bc,ad - g_ac,bd - g_bd,ac) + g_ef (Gam^e_bc Gam^f_ad - Gam^e_bd Gam^f_ac)
        R = 0.5 * (np.einsum("bcad...->abcd...", ddg) + np.einsum("adbc...->abcd...", ddg)
                   - np.einsum("bdac...->abcd...", ddg) - np.einsum("acbd...->abcd...", ddg))
        R = R + np.einsum("ef...,ebc...,fad...->abcd...", g, Gam, Gam) \
            - np.einsum("ef...,ebd...,fac...->abcd...", g, Gam, Gam)
        out["st_Riemann_down4"] = R
        out["st_Riemann_uddd4"] = np.einsum("ia...,abcd...->ibcd...", gu, R)
        Ruu = np.einsum("ea...,fb...,abcd...->efcd...", gu, gu, R)
        out["st_Riemann_uudd4"] = Ruu
        Ric = np.einsum("ac...,abcd...->bd...", gu, R)
        RS = np.einsum("ab...,ab...->...", gu, Ric)
        out["st_Ricci_down4"], out["st_RicciS"] = Ric, RS
        out["Einsteindown4"] = Ric - 0.5 * RS * g
        out["Kretschmann"] = np.einsum("abcd...,cdab...->...", Ruu, Ruu)
        # 3+1 data from the same exact derivatives
        gam = g[1:, 1:]
        gamu = inv(gam)
        bd = g[0, 1:]
        bu = np.einsum("ij...,j...->i...", gamu, bd)
        alpha = np.sqrt(-1.0 / gu[0, 0])
        dtgamu = -np.einsum("ia...,ab...,bj...->ij...", gamu, dg[0, 1:, 1:], gamu)
        dtbu = np.einsum("ij...,j...->i...", dtgamu, bd) + np.einsum("ij...,j...->i...", gamu, dg[0, 0, 1:])
        dta = (-dg[0, 0, 0] + np.einsum("i...,i...->...", dtbu, bd)
               + np.einsum("i...,i...->...", bu, dg[0, 0, 1:])) / (2 * alpha)     # from alpha^2 = -g_00 + beta^i beta_i
        dgam = dg[1:, 1:, 1:]
        G3 = np.einsum("ad...,dbc...->abc...", gamu,
                       0.5 * (np.einsum("bdc...->dbc...", dgam) + np.einsum("cdb...->dbc...", dgam) - dgam))
        Dbeta = dg[1:, 0, 1:] - np.einsum("kij...,k...->ij...", G3, bd)               # D_i beta_j
        Kd = -(dg[0, 1:, 1:] - Dbeta - np.einsum("ij...->ji...", Dbeta)) / (2 * alpha)
        out["inputs"] = {"gammadown3": gam.copy(), "Kdown3": Kd, "alpha": alpha, "betaup3": bu,
                         "dtalpha": dta, "dtbetaup3": dtbu}
        return out


# ----------------------------------------------------------------------------- the real code

def make_fd(N, order, box):
    import aurel
    (x0, y0, z0), L = box
    param = {"Nx": N, "Ny": N, "Nz": N, "xmin": x0, "ymin": y0, "zmin": z0, "dx": L / N, "dy": L / N, "dz": L / N}
    return aurel.FiniteDifference(param, fd_order=order, verbose=False)


def make_rel(fd, inputs, vacuum, Lambda, extra=None, drop=()):
    import aurel
    rel = aurel.AurelCore(fd, verbose=False, vacuum=vacuum, Lambda=Lambda)
    for k, v in inputs.items():
        if k not in drop:
            rel.data[k] = np.array(v)
    for k, v in (extra or {}).items():
        rel.data[k] = np.array(v)
    rel.freeze_data()
    return rel


def real_values(E, fd, cfg):
    """all eleven keys from the real code for one configuration (dict of arrays)."""
    kappa = 8 * np.pi
    Lam = cfg["Lambda"]
    extra = {}
    if cfg["supply_T"]:
        extra["Tdown4"] = (E["Einsteindown4"] + Lam * E["gdown4"]) / kappa
    rel = make_rel(fd, E["inputs"], cfg["vacuum"], Lam, extra, drop=cfg.get("drop", ()))
    if abs(rel.kappa - kappa) > 1e-12:
        raise RuntimeError("kappa changed")
    vals = {k: np.asarray(rel[k]) for k in KEYS}
    if cfg.get("contract"):
        # second instance: Riemann tensor (just computed by the code) supplied, no Tdown4 ->
        # st_Ricci_down4 by contraction R^a_{bad}, then scalar and Einstein tensor from it
        rel2 = make_rel(fd, E["inputs"], cfg["vacuum"], Lam, {"st_Riemann_down4": vals["st_Riemann_down4"]})
        for k in RICCI_LIKE:
            vals[k + "/contraction"] = np.asarray(rel2[k])
    return vals


def compare(ctx, kind, gsym, t0, box, cfg, order, N, seed):
    """two resolutions N and 2N; returns list of (key, what, err_coarse, err_fine, scale, ratio, ok)."""
    ex = gsym
    res = []
    fds = [make_fd(N, order, box), make_fd(2 * N, order, box)]
    Es = [ex.evaluate(t0, fd.x, fd.y, fd.z) for fd in fds]
    Vs = [real_values(E, fd, cfg) for E, fd in zip(Es, fds)]
    m = 2 * fds[0].mask_len
    if N - 2 * m < 2:
        raise RuntimeError("grid too small for the interior mask")
    co = (slice(m, N - m),) * 3                         # coarse interior
    fi = (slice(2 * m, 2 * (N - m), 2),) * 3            # the same physical points on the fine grid
    riem_scale = float(np.max(np.abs(Es[1]["st_Riemann_down4"][(Ellipsis,) + fi])))
    for name in Vs[0]:
        key = name.split("/")[0]
        exp_c, exp_f = Es[0][key][(Ellipsis,) + co], Es[1][key][(Ellipsis,) + fi]
        got_c, got_f = Vs[0][name], Vs[1][name]
        if got_c.shape != Es[0][key].shape:
            res.append((name, "shape %s, expected %s" % (got_c.shape, Es[0][key].shape), np.inf, np.inf, 1.0, 0.0, False))
            continue
        ec = float(np.max(np.abs(got_c[(Ellipsis,) + co] - exp_c)))
        ef = float(np.max(np.abs(got_f[(Ellipsis,) + fi] - exp_f)))
        scale = float(np.max(np.abs(exp_f)))
        if key in RICCI_LIKE:
            scale = max(scale, riem_scale)               # vacuum: the exact value is 0
        scale = max(scale, 1e-300)
        exact_path = key in ALGEBRAIC or (key in RICCI_LIKE and cfg["supply_T"] and "/" not in name)
        ratio = ec / ef if ef > 0 else np.inf
        if not (np.isfinite(ec) and np.isfinite(ef)):
            ok, what = False, "non-finite values"
        elif exact_path:
            ok, what = (ef / scale <= 1e-9 and ec / scale <= 1e-9), "algebraic: relative error > 1e-9"
        else:
            small = ef / scale <= SMALL[order]
            conv = True
            if ef / scale > FLOOR and ef > 2e-12:
                conv = 2.0 ** (order - 1.0) <= ratio <= 2.0 ** (order + 1.0)
            ok = small and conv
            what = ("not small: relative error %.3g on the finer grid" % (ef / scale)) if not small else \
                ("error ratio %.3g, expected about %g (order %d)" % (ratio, 2.0 ** order, order))
        res.append((name, what, ec, ef, scale, ratio, ok))
    return res


def configs(ctx):
    """(kind, builder, t0, box, cfg, orders, N)"""
    box0 = ((-0.4, -0.3, -0.5), 1.0)
    quick = ctx.tier != "thorough"
    out = []
    orders = (4, 6) if quick else (2, 4, 6, 8)
    out.append(("random 3+1 metric, Tdown4 supplied (vacuum=False)", metric_random, 0.3, box0,
                {"vacuum": False, "Lambda": 0.3, "supply_T": True, "contract": True}, orders))
    out.append(("Kasner in wavy coordinates (vacuum=True)", metric_kasner, 1.5, box0,
                {"vacuum": True, "Lambda": 0.0, "supply_T": False}, (4,) if quick else (4, 6)))
    out.append(("Kerr-Schild Schwarzschild (vacuum=True)", metric_kerr_schild, 0.0, ((2.0, 1.5, 1.0), 1.0),
                {"vacuum": True, "Lambda": 0.0, "supply_T": False}, (6,) if quick else (2, 4, 6)))
    if not quick:
        out.append(("random 3+1 metric, Tdown4 supplied (vacuum=False)", metric_random, -0.2, box0,
                    {"vacuum": False, "Lambda": 0.0, "supply_T": True, "contract": True}, (4, 6)))
        out.append(("random metric without any shift key (s_to_st shortcut, vacuum=False)",
                    lambda rng: metric_random(rng, shift=False), 0.1, box0,
                    {"vacuum": False, "Lambda": 0.3, "supply_T": True, "drop": ("betaup3", "dtbetaup3")}, (4,)))
        out.append(("Kasner in wavy coordinates, vacuum flag off, no Tdown4 (T = 0 from absent fluid keys)",
                    metric_kasner, 1.3, box0, {"vacuum": False, "Lambda": 0.0, "supply_T": False}, (4,)))
    return out


def search(ctx, only=None):
    found = 0
    todo = configs(ctx)
    if ctx.tier == "thorough" or ctx.broken():
        todo = todo + [todo[0][:5] + ((4,),)] * 2          # more random metrics
    for kind, builder, t0, box, cfg, orders in todo:
        if only and kind != only:
            continue
        seed = ctx.rng.randrange(10 ** 6)
        g = builder(np.random.default_rng(seed))
        ex = Exact(g)
        ctx.count("symbolic_metrics")
        for order in orders:
            N = 16 if order <= 6 else 20
            try:
                res = compare(ctx, kind, ex, t0, box, cfg, order, N, seed)
            except Exception as exn:  # noqa
                found += ctx.violation("%s, fd_order %d: the real code raised %r" % (kind, order, exn),
                                       {"kind": "input", "oracle": kind, "generator_seed": seed, "fd_order": order, "N": N,
                                        "config": cfg},
                                       {"site": "exception", "oracle": kind})
                continue
            for name, what, ec, ef, scale, ratio, ok in res:
                ctx.count("oracle_evaluations")
                if len(ctx.samples) < 10 and name in ("st_Gamma_udd4", "st_Riemann_down4", "Kretschmann"):
                    ctx.sample({"metric": kind, "key": name, "fd_order": order, "N": [N, 2 * N],
                                "rel_err": [ec / scale, ef / scale], "ratio": ratio})
                if not ok:
                    found += ctx.violation(
                        "%s [%s, fd_order %d, N=%d/%d]: %s (max errors %.3g / %.3g, scale %.3g)"
                        % (name, kind, order, N, 2 * N, what, ec, ef, scale),
                        {"kind": "input", "oracle": kind, "key": name, "generator_seed": seed, "fd_order": order,
                         "N": N, "t0": t0, "box": box, "config": cfg, "err_coarse": ec, "err_fine": ef,
                         "scale": scale, "ratio": ratio},
                        {"site": name, "oracle": kind})
    return found


def run(ctx):
    ctx.trusted += corecheck.TRUSTED
    ctx.trusted += ["that the cached st_Ricci_down3 entering R_itjt is the spatial Ricci tensor of the spacetime metric, i.e. that the "
                    "data solve Einstein's equations with the supplied Tdown4 / vacuum flag (hypothesis hRic of "
                    "st_Riemann_down4_is_riemann_*; Gauss and Codazzi are proven off shell, Props/C04b.lean)"]
    ctx.assumptions += [
        "Layer A theorems are exact for every field and every difference operator; Layer B (st_Gamma_udd4 = Christoffel symbols "
        "of the assembled metric) assumes the product rule, the kinematic relation for d_t gamma_ij, a torsion-free metric-compatible "
        "s_Gamma_udd3, gamma^-1, alpha != 0, char != 2 — the finite-difference operators satisfy the differential ones only up to truncation error",
        "Layer B, extension (Props/C04b.lean): Gauss and Codazzi blocks = components R_ijkl, R_ijkt of the textbook Riemann tensor "
        "([LL] 92.1 = lowered first-principles definition) of the assembled metric as off-shell identities; R_itjt and hence all 256 "
        "components under the hypothesis that st_Ricci_down3 is the spatial Ricci tensor of that metric; hypotheses: Jet.LeviCivita, "
        "commuting second derivatives, d_i d_t gamma_jk = Leibniz derivative of the kinematic relation, s_Riemann_down3 = textbook "
        "3-Riemann tensor (C05 theorem); second time derivatives are free symbols",
        "NOT proven: convergence order; round-off — watched by the sympy/numpy oracle on three families of metrics "
        "(two resolutions, order in the ratio)"]
    r = corecheck.regen_and_validate(ctx, NEEDED)
    if r is not None and not ctx.broken():
        ctx.prove(MODULE, THEOREMS, timeout=2400)
        ctx.prove(MODULE_B, THEOREMS_B, timeout=2400)
        ctx.forbidden_scan(LEAN_FILES)
        if ctx.tier == "thorough":
            ctx.leanchecker([MODULE, MODULE_B])
    with np.errstate(all="ignore"):
        search(ctx)
        if r is not None:
            # request-history pass on EXACT solutions (alternatives such as 'Ricci from T' and 'Ricci by contraction' only
            # agree on solutions of Einstein's equations, so generic smooth fields would not do)
            hseed = ctx.rng.randrange(10 ** 6)
            box0 = ((-0.4, -0.3, -0.5), 1.0)
            for vac, builder, t0, Lam in ((False, metric_random, 0.3, 0.3), (True, metric_kasner, 1.5, 0.0)):
                ex = Exact(builder(np.random.default_rng(hseed)))
                cache = {}

                def factory(N, ex=ex, cache=cache, vac=vac, t0=t0, Lam=Lam):
                    if N not in cache:
                        fd = make_fd(N, 4, box0)
                        cache[N] = (fd, ex.evaluate(t0, fd.x, fd.y, fd.z))
                    fd, E = cache[N]
                    extra = {} if vac else {"Tdown4": (E["Einsteindown4"] + Lam * E["gdown4"]) / (8 * np.pi)}
                    return make_rel(fd, E["inputs"], vac, Lam, extra)
                corecheck.history_pass(ctx, r[2], [k for k in KEYS if k != "gdet"], factory, "C04", Ns=(10, 20),
                                       max_alts=None if ctx.tier == "thorough" or ctx.broken() else 10)
    ctx.cov["observe_at_keys"] = KEYS


def replay(ctx, obj):
    with np.errstate(all="ignore"):
        n = search(ctx, only=obj.get("oracle"))
    return 1 if n else 0


MANIFEST = {
    "category": "proof",
    "technique": "Lean 4 theorems (rfl on the generated 256-entry tables, ring / field_simp / linear_combination over an arbitrary field) "
                 "about formulas regenerated from core.py/maths.py by symbolic execution; translation validation each run; "
                 "independent sympy (exact derivatives) + numpy.linalg oracle on the real code with a two-resolution order test",
    "text": "Proof, for every input, field and difference operator: populate_4Riemann builds exactly the tensor with blocks "
            "(R_ijkl, R_ijkt, R_itjt) and the Riemann symmetries; each of the 4 alternatives of st_Riemann_down4 equals, in all 256 "
            "components, populate(Gauss 2.38, Codazzi 2.41, Mainardi 2.56) written in index notation; st_Riemann_uddd4/uudd4, both "
            "st_Ricci_down4 and st_Ricci_down3 alternatives (+ their coherence), st_RicciS, Einsteindown4, Kretschmann are the stated "
            "contractions; Ricci/Einstein symmetric; st_Gamma_udd4 equals its six 3+1 pieces and is symmetric below. Consistency proof "
            "(continuum hypotheses stated): all 64 components of st_Gamma_udd4 are the Christoffel symbols of the assembled 4-metric. "
            "Consistency proof, curvature (Props/C04b.lean; jets of lapse, shift, metric, K as symbols of an arbitrary field, d_t gamma "
            "from the kinematic relation): the spatial block R_ijkl of the textbook Riemann tensor of the assembled 4-metric equals "
            "3R_ijkl + K_ik K_jl - K_il K_jk (Gauss, off shell) and R_ijkt equals beta^l R_ijkl + alpha(D_j K_ik - D_i K_jk) (Codazzi, off "
            "shell) - for the generated code: these components of all 4 alternatives of st_Riemann_down4, with the code's own "
            "s_Riemann_down3 (textbook form: C05); R_itjt (Mainardi as coded) and therefore ALL 256 components of each alternative equal "
            "the textbook tensor when (and, componentwise, only when) the cached st_Ricci_down3 (0 with vacuum=True) is the spatial Ricci tensor of that metric, "
            "which Einstein's equations with the supplied Tdown4 imply (trace reversal proven); the textbook covariant formula is proven "
            "equal to the lowered first-principles R^a_bcd of Spec/Jet4.lean and to have the Riemann symmetries. "
            "Metric/inverse/determinant: C08.",
    "note": "PARTIAL: the curvature theorems are consistency statements (product rule, commuting derivatives, metric-compatible "
            "connection hold for the finite-difference operators only up to truncation error); R_itjt is proven only on shell (hypothesis: "
            "st_Ricci_down3 is the spatial Ricci tensor of the metric; the evolution-equation form with d_t K_ij is not proven, the code "
            "does not use it); nothing is proven about convergence order or round-off; these are covered only by the numerical oracle (random 3+1 metric "
            "with time-dependent lapse, shift, non-diagonal metric and supplied Tdown4; Kasner in wavy coordinates and Kerr-Schild with "
            "vacuum=True; all eleven observe_at keys, error small and ratio ~ 2^p). Trusted: Lean kernel + 3 standard axioms; the "
            "symbolic-execution translator (validated each run); numpy semantics; exact arithmetic.",
}
